"""E2 - effect summaries: which raises are reachable from a function, which self-state it writes.

Calls are resolved through the class of the receiver (`self.m()` via the MRO of
the analysed class, `super().m()`, `Klass.m(self)`, module functions through the
import table, property setters on `self.x = ...`).  Summaries are computed on
demand, memoised per (function, class) and cut at a fixed depth.
"""
from __future__ import annotations

import ast
from typing import Dict, List, Optional, Set, Tuple

from .model import ClassInfo, FuncInfo, Model, calls_in, walk_no_nested, unparse as U
from .util import writes_of

STATE = {"_frequencies", "_errors2", "_missed", "_stats", "_binnings", "_dtype", "_meta_data"}
SETTER_STATE = {"frequencies": "_frequencies", "errors2": "_errors2", "underflow": "_missed", "overflow": "_missed",
                "inner_missed": "_missed", "dtype": "_dtype", "_binning": "_binnings", "adaptive": "_binnings"}


class Effects:
    def __init__(self, model: Model, max_depth: int = 5):
        self.m = model
        self.max_depth = max_depth
        self._raises: Dict[Tuple[str, str], List[str]] = {}
        self._writes: Dict[Tuple[str, str], Set[str]] = {}

    # -- callee resolution -------------------------------------------------------------------
    def resolve_call(self, call: ast.Call, fi: FuncInfo, cls: Optional[ClassInfo]) -> Optional[Tuple[FuncInfo, Optional[ClassInfo]]]:
        f = call.func
        if isinstance(f, ast.Attribute):
            v = f.value
            if isinstance(v, ast.Name) and v.id in ("self", "cls") and cls is not None:
                r = self.m.resolve_method(cls, f.attr)
                return (r[1], cls) if r else None
            if isinstance(v, ast.Call) and U(v.func) == "super" and cls is not None and fi.cls is not None:
                r = self.m.resolve_method(cls, f.attr, after=fi.cls)
                return (r[1], cls) if r else None
            if isinstance(v, ast.Name) and v.id in self.m.classes:
                k = self.m.classes[v.id]
                r = self.m.resolve_method(k, f.attr)
                # Klass.m(self, ...) keeps the dynamic class; Klass.classmethod(...) uses Klass
                if r:
                    return (r[1], cls if (call.args and U(call.args[0]) == "self") else k)
                return None
            r = self.m.resolve_func_expr(fi.module, f)
            if isinstance(r, FuncInfo):
                return (r, None)
            return None
        if isinstance(f, ast.Name):
            r = self.m.resolve_func_expr(fi.module, f)
            if isinstance(r, FuncInfo):
                return (r, None)
            if isinstance(r, ClassInfo):
                init = self.m.resolve_method(r, "__init__")
                return (init[1], r) if init else None
        return None

    def setter_for(self, target: ast.AST, cls: Optional[ClassInfo]):
        if cls is None:
            return None
        if isinstance(target, ast.Attribute) and isinstance(target.value, ast.Name) and target.value.id == "self":
            r = self.m.resolve_setter(cls, target.attr)
            return r[1] if r else None
        return None

    # -- raises --------------------------------------------------------------------------------
    def raises(self, fi: FuncInfo, cls: Optional[ClassInfo], depth: int = 0, stack=()) -> List[str]:
        """Descriptions `Qual.name: raise X [if cond]` of every explicit raise reachable from fi."""
        key = (fi.qualname + "@" + fi.module.name, cls.name if cls else "")
        if key in self._raises:
            return self._raises[key]
        if depth > self.max_depth or key in stack:
            return []
        out: List[str] = []
        for node in walk_no_nested(fi.node):
            if isinstance(node, ast.Raise):
                out.append(f"{fi.qualname}: {U(node)[:90]}")
            elif isinstance(node, ast.Assert):
                out.append(f"{fi.qualname}: {U(node)[:90]}")
            elif isinstance(node, ast.Call):
                r = self.resolve_call(node, fi, cls)
                if r is not None:
                    out += self.raises(r[0], r[1], depth + 1, stack + (key,))
            elif isinstance(node, (ast.Assign, ast.AugAssign)):
                targets = node.targets if isinstance(node, ast.Assign) else [node.target]
                for t in targets:
                    s = self.setter_for(t, cls)
                    if s is not None:
                        out += self.raises(s, cls, depth + 1, stack + (key,))
                if isinstance(node, ast.AugAssign) and U(node.target) == "self" and cls is not None:
                    opname = {ast.Add: "__iadd__", ast.Sub: "__isub__", ast.Mult: "__imul__",
                              ast.Div: "__itruediv__"}.get(type(node.op))
                    r = self.m.resolve_method(cls, opname) if opname else None
                    if r:
                        out += self.raises(r[1], cls, depth + 1, stack + (key,))
        out = sorted(set(out))
        if depth == 0 or not stack:
            self._raises[key] = out
        return out

    # -- writes -------------------------------------------------------------------------------
    def writes(self, fi: FuncInfo, cls: Optional[ClassInfo], depth: int = 0, stack=()) -> Set[str]:
        """State attributes of `self` that fi may write (directly, via setters, via self-calls)."""
        key = (fi.qualname + "@" + fi.module.name, cls.name if cls else "")
        if key in self._writes:
            return self._writes[key]
        if depth > self.max_depth or key in stack:
            return set()
        out: Set[str] = set()
        for node in walk_no_nested(fi.node):
            if isinstance(node, ast.stmt):
                for w in writes_of(node):
                    if w.root == "self" and w.attrs:
                        a = SETTER_STATE.get(w.attrs[0], w.attrs[0])
                        if a in STATE:
                            out.add(a)
            if isinstance(node, ast.Call):
                f = node.func
                is_self_call = isinstance(f, ast.Attribute) and (
                    (isinstance(f.value, ast.Name) and f.value.id == "self")
                    or (isinstance(f.value, ast.Call) and U(f.value.func) == "super")
                    or (isinstance(f.value, ast.Name) and f.value.id in self.m.classes and node.args and U(node.args[0]) == "self"))
                if is_self_call:
                    r = self.resolve_call(node, fi, cls)
                    if r is not None:
                        out |= self.writes(r[0], r[1], depth + 1, stack + (key,))
            if isinstance(node, ast.AugAssign) and U(node.target) == "self" and cls is not None:
                opname = {ast.Add: "__iadd__", ast.Sub: "__isub__", ast.Mult: "__imul__", ast.Div: "__itruediv__"}.get(type(node.op))
                if opname:
                    r = self.m.resolve_method(cls, opname)
                    if r:
                        out |= self.writes(r[1], cls, depth + 1, stack + (key,))
        if depth == 0 or not stack:
            self._writes[key] = out
        return out
