"""API contract census: option defaults and refusals of the anchored functions.

The table `sa/contract.json` was generated (tools/gen_contract.py) from the tree on which every property was confirmed
and is committed; the check never writes it.  For every function a property is anchored in it records

* the default of every optional parameter (changing a default changes what every caller gets who did not ask), and
* every refusal: the exception type and the guard under which it is raised, in a canonical form (operands of
  commutative operators sorted, `>`/`>=` turned into `<`/`<=`, a leading `not` folded into the decision, locals
  alpha-normalised by sa/canon.py).

Rule: each recorded default is still the default, and for each recorded refusal every structural path on which the
guard takes the recorded decision still ends in a raise of that exception type.  New parameters, new refusals, reworded
messages, reformatting and renamed locals are not reported; a guard that is split, merged or rewritten is (the entry is
then re-confirmed by reading and the table regenerated).
"""
from __future__ import annotations

import ast
import json
from pathlib import Path
from typing import Dict, List

from .model import unparse as U

TABLE = Path(__file__).resolve().parent / "contract.json"

# properties that own a function no anchor range names (by module)
MODULE_OWNER = {
    "_construction": ["C17"], "_facade": ["C17"], "binnings": ["C07"], "_bin_utils": ["C07"], "histogram_base": ["C18"],
    "histogram1d": ["C18"], "histogram_nd": ["C18"], "special_histograms": ["C15"], "statistics": ["C14"],
    "histogram_collection": ["C18"], "io": ["C08"], "io.json": ["C08"], "io.util": ["C08"], "io.version": ["C08"], "_util": ["C08"],
    "config": ["C19"], "compat.pandas": ["C17"], "compat.polars": ["C17"], "compat.dask": ["C17"], "compat.xarray": ["C17"],
    "compat.geant4": ["C17"], "plotting": ["C20"], "plotting.common": ["C20"], "plotting.matplotlib": ["C20"],
    "plotting.plotly": ["C20"], "plotting.ascii": ["C20"],
}
SKIP_MODULES = ("examples", "testing", "testing.strategies", "helpers.db", "plotting.vega", "plotting.folium", "typing_aliases", "version")


def func_key(fi) -> str:
    k = fi.qualname
    if getattr(fi, "kind", "") == "setter" or any(U(d).endswith(".setter") for d in fi.node.decorator_list):
        k += ".setter"
    if fi.name == "_":
        a = fi.node.args
        first = (a.posonlyargs + a.args)[:1]
        ann = U(first[0].annotation) if first and first[0].annotation is not None else ""
        reg = [U(d) for d in fi.node.decorator_list]
        k = f"{k}#{ann}#{reg[0] if reg else ''}"
    return k


def is_stub(fi) -> bool:
    return any(U(d).split(".")[-1] == "overload" for d in fi.node.decorator_list)


def canon(e: ast.AST) -> str:
    """Canonical text of a condition (see module docstring)."""
    if isinstance(e, ast.BoolOp):
        op = " and " if isinstance(e.op, ast.And) else " or "
        return "(" + op.join(sorted(canon(v) for v in e.values)) + ")"
    if isinstance(e, ast.UnaryOp) and isinstance(e.op, ast.Not):
        return "not " + canon(e.operand)
    if isinstance(e, ast.Compare) and len(e.ops) == 1:
        a, b, op = U(e.left), U(e.comparators[0]), e.ops[0]
        if isinstance(op, (ast.Eq, ast.NotEq)):
            a, b = sorted((a, b))
            return f"{a} {'==' if isinstance(op, ast.Eq) else '!='} {b}"
        if isinstance(op, ast.Gt):
            return f"{b} < {a}"
        if isinstance(op, ast.GtE):
            return f"{b} <= {a}"
    return U(e)


def exc_name(r: ast.Raise) -> str:
    if r.exc is None:
        return "<re-raise>"
    f = r.exc.func if isinstance(r.exc, ast.Call) else r.exc
    return U(f).split(".")[-1]


def defaults_of(fi) -> Dict[str, str]:
    a = fi.node.args
    out = {}
    pos = a.posonlyargs + a.args
    for p, d in zip(pos[len(pos) - len(a.defaults):], a.defaults):
        out[p.arg] = U(d)
    for p, d in zip(a.kwonlyargs, a.kw_defaults):
        if d is not None:
            out[p.arg] = U(d)
    return out


def kw_options_of(fi) -> Dict[str, str]:
    """Options taken out of a keyword dictionary with a default: `<d>.pop("name", default)` / `<d>.get("name", default)`
    where <d> is the function's **kwargs parameter (or a dict named kwargs). name -> default text, written over what the
    function was given (locals replaced by what they abbreviate at that point, see refusals_of); all defaults a name is read with."""
    return refusals_of(fi, with_options=True)[1]


def UK(e: ast.AST) -> str:
    """unparse with the keyword arguments of every call in name order (keyword order carries no meaning)."""
    import copy
    e = copy.deepcopy(e)
    for n in ast.walk(e):
        if isinstance(n, ast.Call):
            n.keywords = sorted(n.keywords, key=lambda k: (k.arg is None, k.arg or ""))
    return U(e)


EXTRA_OWNERS = {"io.json.parse_json": ["C12"], "io.json.load_json": ["C12"],   # "JSON parsing" returns independent objects (C12)
                # the JSON reader rebuilds histograms through these constructors: what they do with their arguments is part of the round trip
                "Histogram1D.__init__": ["C08"], "HistogramND.__init__": ["C08"], "HistogramBase.__init__": ["C08"]}


def rebinds_of(fi) -> Dict[str, List[str]]:
    """Re-bindings of the function's own parameters: parameter -> sorted list of the (canonical) values assigned to it.
    An input that is rewritten before it is validated / used is a classic way to make a wrong input look right."""
    a = fi.node.args
    params = {x.arg for x in a.posonlyargs + a.args + a.kwonlyargs} - {"self", "cls"}
    out: Dict[str, List[str]] = {}

    def walk(node):
        for ch in ast.iter_child_nodes(node):
            if isinstance(ch, (ast.FunctionDef, ast.AsyncFunctionDef, ast.ClassDef, ast.Lambda)):
                continue
            if isinstance(ch, ast.Assign):
                for t in ch.targets:
                    for n in ([t] if isinstance(t, ast.Name) else (t.elts if isinstance(t, ast.Tuple) else [])):
                        if isinstance(n, ast.Name) and n.id in params:
                            out.setdefault(n.id, []).append(UK(ch.value) if isinstance(t, ast.Name) else f"<item of> {UK(ch.value)}")
            elif isinstance(ch, ast.AugAssign) and isinstance(ch.target, ast.Name) and ch.target.id in params:
                out.setdefault(ch.target.id, []).append(f"<{type(ch.op).__name__}>= {UK(ch.value)}")
            elif isinstance(ch, ast.AnnAssign) and isinstance(ch.target, ast.Name) and ch.target.id in params and ch.value is not None:
                out.setdefault(ch.target.id, []).append(UK(ch.value))
            walk(ch)
    walk(fi.node)
    return {k: sorted(set(v)) for k, v in out.items()}


def decorators_of(fi) -> List[str]:
    return [UK(d) for d in fi.node.decorator_list]


_FLIP = {ast.Lt: ast.GtE, ast.GtE: ast.Lt, ast.Gt: ast.LtE, ast.LtE: ast.Gt, ast.Eq: ast.NotEq, ast.NotEq: ast.Eq,
         ast.Is: ast.IsNot, ast.IsNot: ast.Is, ast.In: ast.NotIn, ast.NotIn: ast.In}


def _strip_test(test, decision):
    """What is tested: `not` peeled off, `(name := e)` and `bool(e)` are `e` as far as the truth value goes."""
    while True:
        if isinstance(test, ast.UnaryOp) and isinstance(test.op, ast.Not):
            test, decision = test.operand, not decision
        elif isinstance(test, ast.NamedExpr):
            test = test.value
        elif isinstance(test, ast.Call) and isinstance(test.func, ast.Name) and test.func.id == "bool" and len(test.args) == 1 and not test.keywords:
            test = test.args[0]
        else:
            return test, decision


def atoms(test: ast.AST, decision: bool) -> List[str]:
    """The condition `test == decision` as a list of canonical atoms that all hold (conjunction)."""
    test, decision = _strip_test(test, decision)
    if isinstance(test, ast.BoolOp):
        if isinstance(test.op, ast.And) and decision:
            return sorted(a for v in test.values for a in atoms(v, True))
        if isinstance(test.op, ast.Or) and not decision:
            return sorted(a for v in test.values for a in atoms(v, False))
        inner = sorted(" & ".join(atoms(v, isinstance(test.op, ast.And))) for v in test.values)
        return [("<not-all>(" if isinstance(test.op, ast.And) else "<one-of>(") + "; ".join(inner) + ")"]
    if isinstance(test, ast.Compare) and len(test.ops) == 1:
        if not decision and type(test.ops[0]) in _FLIP:
            import copy
            test = copy.deepcopy(test)
            test.ops = [_FLIP[type(test.ops[0])]()]
            decision = True
        if decision:
            return [canon(test)]
    return [("" if decision else "not ") + canon(test)]


def alternatives(test: ast.AST, decision: bool) -> List[List[str]]:
    """The ways in which `test == decision` can come about, each a conjunction of atoms: a disjunction taken true (a
    conjunction taken false) is split into its operands; everything else is the single conjunction `atoms(...)`."""
    test, decision = _strip_test(test, decision)
    if isinstance(test, ast.BoolOp) and ((isinstance(test.op, ast.Or) and decision) or (isinstance(test.op, ast.And) and not decision)):
        out = []
        for v in test.values:
            out += alternatives(v, decision)
        return out
    return [atoms(test, decision)]


def single_defs(fn, with_params: bool = False):
    """Locals bound exactly once in the whole function, by a plain `name = expr` (or element-wise `a, b = x, y`): the name
    is then only an abbreviation, and a condition is the same condition whether it is written with the name or with the
    expression. Parameters, loop / with / except targets, augmented and walrus bindings never qualify."""
    a = fn.args
    params = {x.arg for x in a.posonlyargs + a.args + a.kwonlyargs} | ({a.vararg.arg} if a.vararg else set()) | ({a.kwarg.arg} if a.kwarg else set())
    count: Dict[str, int] = {}
    cand: Dict[str, ast.AST] = {}

    def visit(node, in_comp):
        for ch in ast.iter_child_nodes(node):
            if isinstance(ch, (ast.FunctionDef, ast.AsyncFunctionDef, ast.ClassDef, ast.Lambda)):
                continue
            comp = in_comp or isinstance(ch, (ast.ListComp, ast.SetComp, ast.DictComp, ast.GeneratorExp))
            if isinstance(ch, ast.Name) and isinstance(ch.ctx, (ast.Store, ast.Del)) and not (comp and not _is_walrus_target(ch, node)):
                count[ch.id] = count.get(ch.id, 0) + 1
            if isinstance(ch, ast.AugAssign) and isinstance(ch.target, ast.Name):
                count[ch.target.id] = count.get(ch.target.id, 0) + 1
            if isinstance(ch, ast.Assign) and len(ch.targets) == 1 or isinstance(ch, ast.AnnAssign) and ch.value is not None:
                t = ch.targets[0] if isinstance(ch, ast.Assign) else ch.target
                if isinstance(t, ast.Name):
                    cand[t.id] = ch.value
                elif isinstance(t, ast.Tuple) and isinstance(ch.value, ast.Tuple) and len(t.elts) == len(ch.value.elts):
                    for te, ve in zip(t.elts, ch.value.elts):
                        if isinstance(te, ast.Name):
                            cand[te.id] = ve
                elif isinstance(t, ast.Tuple) and not any(isinstance(te, ast.Starred) for te in t.elts):
                    for k, te in enumerate(t.elts):
                        if isinstance(te, ast.Name):
                            cand[te.id] = ast.Subscript(value=ch.value, slice=ast.Constant(value=k), ctx=ast.Load())
            visit(ch, comp)
    visit(fn, False)
    # an object that is filled in afterwards (`x[i] = ..`, `x.a = ..`) is not an abbreviation of its creating expression
    for n in ast.walk(fn):
        if isinstance(n, (ast.Subscript, ast.Attribute)) and isinstance(n.ctx, (ast.Store, ast.Del)) and isinstance(n.value, ast.Name):
            cand.pop(n.value.id, None)
        if isinstance(n, ast.AugAssign) and isinstance(n.target, (ast.Subscript, ast.Attribute)) and isinstance(n.target.value, ast.Name):
            cand.pop(n.target.value.id, None)
    pure = lambda v: not any(isinstance(x, (ast.NamedExpr, ast.Yield, ast.Await)) for x in ast.walk(v))      # noqa: E731
    if with_params:
        # a parameter re-bound exactly once, by a statement of the function body itself (not nested): from there on the name
        # abbreviates that expression of the caller's value
        top = {}
        for k_, st in enumerate(fn.body):
            if isinstance(st, ast.Assign) and len(st.targets) == 1 or isinstance(st, ast.AnnAssign) and st.value is not None:
                t = st.targets[0] if isinstance(st, ast.Assign) else st.target
                for n in ([t] if isinstance(t, ast.Name) else list(t.elts) if isinstance(t, ast.Tuple) else []):
                    if isinstance(n, ast.Name) and n.id in params and count.get(n.id, 0) == 1 and n.id in cand and pure(cand[n.id]):
                        top.setdefault(id(st), {})[n.id] = cand[n.id]
                        # what the statements up to here read under that name is the caller's value, not the abbreviation
                        for before in fn.body[:k_ + 1]:
                            for x in ast.walk(before):
                                if isinstance(x, ast.Name) and x.id == n.id and isinstance(x.ctx, ast.Load):
                                    x._raw = True
        return {n: v for n, v in cand.items() if count.get(n, 0) == 1 and n not in params and pure(v)}, top
    return {n: v for n, v in cand.items() if count.get(n, 0) == 1 and n not in params and pure(v)}


def _is_walrus_target(name, parent) -> bool:
    return isinstance(parent, ast.NamedExpr) and parent.target is name


def expand_defs(e: ast.AST, defs: Dict[str, ast.AST], depth: int = 6) -> ast.AST:
    import copy

    class T(ast.NodeTransformer):
        def __init__(self, stack):
            self.stack = stack

        def visit_Name(self, node):
            if isinstance(node.ctx, ast.Load) and node.id in defs and node.id not in self.stack and len(self.stack) < depth and not getattr(node, "_raw", False):
                return T(self.stack + (node.id,)).visit(copy.deepcopy(defs[node.id]))
            return node
    return norm_comprehensions(T(()).visit(copy.deepcopy(e)))


def norm_comprehensions(e: ast.AST) -> ast.AST:
    """Comprehension variables are bound names: numbered by nesting depth and position."""
    def rename(node, mapping):
        for ch in ast.iter_child_nodes(node):
            if isinstance(ch, ast.Name) and ch.id in mapping:
                ch.id = mapping[ch.id]
            rename(ch, mapping)

    def visit(node, depth):
        for ch in ast.iter_child_nodes(node):
            visit(ch, depth + isinstance(ch, (ast.ListComp, ast.SetComp, ast.DictComp, ast.GeneratorExp)))
        if isinstance(node, (ast.ListComp, ast.SetComp, ast.DictComp, ast.GeneratorExp)):
            mapping, k = {}, 0
            for g in node.generators:
                for n in ast.walk(g.target):
                    if isinstance(n, ast.Name) and n.id not in mapping:
                        mapping[n.id] = f"_c{depth}_{k}"
                        k += 1
            first_iter = node.generators[0].iter
            node.generators[0].iter = ast.Constant(value=None)
            rename(node, mapping)
            node.generators[0].iter = first_iter
    visit(ast.Expression(body=e), 0)
    return e


def _terminates(stmts) -> bool:
    if not stmts:
        return False
    last = stmts[-1]
    if isinstance(last, (ast.Raise, ast.Return, ast.Continue, ast.Break)):
        return True
    if isinstance(last, ast.If):
        return bool(last.orelse) and _terminates(last.body) and _terminates(last.orelse)
    if isinstance(last, ast.With):
        return _terminates(last.body)
    return False


def _expand_env(e: ast.AST, env: Dict[str, ast.AST]) -> ast.AST:
    import copy
    bound = set()
    for n in ast.walk(e):
        if isinstance(n, ast.comprehension):
            bound |= {x.id for x in ast.walk(n.target) if isinstance(x, ast.Name)}
        if isinstance(n, ast.Lambda):
            bound |= {a.arg for a in n.args.args}

    class T(ast.NodeTransformer):
        def visit_Name(self, node):
            if isinstance(node.ctx, ast.Load) and node.id in env and node.id not in bound:
                return copy.deepcopy(env[node.id])
            return node
    return T().visit(copy.deepcopy(e))


def refusals_of(fi, with_options: bool = False):
    """One entry per Raise statement of the function (nested functions excluded): the exception type and the set of
    conditions that necessarily hold when it is reached (canonical atoms; a branch that ends in raise / return puts the
    negated test on everything after it, `a and b` true / `a or b` false are split, `not` is pushed into comparisons).
    The set is the same for `if a: raise X` + `else: if b: raise Y`, for the early-return form, and for merged / split
    nested ifs.

    Conditions are written over what the function was given: a local (or re-bound parameter) whose reaching definition is
    the same on every way to the test is replaced by that definition (a forward pass with a flat lattice: branches are
    merged by equality, whatever a loop or try body assigns is unknown), so naming or un-naming a sub-expression, or
    re-using a name, does not change the signature. Objects that are filled in after creation (`x[i] = ..`) stay names."""
    out = []
    kwopts: Dict[str, set] = {}
    mutated = set()
    for n in ast.walk(fi.node):
        if isinstance(n, (ast.Subscript, ast.Attribute)) and isinstance(n.ctx, (ast.Store, ast.Del)) and isinstance(n.value, ast.Name):
            mutated.add(n.value.id)
    impure = lambda v: any(isinstance(x, (ast.NamedExpr, ast.Yield, ast.YieldFrom, ast.Await)) for x in ast.walk(v))      # noqa: E731

    def X(t, env):
        return norm_comprehensions(_expand_env(t, env))

    def bind(env, target, value):
        if isinstance(target, ast.Name):
            v = _expand_env(value, env)
            if target.id in mutated or impure(value) or len(U(v)) > 300:
                env.pop(target.id, None)
            else:
                env[target.id] = v
        elif isinstance(target, (ast.Tuple, ast.List)) and not any(isinstance(t, ast.Starred) for t in target.elts):
            if isinstance(value, (ast.Tuple, ast.List)) and len(value.elts) == len(target.elts):
                vals = [_expand_env(v, env) for v in value.elts]
                for t, v in zip(target.elts, vals):
                    if isinstance(t, ast.Name) and t.id not in mutated and not impure(v) and len(U(v)) <= 300:
                        env[t.id] = v
                    else:
                        kill(env, t)
            else:
                v = _expand_env(value, env)
                for k, t in enumerate(target.elts):
                    if isinstance(t, ast.Name) and t.id not in mutated and not impure(value) and len(U(v)) <= 300:
                        env[t.id] = ast.Subscript(value=v, slice=ast.Constant(value=k), ctx=ast.Load())
                    else:
                        kill(env, t)
        else:
            kill(env, target)

    def kill(env, node):
        for n in ast.walk(node):
            if isinstance(n, ast.Name) and isinstance(n.ctx, (ast.Store, ast.Del)):
                env.pop(n.id, None)
            if isinstance(n, ast.AugAssign) and isinstance(n.target, ast.Name):
                env.pop(n.target.id, None)

    def same(a, b):
        return ast.dump(a) == ast.dump(b)

    kw_ = fi.node.args.kwarg.arg if fi.node.args.kwarg is not None else None
    kw_names = {kw_, "kwargs"} - {None}

    def options_in(node, env):
        for n in ast.walk(node):
            if isinstance(n, ast.Call) and isinstance(n.func, ast.Attribute) and n.func.attr in ("pop", "get") and isinstance(n.func.value, ast.Name) \
                    and n.func.value.id in kw_names and len(n.args) == 2 and isinstance(n.args[0], ast.Constant) and isinstance(n.args[0].value, str):
                kwopts.setdefault(n.args[0].value, set()).add(UK(X(n.args[1], env)))

    def walk(stmts, conds, handler, env):
        """`env` is updated in place to what holds after the statements"""
        conds = list(conds)
        for st in stmts:
            if isinstance(st, (ast.FunctionDef, ast.AsyncFunctionDef, ast.ClassDef)):
                continue
            if isinstance(st, ast.If):
                options_in(st.test, env)
            elif isinstance(st, (ast.For, ast.AsyncFor)):
                options_in(st.iter, env)
            elif isinstance(st, ast.While):
                options_in(st.test, env)
            elif isinstance(st, (ast.With, ast.AsyncWith)):
                for it_ in st.items:
                    options_in(it_.context_expr, env)
            elif not isinstance(st, ast.Try):
                options_in(st, env)
            if isinstance(st, ast.Raise):
                out.append(dict(kind="handler" if handler else ("guard" if conds else "plain"), exc=exc_name(st),
                                conds=sorted(set(conds + ([f"<handler of {handler}>"] if handler else [])))))
            elif isinstance(st, ast.If):
                plain = lambda cs_: [c for c in cs_ if not c.startswith(("<not-all>(", "<one-of>("))]   # noqa: E731
                # only plain atoms are kept: a compound that cannot be split ("not both", "one of") would appear or not
                # depending on whether the code tests it directly or falls through to it
                test = X(st.test, env)
                kill(env, st.test)
                b, e = plain(conds + atoms(test, True)), plain(conds + atoms(test, False))
                # `if a or b: raise` refuses when a, and refuses when b: one signature per disjunct
                envb, enve = dict(env), dict(env)
                for alt in alternatives(test, True):
                    envb = dict(env)
                    walk(st.body, plain(conds + alt), handler, envb)
                for alt in alternatives(test, False):
                    enve = dict(env)
                    walk(st.orelse, plain(conds + alt), handler, enve)
                tb, te = _terminates(st.body), bool(st.orelse) and _terminates(st.orelse)
                if tb and not te:
                    conds = plain(e)
                    merged = enve
                elif te and not tb:
                    conds = plain(b)
                    merged = envb
                elif tb and te:
                    merged = {}
                else:
                    merged = {}
                    for k, v in envb.items():
                        if k not in enve:
                            continue
                        if same(v, enve[k]):
                            merged[k] = v
                        else:
                            # what the name abbreviates depends on the test: a conditional expression says exactly that
                            from .canon import _positive
                            pt_, sw_ = _positive(test)
                            phi = ast.IfExp(test=pt_, body=enve[k] if sw_ else v, orelse=v if sw_ else enve[k])
                            if len(U(phi)) <= 300 and not any(isinstance(x_, ast.Name) and x_.id == k for x_ in ast.walk(test)):
                                merged[k] = phi
                env.clear()
                env.update(merged)
            elif isinstance(st, (ast.For, ast.AsyncFor, ast.While)):
                kill(env, st)
                walk(st.body, conds, handler, dict(env))
                walk(st.orelse, conds, handler, dict(env))
            elif isinstance(st, (ast.With, ast.AsyncWith)):
                for item in st.items:
                    if item.optional_vars is not None:
                        kill(env, item.optional_vars)
                walk(st.body, conds, handler, env)
            elif isinstance(st, ast.Try):
                kill(env, st)
                walk(st.body, conds, handler, dict(env))
                for h in st.handlers:
                    walk(h.body, conds, U(h.type) if h.type is not None else "<bare>", dict(env))
                walk(st.orelse, conds, handler, dict(env))
                walk(st.finalbody, conds, handler, dict(env))
            elif isinstance(st, ast.Assign):
                kill(env, st.value)
                if len(st.targets) == 1:
                    bind(env, st.targets[0], st.value)
                else:
                    for t in st.targets:
                        kill(env, t)
            elif isinstance(st, ast.AnnAssign) and st.value is not None:
                kill(env, st.value)
                bind(env, st.target, st.value)
            else:
                kill(env, st)
    walk(fi.node.body, [], None, {})
    seen, uniq = set(), []
    for r in out:
        k = json.dumps(r, sort_keys=True)
        if k not in seen:
            seen.add(k)
            uniq.append(r)
    if with_options:
        # functions defined inside this one (decorator wrappers) read their own keyword dictionary: recorded with the outer function
        for inner in ast.walk(fi.node):
            if inner is not fi.node and isinstance(inner, (ast.FunctionDef, ast.AsyncFunctionDef)):
                kwi = {inner.args.kwarg.arg if inner.args.kwarg is not None else None, "kwargs"} - {None}
                defs_i = single_defs(inner)
                for n in ast.walk(inner):
                    if isinstance(n, ast.Call) and isinstance(n.func, ast.Attribute) and n.func.attr in ("pop", "get") and isinstance(n.func.value, ast.Name) \
                            and n.func.value.id in kwi and len(n.args) == 2 and isinstance(n.args[0], ast.Constant) and isinstance(n.args[0].value, str):
                        kwopts.setdefault(n.args[0].value, set()).add(UK(expand_defs(n.args[1], defs_i)))
        return uniq, {k: " | ".join(sorted(v)) for k, v in kwopts.items()}
    return uniq


def check_refusal(fi, entry, now=None) -> str:
    """'' when the refusal still holds, otherwise what happened to it."""
    now = refusals_of(fi) if now is None else now
    if entry in now:
        return ""
    desc = " and ".join(f"`{c}`" for c in entry.get("conds", [])) or "unconditionally"
    same_exc = [r for r in now if r["exc"] == entry["exc"]]
    near = [r for r in same_exc if set(r["conds"]) & set(entry["conds"])]
    if near:
        return (f"the refusal with {entry['exc']} is no longer raised exactly when {desc} "
                f"(now when {' and '.join('`' + c + '`' for c in near[0]['conds']) or 'always'})")
    return f"when {desc} the function no longer raises {entry['exc']} (raise removed, or its condition / polarity changed)"


def load():
    if not TABLE.exists():
        return None
    return json.loads(TABLE.read_text())


def check(ctx, prop: str, rule: str, floor: int = 1):
    """Compare the functions owned by `prop` with the committed table."""
    from .model import AnalysisError
    tab = load()
    if tab is None:
        raise AnalysisError("sa/contract.json is missing")
    byk = {}
    for fi in ctx.model.all_funcs():
        if is_stub(fi):
            continue
        byk.setdefault(func_key(fi), fi)
    n = 0
    for key, ent in sorted(tab["functions"].items()):
        if prop not in ent["owners"]:
            continue
        fi = byk.get(key)
        if fi is None:
            ctx.bad(rule, f"contract:{key}", "function named in the API census no longer exists (anchor moved or renamed)", key)
            n += 1
            continue
        probs = []
        now = defaults_of(fi)
        for p, d in ent.get("defaults", {}).items():
            if p in now and now[p] != d:
                probs.append(f"default of `{p}` is now {now[p]} (was {d})")
            elif p not in now and p in [a.arg for a in fi.node.args.posonlyargs + fi.node.args.args + fi.node.args.kwonlyargs]:
                probs.append(f"`{p}` lost its default {d}")
        nowk = kw_options_of(fi)
        for o, d in ent.get("kw_options", {}).items():
            if o not in nowk:
                probs.append(f"keyword option '{o}' (default {d}) is no longer read from the keyword arguments")
            elif nowk[o] != d:
                probs.append(f"default of keyword option '{o}' is now {nowk[o]} (was {d})")
        if "rebinds" in ent:
            nowr = rebinds_of(fi)
            for prm in sorted(set(nowr) | set(ent["rebinds"])):
                was, isn = set(ent["rebinds"].get(prm, [])), set(nowr.get(prm, []))
                for v in sorted(isn - was):
                    probs.append(f"parameter `{prm}` is now re-bound to `{v[:60]}` (the caller's value is rewritten before it is validated / used)")
        if "decorators" in ent and decorators_of(fi) != ent["decorators"]:
            probs.append(f"decorators are now {decorators_of(fi)} (were {ent['decorators']}): a caching / wrapping decorator changes what callers get")
        cur = refusals_of(fi)
        for r in ent.get("refusals", []):
            msg = check_refusal(fi, r, cur)
            if msg:
                probs.append(msg)
        n += 1
        ctx.check(not probs, rule, f"contract:{key}", f"{len(ent.get('defaults', {})) + len(ent.get('kw_options', {}))} default(s), {len(ent.get('refusals', []))} refusal(s) as confirmed",
                  "; ".join(probs[:3]), fi.where)
    if n < floor:
        ctx.bad(rule, "contract:coverage", f"only {n} functions of the API census belong to {prop}", "sa/contract.json")


# overrides of analysed methods that were read and need no rule of their own (reason each)
OVERRIDE_OK = {
    ("BinningBase.as_fixed_width", "FixedWidthBinning.as_fixed_width"): "returns itself (or its copy)",
    ("BinningBase.is_regular", "FixedWidthBinning.is_regular"): "a fixed-width grid is regular by construction",
    ("BinningBase.is_regular", "ExponentialBinning.is_regular"): "geometric bins are never regular",
    ("HistogramBase.__init__", "Histogram2D.__init__"): "fixes dimension=2 and delegates",
    ("HistogramND.__init__", "Histogram2D.__init__"): "fixes dimension=2 and delegates",
}


def check_overrides(ctx, rule: str):
    """The rules of a property decide specific method implementations. A subclass that replaces one of them with code no
    rule of this property looked at is outside what was decided: it is reported, to be read and either given rules or
    listed in OVERRIDE_OK with a reason."""
    m = ctx.model
    byq = {}
    for fi in m.all_funcs():
        byq.setdefault(fi.qualname, fi)
    seen = set(ctx.analysed_functions)
    known = set((load() or {}).get("analysed", []))
    for q in sorted(seen):
        fi = byq.get(q)
        if fi is None or fi.cls is None:
            continue
        for sub in m.subclasses(fi.cls):
            if fi.name in sub.methods or fi.name in sub.getters:
                sq = f"{sub.name}.{fi.name}"
                if sq in seen or sq in known or (q, sq) in OVERRIDE_OK:
                    continue
                over = sub.methods.get(fi.name) or sub.getters.get(fi.name)
                ctx.bad(rule, f"override:{sq}", f"{sq} replaces {q}, which the rules of this property analyse, with an implementation "
                        "none of them covers (a second implementation must satisfy the same clauses: read it, then add rules or a reasoned exception)",
                        over.where if over is not None else sub.where)
