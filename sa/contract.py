"""API contract census: option defaults and refusals of the anchored functions.

The table `sa/contract.json` was generated (tools/gen_contract.py) from the tree on which every property was confirmed
and is committed; the check never writes it.  For every function a property is anchored in it records

* the default of every optional parameter (changing a default changes what every caller gets who did not ask), and
* every refusal: the exception type and the guard under which it is raised, in a canonical form (operands of
  commutative operators sorted, `>`/`>=` turned into `<`/`<=`, a leading `not` folded into the decision, locals
  alpha-normalised by sa/canon.py).

Rule: each recorded default is still the default, and for each recorded refusal every structural path on which the
guard takes the recorded decision still ends in a raise of that exception type.  New parameters, new refusals, reworded
messages, reformatting and renamed locals are not reported; a guard that is split, merged or rewritten is (the entry is
then re-confirmed by reading and the table regenerated).
"""
from __future__ import annotations

import ast
import json
from pathlib import Path
from typing import Dict, List

from .model import unparse as U

TABLE = Path(__file__).resolve().parent / "contract.json"

# properties that own a function no anchor range names (by module)
MODULE_OWNER = {
    "_construction": ["C17"], "_facade": ["C17"], "binnings": ["C07"], "_bin_utils": ["C07"], "histogram_base": ["C18"],
    "histogram1d": ["C18"], "histogram_nd": ["C18"], "special_histograms": ["C15"], "statistics": ["C14"],
    "histogram_collection": ["C18"], "io": ["C08"], "io.json": ["C08"], "io.util": ["C08"], "io.version": ["C08"], "_util": ["C08"],
    "config": ["C19"], "compat.pandas": ["C17"], "compat.polars": ["C17"], "compat.dask": ["C17"], "compat.xarray": ["C17"],
    "compat.geant4": ["C17"], "plotting": ["C20"], "plotting.common": ["C20"], "plotting.matplotlib": ["C20"],
    "plotting.plotly": ["C20"], "plotting.ascii": ["C20"],
}
SKIP_MODULES = ("examples", "testing", "testing.strategies", "helpers.db", "plotting.vega", "plotting.folium", "typing_aliases", "version")


def func_key(fi) -> str:
    k = fi.qualname
    if getattr(fi, "kind", "") == "setter" or any(U(d).endswith(".setter") for d in fi.node.decorator_list):
        k += ".setter"
    if fi.name == "_":
        a = fi.node.args
        first = (a.posonlyargs + a.args)[:1]
        ann = U(first[0].annotation) if first and first[0].annotation is not None else ""
        reg = [U(d) for d in fi.node.decorator_list]
        k = f"{k}#{ann}#{reg[0] if reg else ''}"
    return k


def canon(e: ast.AST) -> str:
    """Canonical text of a condition (see module docstring)."""
    if isinstance(e, ast.BoolOp):
        op = " and " if isinstance(e.op, ast.And) else " or "
        return "(" + op.join(sorted(canon(v) for v in e.values)) + ")"
    if isinstance(e, ast.UnaryOp) and isinstance(e.op, ast.Not):
        return "not " + canon(e.operand)
    if isinstance(e, ast.Compare) and len(e.ops) == 1:
        a, b, op = U(e.left), U(e.comparators[0]), e.ops[0]
        if isinstance(op, (ast.Eq, ast.NotEq)):
            a, b = sorted((a, b))
            return f"{a} {'==' if isinstance(op, ast.Eq) else '!='} {b}"
        if isinstance(op, ast.Gt):
            return f"{b} < {a}"
        if isinstance(op, ast.GtE):
            return f"{b} <= {a}"
    return U(e)


def exc_name(r: ast.Raise) -> str:
    if r.exc is None:
        return "<re-raise>"
    f = r.exc.func if isinstance(r.exc, ast.Call) else r.exc
    return U(f).split(".")[-1]


def defaults_of(fi) -> Dict[str, str]:
    a = fi.node.args
    out = {}
    pos = a.posonlyargs + a.args
    for p, d in zip(pos[len(pos) - len(a.defaults):], a.defaults):
        out[p.arg] = U(d)
    for p, d in zip(a.kwonlyargs, a.kw_defaults):
        if d is not None:
            out[p.arg] = U(d)
    return out


def refusals_of(fi) -> List[dict]:
    """One entry per Raise statement of the function (nested functions excluded)."""
    out = []

    def walk(stmts, guard, in_handler):
        for st in stmts:
            if isinstance(st, (ast.FunctionDef, ast.AsyncFunctionDef, ast.ClassDef)):
                continue
            if isinstance(st, ast.Raise):
                if in_handler is not None:
                    out.append(dict(kind="handler", exc=exc_name(st), handler=in_handler))
                elif guard is None:
                    out.append(dict(kind="plain", exc=exc_name(st)))
                else:
                    out.append(dict(kind="guard", exc=exc_name(st), guard=guard[0], decision=guard[1]))
            elif isinstance(st, ast.If):
                t, dec = st.test, True
                while isinstance(t, ast.UnaryOp) and isinstance(t.op, ast.Not):
                    t, dec = t.operand, not dec
                walk(st.body, (canon(t), dec), in_handler)
                walk(st.orelse, (canon(t), not dec), in_handler)
            elif isinstance(st, (ast.For, ast.While, ast.With)):
                walk(st.body, guard, in_handler)
                walk(getattr(st, "orelse", []), guard, in_handler)
            elif isinstance(st, ast.Try):
                walk(st.body, guard, in_handler)
                for h in st.handlers:
                    walk(h.body, guard, U(h.type) if h.type is not None else "<bare>")
                walk(st.orelse, guard, in_handler)
                walk(st.finalbody, guard, in_handler)
    walk(fi.node.body, None, None)
    # de-duplicate identical entries (same guard raising twice)
    seen, uniq = set(), []
    for r in out:
        k = json.dumps(r, sort_keys=True)
        if k not in seen:
            seen.add(k)
            uniq.append(r)
    return uniq


def _ifs(fi):
    out = []

    def walk(stmts):
        for st in stmts:
            if isinstance(st, (ast.FunctionDef, ast.AsyncFunctionDef, ast.ClassDef)):
                continue
            if isinstance(st, ast.If):
                out.append(st)
            for f in ("body", "orelse", "finalbody"):
                walk(getattr(st, f, []) or [])
            for h in getattr(st, "handlers", []) or []:
                walk(h.body)
    walk(fi.node.body)
    return out


def _must_raise(stmts) -> bool:
    """Every way through the statement list ends in a raise."""
    for st in stmts:
        if isinstance(st, ast.Raise):
            return True
        if isinstance(st, ast.If) and st.orelse and _must_raise(st.body) and _must_raise(st.orelse):
            return True
        if isinstance(st, ast.With) and _must_raise(st.body):
            return True
        if isinstance(st, (ast.Return, ast.Continue, ast.Break)):
            return False
    return False


def _raises_in(stmts):
    return [n for st in stmts for n in ast.walk(st) if isinstance(n, ast.Raise)]


def check_refusal(fi, entry) -> str:
    """'' when the refusal still holds, otherwise what happened to it."""
    if entry["kind"] in ("plain", "handler"):
        now = refusals_of(fi)
        if any(r["kind"] == entry["kind"] and r["exc"] == entry["exc"] and r.get("handler") == entry.get("handler") for r in now):
            return ""
        return f"the {'handler ' + entry['handler'] if entry['kind'] == 'handler' else 'unconditional'} `raise {entry['exc']}` is gone"
    seen = False
    for node in _ifs(fi):
        t, dec = node.test, True
        while isinstance(t, ast.UnaryOp) and isinstance(t.op, ast.Not):
            t, dec = t.operand, not dec
        if canon(t) != entry["guard"]:
            continue
        seen = True
        branch = node.body if dec == entry["decision"] else node.orelse
        if branch and any(exc_name(r) == entry["exc"] for r in _raises_in(branch)):
            # the branch still leads to the refusal: directly, or through nested guards that were recorded on their own
            direct = [st for st in branch if isinstance(st, ast.Raise)]
            if direct or any(isinstance(st, (ast.If, ast.With, ast.For, ast.Try)) for st in branch):
                if not direct or _must_raise(branch):
                    return ""
    if not seen:
        return f"no guard `{entry['guard']}` any more (refusal with {entry['exc']} removed or its condition changed)"
    return (f"when `{entry['guard']}` is {entry['decision']} the function no longer raises {entry['exc']} "
            "(the raise was removed, moved to the other branch, or statements now run on after it)")


def load():
    if not TABLE.exists():
        return None
    return json.loads(TABLE.read_text())


def check(ctx, prop: str, rule: str, floor: int = 1):
    """Compare the functions owned by `prop` with the committed table."""
    from .model import AnalysisError
    tab = load()
    if tab is None:
        raise AnalysisError("sa/contract.json is missing")
    byk = {}
    for fi in ctx.model.all_funcs():
        byk.setdefault(func_key(fi), fi)
    n = 0
    for key, ent in sorted(tab["functions"].items()):
        if prop not in ent["owners"]:
            continue
        fi = byk.get(key)
        if fi is None:
            ctx.bad(rule, f"contract:{key}", "function named in the API census no longer exists (anchor moved or renamed)", key)
            n += 1
            continue
        probs = []
        now = defaults_of(fi)
        for p, d in ent.get("defaults", {}).items():
            if p in now and now[p] != d:
                probs.append(f"default of `{p}` is now {now[p]} (was {d})")
            elif p not in now and p in [a.arg for a in fi.node.args.posonlyargs + fi.node.args.args + fi.node.args.kwonlyargs]:
                probs.append(f"`{p}` lost its default {d}")
        for r in ent.get("refusals", []):
            msg = check_refusal(fi, r)
            if msg:
                probs.append(msg)
        n += 1
        ctx.check(not probs, rule, f"contract:{key}", f"{len(ent.get('defaults', {}))} default(s), {len(ent.get('refusals', []))} refusal(s) as confirmed",
                  "; ".join(probs[:3]), fi.where)
    if n < floor:
        ctx.bad(rule, "contract:coverage", f"only {n} functions of the API census belong to {prop}", "sa/contract.json")
