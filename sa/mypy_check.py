#!/venv/bin/python
"""Cross-check of sa/model.py's method resolution against mypy (used as a library; oracle for receiver types only).

For every call `recv.method(...)` in physt whose receiver mypy types as an instance (or the type object) of a physt
class, the class that defines `method` according to mypy's MRO must be the class sa/model.py resolves it to.
Prints one line `MYPY-CROSSCHECK {json}`.  No mypy diagnostic is used as a verdict.
"""
import json
import os
import sys
import time
from pathlib import Path

VERIF = Path(__file__).resolve().parent.parent
sys.path.insert(0, str(VERIF))


def main():
    t0 = time.time()
    try:
        from mypy import build
        from mypy.find_sources import create_source_list
        from mypy.nodes import CallExpr, MemberExpr, MypyFile, Node
        from mypy.options import Options
        from mypy.types import CallableType, Instance, TypeType, get_proper_type
    except Exception as exc:  # noqa
        print("MYPY-CROSSCHECK " + json.dumps(dict(skipped=f"mypy not importable: {exc}")))
        return
    from sa.model import Model

    model = Model()
    os.chdir("/repo/src")
    opts = Options()
    opts.preserve_asts = True
    opts.export_types = True
    opts.incremental = False
    opts.cache_dir = os.devnull
    opts.follow_imports = "skip"
    opts.ignore_missing_imports = True
    opts.show_traceback = False
    try:
        sources = create_source_list(["physt"], opts)
        result = build.build(sources=sources, options=opts)
    except Exception as exc:  # noqa
        print("MYPY-CROSSCHECK " + json.dumps(dict(skipped=f"mypy build failed: {type(exc).__name__}: {exc}")))
        return
    checked = agree = 0
    unresolved_model = 0
    disagreements = []
    samples = []
    seen = set()

    def walk(node):
        if id(node) in seen:
            return
        seen.add(id(node))
        yield node
        for name in dir(type(node)):
            if name.startswith("_"):
                continue
            try:
                v = getattr(node, name)
            except Exception:  # noqa
                continue
            if isinstance(v, Node):
                yield from walk(v)
            elif isinstance(v, (list, tuple)):
                for x in v:
                    if isinstance(x, Node):
                        yield from walk(x)
                    elif isinstance(x, (list, tuple)):
                        for y in x:
                            if isinstance(y, Node):
                                yield from walk(y)

    for modname, state in result.graph.items():
        if not modname.startswith("physt") or state.tree is None:
            continue
        tree: MypyFile = state.tree
        for node in walk(tree):
            if not (isinstance(node, CallExpr) and isinstance(node.callee, MemberExpr)):
                continue
            recv = node.callee.expr
            name = node.callee.name
            t = result.types.get(recv)
            if t is None:
                continue
            t = get_proper_type(t)
            info = None
            if isinstance(t, Instance):
                info = t.type
            elif isinstance(t, TypeType) and isinstance(get_proper_type(t.item), Instance):
                info = get_proper_type(t.item).type
            elif isinstance(t, CallableType) and t.is_type_obj():
                info = t.type_object()
            if info is None or not info.fullname.startswith("physt."):
                continue
            sym = info.get(name)
            if sym is None or sym.node is None:
                continue
            defining = None
            for base in info.mro:
                if name in base.names:
                    defining = base
                    break
            if defining is None or not defining.fullname.startswith("physt."):
                continue
            cname = info.name
            if cname not in model.classes:
                continue
            c = model.classes[cname]
            r = model.resolve_method(c, name) or model.resolve_getter(c, name)
            checked += 1
            if r is None:
                if model.resolve_attr(c, name) is not None or name in ("register",):
                    checked -= 1
                    continue
                unresolved_model += 1
                disagreements.append(f"{modname}:{node.line} {cname}.{name}: mypy -> {defining.name}, model -> unresolved")
                continue
            if r[0].name == defining.name:
                agree += 1
                if len(samples) < 8:
                    samples.append(f"{modname}:{node.line} {cname}.{name} -> {defining.name}")
            else:
                disagreements.append(f"{modname}:{node.line} {cname}.{name}: mypy -> {defining.name}, model -> {r[0].name}")
    # MRO comparison for every physt class mypy knows
    mro_checked = mro_agree = 0
    for modname, state in result.graph.items():
        if not modname.startswith("physt") or state.tree is None:
            continue
        for sname, sym in state.tree.names.items():
            from mypy.nodes import TypeInfo
            if isinstance(sym.node, TypeInfo) and sym.node.fullname.startswith(modname + ".") and sname in model.classes:
                mine = [k.name for k in model.mro(model.classes[sname])]
                theirs = [b.name for b in sym.node.mro if b.fullname.startswith("physt.")]
                mro_checked += 1
                if mine == theirs:
                    mro_agree += 1
                else:
                    disagreements.append(f"MRO of {sname}: mypy {theirs} vs model {mine}")
    print("MYPY-CROSSCHECK " + json.dumps(dict(member_calls_checked=checked, agree=agree, mro_checked=mro_checked, mro_agree=mro_agree,
                                               disagreements=disagreements[:10], samples=samples, wall_s=round(time.time() - t0, 1))))
    sys.stdout.flush()
    os._exit(0)


if __name__ == "__main__":
    main()
