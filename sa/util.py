"""Small analysis helpers shared by the rule modules (all purely syntactic / dataflow)."""
from __future__ import annotations

import ast
from typing import Dict, Iterable, Iterator, List, Optional, Tuple

from .model import ClassInfo, FuncInfo, Model, Module, unparse, walk_no_nested
from .paths import Path


def U(node) -> str:
    return unparse(node) if isinstance(node, ast.AST) else str(node)


def names_in(node: ast.AST) -> set:
    return {n.id for n in ast.walk(node) if isinstance(n, ast.Name)}


def attr_chain(node: ast.AST) -> Optional[List[str]]:
    """['self', '_missed'] for self._missed ; None if not a pure Name/Attribute chain."""
    parts = []
    while isinstance(node, ast.Attribute):
        parts.append(node.attr)
        node = node.value
    if isinstance(node, ast.Name):
        parts.append(node.id)
        return list(reversed(parts))
    return None


def strip_subscripts(node: ast.AST) -> ast.AST:
    while isinstance(node, ast.Subscript):
        node = node.value
    return node


class Write:
    """One store effect of a statement: root name, attribute path, how."""

    def __init__(self, stmt, target, root, attrs, how, value):
        self.stmt, self.target, self.root, self.attrs, self.how, self.value = stmt, target, root, attrs, how, value

    @property
    def attr(self) -> Optional[str]:
        return self.attrs[0] if self.attrs else None

    def __repr__(self):
        return f"Write({self.root}.{'.'.join(self.attrs)} {self.how} :: {U(self.stmt)[:60]})"


INPLACE_METHODS = {"sort", "fill", "resize", "put", "itemset", "append", "extend", "update", "pop", "clear",
                   "insert", "remove", "setdefault", "popitem", "reverse", "partition", "setfield", "byteswap"}


def writes_of(stmt: ast.AST) -> List[Write]:
    """Store effects of one simple statement on `name.attr...` / `name[...]` targets (not plain locals)."""
    out: List[Write] = []

    def add(target, how, value):
        base = strip_subscripts(target)
        sub = base is not target
        chain = attr_chain(base)
        if chain is None:
            return
        if len(chain) == 1 and not sub:
            return  # plain local rebinding
        out.append(Write(stmt, target, chain[0], chain[1:], how + ("-subscript" if sub else ""), value))

    if isinstance(stmt, ast.Assign):
        for t in stmt.targets:
            if isinstance(t, (ast.Tuple, ast.List)):
                for e in t.elts:
                    add(e, "store", stmt.value)
            else:
                add(t, "store", stmt.value)
    elif isinstance(stmt, ast.AugAssign):
        add(stmt.target, "aug", stmt.value)
    elif isinstance(stmt, ast.AnnAssign) and stmt.value is not None:
        add(stmt.target, "store", stmt.value)
    elif isinstance(stmt, ast.Delete):
        for t in stmt.targets:
            add(t, "del", None)
    for n in walk_no_nested(stmt):
        if isinstance(n, ast.Call) and isinstance(n.func, ast.Attribute) and n.func.attr in INPLACE_METHODS:
            chain = attr_chain(strip_subscripts(n.func.value))
            if chain and len(chain) >= 2:
                out.append(Write(stmt, n.func.value, chain[0], chain[1:], "method:" + n.func.attr, n))
        if isinstance(n, ast.Call) and U(n.func) == "setattr" and len(n.args) >= 3:
            chain = attr_chain(n.args[0])
            if chain:
                out.append(Write(stmt, n, chain[0], chain[1:] + [U(n.args[1])], "setattr", n.args[2]))
    return out


class Env:
    """Reaching definitions of locals along one path (last assignment wins)."""

    def __init__(self):
        self.defs: Dict[str, ast.AST] = {}

    def copy(self) -> "Env":
        e = Env()
        e.defs = dict(self.defs)
        return e

    def assign_target(self, target: ast.AST, value: ast.AST) -> None:
        if isinstance(target, ast.Name):
            self.defs[target.id] = value
        elif isinstance(target, (ast.Tuple, ast.List)):
            if isinstance(value, (ast.Tuple, ast.List)) and len(value.elts) == len(target.elts):
                for t, v in zip(target.elts, value.elts):
                    self.assign_target(t, v)
            else:
                for i, t in enumerate(target.elts):
                    self.assign_target(t, TupleItem(value, i))

    def step(self, step) -> None:
        kind = step[0]
        if kind == "stmt":
            s = step[1]
            if isinstance(s, ast.Assign):
                for t in s.targets:
                    self.assign_target(t, s.value)
            elif isinstance(s, ast.AnnAssign) and s.value is not None:
                self.assign_target(s.target, s.value)
            elif isinstance(s, ast.AugAssign) and isinstance(s.target, ast.Name):
                old = self.defs.get(s.target.id, ast.Name(id=s.target.id, ctx=ast.Load()))
                self.defs[s.target.id] = ast.BinOp(left=old, op=s.op, right=s.value)
            for n in walk_no_nested(s) if not isinstance(s, (ast.FunctionDef, ast.ClassDef)) else []:
                if isinstance(n, ast.NamedExpr) and isinstance(n.target, ast.Name):
                    self.defs[n.target.id] = n.value
        elif kind == "for":
            s = step[1]
            if step[2] and isinstance(s, (ast.For, ast.AsyncFor)):
                self.assign_target(s.target, IterItem(s.iter))
        elif kind == "with":
            for item in step[1].items:
                if item.optional_vars is not None:
                    self.assign_target(item.optional_vars, item.context_expr)

    def resolve(self, node: ast.AST, depth: int = 6) -> ast.AST:
        """Replace a Name by its reaching definition (one level per call, repeated up to depth)."""
        while depth > 0 and isinstance(node, ast.Name) and node.id in self.defs:
            node = self.defs[node.id]
            depth -= 1
        return node

    def expand(self, node: ast.AST, depth: int = 6, keep=()) -> ast.AST:
        """Deep substitution of locals by their definitions (bounded; names in `keep` and
        self-referential re-definitions such as `axis = f(axis)` are left as names)."""
        env = self

        class T(ast.NodeTransformer):
            def __init__(self, d, stack):
                self.d = d
                self.stack = stack

            def visit_Name(self, n):
                if (isinstance(n.ctx, ast.Load) and n.id in env.defs and self.d > 0
                        and n.id not in keep and n.id not in self.stack):
                    v = env.defs[n.id]
                    if isinstance(v, (TupleItem, IterItem)):
                        return n
                    if n.id in {x.id for x in ast.walk(v) if isinstance(x, ast.Name)}:
                        return n
                    return T(self.d - 1, self.stack | {n.id}).visit(_clone(v))
                return n

            def visit_Lambda(self, n):
                return n

        return T(depth, frozenset()).visit(_clone(node))


class TupleItem(ast.AST):
    """i-th component of unpacking `value`."""
    _fields = ("value",)

    def __init__(self, value, index):
        self.value, self.index = value, index


class IterItem(ast.AST):
    """an element of iterating `value`."""
    _fields = ("value",)

    def __init__(self, value):
        self.value = value


def _clone(node):
    import copy
    return copy.deepcopy(node)


def envs_along(path: Path) -> Iterator[Tuple[int, tuple, Env]]:
    """Yield (index, step, env-before-step) along a path."""
    env = Env()
    for i, step in enumerate(path):
        yield i, step, env
        env.step(step)


def find_calls(node: ast.AST, pred) -> List[ast.Call]:
    return [n for n in walk_no_nested(node) if isinstance(n, ast.Call) and pred(n)]


def call_is(call: ast.Call, *names: str) -> bool:
    """callee text equals one of names, or ends with '.'+name."""
    t = U(call.func)
    return any(t == n or t.endswith("." + n) for n in names)


def const_value(node):
    if isinstance(node, ast.Constant):
        return node.value
    if isinstance(node, ast.UnaryOp) and isinstance(node.op, ast.USub) and isinstance(node.operand, ast.Constant):
        return -node.operand.value
    return None


def func_key(fi: FuncInfo) -> str:
    return fi.qualname


def is_config_flag(model: Model, module: Module, node: ast.AST) -> bool:
    """node is `<config>.free_arithmetics` with <config> resolving to physt.config.config."""
    if not (isinstance(node, ast.Attribute) and node.attr == "free_arithmetics"):
        return False
    v = node.value
    if isinstance(v, ast.Name):
        if v.id in module.imports:
            mod, attr = module.imports[v.id]
            return mod == "physt.config" and attr == "config"
        return module.name == "physt.config" and v.id == "config"
    return U(v).endswith("config.config")


def cond_mentions_flag(model, module, expr) -> bool:
    return any(is_config_flag(model, module, n) for n in ast.walk(expr))
