"""E5 - writer / reader schema extraction for dict-based (JSON) serialisation."""
from __future__ import annotations

import ast
from typing import Dict, List, Optional, Set, Tuple

from .model import ClassInfo, FuncInfo, Model, calls_in, unparse as U
from .paths import function_paths, end_kind
from .util import Env, const_value


def written_keys(fi: FuncInfo, dict_names: Set[str]) -> Dict[str, dict]:
    """Keys stored into the dict variable(s) by fi: key -> {paths_with, paths_total, values:set(text)}."""
    out: Dict[str, dict] = {}
    paths = [p for p in function_paths(fi.node) if end_kind(p) != "raise"]
    for p in paths:
        seen = {}
        for step in p:
            if step[0] != "stmt":
                continue
            st = step[1]
            if isinstance(st, (ast.Assign, ast.AnnAssign)):
                targets = st.targets if isinstance(st, ast.Assign) else [st.target]
                val = st.value
                for t in targets:
                    if isinstance(t, ast.Subscript) and U(t.value) in dict_names and const_value(t.slice) is not None:
                        seen[const_value(t.slice)] = U(val)
                    if isinstance(t, ast.Name) and t.id in dict_names and isinstance(val, ast.Dict):
                        for k, v in zip(val.keys, val.values):
                            if k is not None and const_value(k) is not None:
                                seen[const_value(k)] = U(v)
            if isinstance(st, ast.Return) and isinstance(st.value, ast.Dict):
                for k, v in zip(st.value.keys, st.value.values):
                    if k is not None and const_value(k) is not None:
                        seen[const_value(k)] = U(v)
        for k, v in seen.items():
            d = out.setdefault(k, dict(paths_with=0, values=set()))
            d["paths_with"] += 1
            d["values"].add(v)
    for d in out.values():
        d["paths_total"] = len(paths)
    return out


class KwargsFlow:
    """Abstract evaluation of a `_kwargs_from_dict`-style reader: kwargs key -> provenance."""

    def __init__(self, model: Model):
        self.m = model

    def run(self, fi: FuncInfo, cls: ClassInfo, src: str = "a_dict") -> Dict[str, dict]:
        """Returns {kwargs_key: {"from": source key or expr, "cond": condition text or None, "how": ...}} joined over paths
        plus the pseudo key "**" when a whole sub-dict is merged in."""
        result: Dict[str, dict] = {}
        for path in function_paths(fi.node):
            if end_kind(path) != "return":
                continue
            state: Dict[str, dict] = {}
            var = None
            local: Dict[str, dict] = {}
            condstack = [U(s[1]) + ("" if s[2] else " [false]") for s in path if s[0] == "cond"]
            for step in path:
                if step[0] != "stmt":
                    continue
                st = step[1]
                if isinstance(st, (ast.Assign, ast.AnnAssign)):
                    targets = st.targets if isinstance(st, ast.Assign) else [st.target]
                    val = st.value
                    for t in targets:
                        if isinstance(t, ast.Name) and isinstance(val, ast.Dict):
                            var = t.id
                            state = {}
                            for k, v in zip(val.keys, val.values):
                                if k is not None and const_value(k) is not None:
                                    state[const_value(k)] = self._prov(v, src, state, local)
                        elif isinstance(t, ast.Name) and isinstance(val, ast.Call) and self._is_super_reader(val, fi):
                            var = t.id
                            parent = self._super_reader(val, fi, cls)
                            if parent is not None:
                                state = {k: dict(v) for k, v in self.run(parent, cls, src).items()}
                        elif isinstance(t, ast.Name) and var is not None:
                            local[t.id] = self._prov(val, src, state, local, var)
                        elif isinstance(t, ast.Subscript) and var is not None and U(t.value) == var and const_value(t.slice) is not None:
                            state[const_value(t.slice)] = self._prov(val, src, state, local, var)
                        elif isinstance(t, ast.Tuple) and var is not None:
                            prov = self._prov(val, src, state, local, var)
                            for i, e in enumerate(t.elts):
                                if isinstance(e, ast.Subscript) and U(e.value) == var and const_value(e.slice) is not None:
                                    state[const_value(e.slice)] = dict(prov, how=prov.get("how", "") + f"[{i}/{len(t.elts)}]")
                elif isinstance(st, ast.Expr) and isinstance(st.value, ast.Call):
                    c = st.value
                    if isinstance(c.func, ast.Attribute) and var is not None and U(c.func.value) == var:
                        if c.func.attr == "update" and c.args:
                            p = self._prov(c.args[0], src, state, local, var)
                            state["**"] = p
                        elif c.func.attr == "pop" and c.args and const_value(c.args[0]) is not None:
                            state.pop(const_value(c.args[0]), None)
            for k, v in state.items():
                cur = result.get(k)
                v = dict(v)
                v.setdefault("conds", [c for c in condstack if src in c and (f"'{v.get('from')}'" in c)])
                if cur is None:
                    result[k] = v
        return result

    def _prov(self, v, src, state, local, var=None) -> dict:
        # a_dict["k"] / a_dict.get("k") / kwargs.pop("k")[0] / local name
        how = ""
        node = v
        while True:
            if isinstance(node, ast.Subscript) and U(node.value) not in (src, var):
                how = f"[{U(node.slice)}]" + how
                node = node.value
                continue
            break
        if isinstance(node, ast.Subscript) and U(node.value) == src and const_value(node.slice) is not None:
            return {"from": const_value(node.slice), "how": how}
        if isinstance(node, ast.Call) and isinstance(node.func, ast.Attribute):
            if U(node.func.value) == src and node.func.attr == "get" and node.args and const_value(node.args[0]) is not None:
                return {"from": const_value(node.args[0]), "how": how}
            if var is not None and U(node.func.value) == var and node.func.attr == "pop" and node.args and const_value(node.args[0]) is not None:
                k = const_value(node.args[0])
                p = dict(state.pop(k, {"from": None}))
                p["how"] = p.get("how", "") + how
                return p
        if isinstance(node, ast.Name) and node.id in local:
            p = dict(local[node.id])
            p["how"] = p.get("how", "") + how
            return p
        if isinstance(node, ast.Subscript) and var is not None and U(node.value) == var and const_value(node.slice) in state:
            p = dict(state[const_value(node.slice)])
            p["how"] = p.get("how", "") + how
            return p
        # derived from a source key somewhere inside (e.g. np.dtype(a_dict["dtype"]), list comprehension)
        for n in ast.walk(v):
            if isinstance(n, ast.Subscript) and U(n.value) == src and const_value(n.slice) is not None:
                return {"from": const_value(n.slice), "how": "derived:" + U(v)[:50]}
        return {"from": None, "how": "expr:" + U(v)[:50]}

    def _is_super_reader(self, call: ast.Call, fi: FuncInfo) -> bool:
        f = call.func
        return isinstance(f, ast.Attribute) and f.attr == fi.name and (
            (isinstance(f.value, ast.Call) and U(f.value.func) == "super") or (isinstance(f.value, ast.Name) and f.value.id in self.m.classes))

    def _super_reader(self, call, fi, cls) -> Optional[FuncInfo]:
        f = call.func
        if isinstance(f.value, ast.Name) and f.value.id in self.m.classes:
            r = self.m.resolve_method(self.m.classes[f.value.id], f.attr)
            return r[1] if r else None
        r = self.m.resolve_method(cls, f.attr, after=fi.cls)
        return r[1] if r else None


def init_landing(model: Model, cls: ClassInfo, key: str, depth: int = 0, start: Optional[ClassInfo] = None):
    """Where a keyword argument `key` given to cls(...) ends up: ('param', class, name) | ('sink', class, '**kw') |
    ('consumed', class, how) | ('error', ...)."""
    r = model.resolve_method(cls, "__init__", after=start) if start is not None else model.resolve_method(cls, "__init__")
    if r is None:
        return ("error", None, "no __init__")
    k, init = r
    a = init.node.args
    named = [x.arg for x in a.posonlyargs + a.args + a.kwonlyargs if x.arg != "self"]
    if key in named:
        return ("param", k, key)
    if a.kwarg is None:
        return ("error", k, f"unexpected keyword {key}")
    kw = a.kwarg.arg
    # popped inside?
    for c in calls_in(init.node):
        if isinstance(c.func, ast.Attribute) and U(c.func.value) == kw and c.func.attr in ("pop", "get") and c.args and const_value(c.args[0]) == key:
            return ("consumed", k, U(c))
    # forwarded to a parent __init__ with **kw ?
    for c in calls_in(init.node):
        f = c.func
        if isinstance(f, ast.Attribute) and f.attr == "__init__" and any(x.arg is None and U(x.value) == kw for x in c.keywords):
            if isinstance(f.value, ast.Call) and U(f.value.func) in ("super",) or (isinstance(f.value, ast.Call) and U(f.value.func) == "super"):
                return init_landing(model, cls, key, depth + 1, start=k)
            if isinstance(f.value, ast.Call):  # super(Klass, self)
                return init_landing(model, cls, key, depth + 1, start=k)
            if isinstance(f.value, ast.Name) and f.value.id in model.classes:
                parent = model.classes[f.value.id]
                mro = model.mro(cls)
                before = mro[mro.index(parent) - 1] if parent in mro and mro.index(parent) > 0 else None
                return init_landing(model, cls, key, depth + 1, start=before)
    return ("sink", k, "**" + kw)
