"""E3 - ownership / freshness analysis.

Abstract interpretation of one function along each structural path.  Every
expression evaluates to an `AV`:

* `aliases`: the set of storage tokens the value may share memory / identity
  with.  Tokens: ``self`` (the receiver object itself), ``self._frequencies``
  (a component of it), ``self._binnings[*]`` (the binning objects in its list),
  ``other`` / ``other._missed`` ... for parameters.  The empty set means FRESH.
* `comps` (for histogram-like objects created in the function): component name
  -> alias set of what is currently stored there.

Views (basic subscripts, ``.T``, ``np.asarray`` ...) keep the aliases of their
base; copies / arithmetic / reductions / allocations are fresh; constructors of
histogram classes store their ``binning(s)`` / ``frequencies`` / ``errors2``
arguments by reference (``as_binning(copy=False)``, ``np.asarray``), which is
exactly how physt's ``HistogramBase.__init__`` behaves - that summary is itself
re-derived from the constructor's source on every run (see `ctor_summary`).
Self-method calls are inlined (bounded depth) with their arguments' abstract
values, so flows such as projection -> _reduce_dimension -> klass(binning=...)
are followed.
"""
from __future__ import annotations

import ast
from typing import Dict, FrozenSet, List, Optional, Tuple

from .model import AnalysisError, ClassInfo, FuncInfo, Model, unparse as U
from .paths import function_paths, end_kind
from .util import TupleItem, IterItem

E: FrozenSet[str] = frozenset()

# attribute name -> component it reads (property getters of the histogram classes)
COMP_OF = {
    "frequencies": "_frequencies", "errors2": "_errors2", "binnings": "_binnings",
    "meta_data": "_meta_data", "binning": "_binnings[*]", "_binning": "_binnings[*]",
    "histograms": "histograms",
}
MUTABLE_COMPS = ["_binnings", "_binnings[*]", "_frequencies", "_errors2", "_missed", "_meta_data"]
IMMUTABLE_ATTRS = {
    "dtype", "_dtype", "shape", "ndim", "name", "title", "axis_names", "axis_name", "keep_missed", "total",
    "missed", "bin_count", "adaptive", "statistics", "_stats", "bins", "numpy_bins", "edges", "bin_left_edges",
    "bin_right_edges", "bin_centers", "bin_widths", "bin_sizes", "radius", "underflow", "overflow", "inner_missed",
    "size", "includes_right_edge", "first_edge", "last_edge", "bin_width", "densities", "errors",
    "cumulative_frequencies", "default_axis_names", "min_edge", "max_edge", "total_width", "total_size",
    "__class__", "start", "stop", "step",
}
FRESH_FUNCS = {
    "np.copy", "np.array", "np.zeros", "np.zeros_like", "np.ones", "np.ones_like", "np.empty", "np.empty_like",
    "np.cumsum", "np.concatenate", "np.hstack", "np.vstack", "np.stack", "np.sqrt", "np.abs", "abs", "float", "int",
    "str", "bool", "len", "sum", "min", "max", "dict", "set", "np.dtype", "np.prod", "np.sum", "np.meshgrid",
    "np.arange", "np.linspace", "np.outer", "np.multiply.outer", "np.diff", "np.isnan", "np.any", "np.all",
    "np.searchsorted", "np.argsort", "np.percentile", "np.histogramdd", "np.ix_", "range", "enumerate", "zip",
    "dataclasses.replace", "Statistics", "isinstance", "hasattr", "np.isscalar", "np.promote_types", "np.can_cast",
    "np.issubdtype", "np.allclose", "np.array_equal", "type", "np.iinfo", "np.finfo", "np.floor", "np.ceil",
    "np.log10", "np.log2", "np.log", "np.power", "np.hypot", "np.arctan2", "np.cos", "np.sin", "np.median",
    "np.min", "np.max", "np.empty", "np.ndarray", "np.nextafter", "np.isfinite", "np.iterable", "callable",
    "getattr", "repr", "format", "warnings.warn", "json.dumps", "json.loads", "print", "np.rint", "np.round",
}
FRESH_METHODS = {
    "copy", "astype", "tolist", "sum", "cumsum", "flatten", "item", "mean", "std", "min", "max", "any", "all",
    "round", "get", "keys", "values", "items", "index", "count", "format", "join", "split", "strip", "startswith",
    "endswith", "to_dict", "to_json", "apply_bin_map", "adapt", "force_bin_existence", "is_adaptive", "is_regular",
    "is_consecutive", "nonzero", "argmax", "argmin", "dot", "conj", "clip", "cumprod", "prod", "var", "total",
    "find_bin", "_get_axis", "_get_projection_axes", "has_same_bins", "_eval_dtype", "mean", "variance",
    "union", "pop", "popitem", "to_numpy", "fill", "fill_n", "set_dtype", "_coerce_dtype", "set_adaptive",
    "_reshape_data", "_change_binning", "_apply_bin_map", "update", "append", "extend", "sort", "normalize_all_",
    "get_bin_left_edges", "get_bin_right_edges", "get_bin_widths", "get_bin_centers", "get_bin_edges", "__new__",
}
VIEW_FUNCS = {"np.asarray", "np.atleast_1d", "np.atleast_2d", "np.ascontiguousarray", "np.transpose", "cast",
              "np.broadcast_to", "np.squeeze", "np.ravel", "iter", "np.asanyarray"}
VIEW_METHODS = {"view", "reshape", "ravel", "squeeze", "transpose", "swapaxes", "__array__"}
CONTAINER_FUNCS = {"list", "tuple", "reversed", "sorted"}
MUTATORS = {"fill", "fill_n", "set_dtype", "_coerce_dtype", "set_adaptive", "_change_binning", "_reshape_data",
            "merge_bins", "normalize", "partial_normalize", "normalize_bins", "normalize_all", "__iadd__", "__isub__",
            "__imul__", "__itruediv__", "force_bin_existence", "_force_bin_existence", "adapt", "_adapt",
            "_set_min_and_count", "_force_new_min_max", "add", "create"}


class AV:
    __slots__ = ("aliases", "comps", "kind", "note")

    def __init__(self, aliases=E, comps: Optional[Dict[str, FrozenSet[str]]] = None, kind="val", note=""):
        self.aliases = frozenset(aliases)
        self.comps = comps
        self.kind = kind
        self.note = note

    def copy(self):
        return AV(self.aliases, dict(self.comps) if self.comps is not None else None, self.kind, self.note)

    def __repr__(self):
        return f"AV({sorted(self.aliases)}, {self.kind}, comps={self.comps})"


def fresh_hist(note="") -> AV:
    return AV(E, {c: E for c in MUTABLE_COMPS}, "hist", note)


def join(vals: List[AV]) -> AV:
    vals = [v for v in vals if v is not None]
    if not vals:
        return AV()
    if len(vals) == 1:
        return vals[0]
    aliases = frozenset().union(*[v.aliases for v in vals])
    if any(v.comps is not None for v in vals):
        comps: Dict[str, FrozenSet[str]] = {}
        for v in vals:
            if v.comps is not None:
                for c, s in v.comps.items():
                    comps[c] = comps.get(c, E) | s
        return AV(aliases, comps, "hist")
    return AV(aliases)


def _comp_tokens(av: AV, comp: str) -> FrozenSet[str]:
    """What reading component `comp` of value `av` may alias."""
    out = set()
    if av.comps is not None:
        out |= av.comps.get(comp, E)
    for t in av.aliases:
        if "." not in t and "[" not in t:  # an object identity token
            out.add(f"{t}.{comp}")
        elif t.endswith("histograms[*]"):
            out.add(f"{t}.{comp}")
    return frozenset(out)


class Interp:
    def __init__(self, model: Model, hist_classes=None, max_depth: int = 4):
        self.m = model
        self.max_depth = max_depth
        self.hist_class_names = {c.name for c in model.subclasses(model.cls("HistogramBase"), strict=False)}
        self.collection = "HistogramCollection"
        self.trace: List[str] = []
        self.identity_ok = {"select"}
        self.on_mutate = None  # callback(call_or_stmt, receiver AV, method name, cur function)

    # -- function level -------------------------------------------------------------------
    def run_function(self, fi: FuncInfo, cls: Optional[ClassInfo], args: Dict[str, AV], assume: Dict[str, bool],
                     depth: int = 0, on_return=None, on_store=None) -> AV:
        """Join of the abstract return values over all feasible paths."""
        rets = []
        for path in function_paths(fi.node):
            env: Dict[str, AV] = dict(args)
            feasible = True
            for step in path:
                kind = step[0]
                if kind == "cond":
                    v = self.truth(step[1], env, assume)
                    if v is not None and v != step[2]:
                        feasible = False
                        break
                    self.refine(step[1], step[2], env)
                elif kind == "stmt":
                    self.exec_stmt(step[1], env, fi, cls, assume, depth, on_store)
                elif kind == "for" and step[2]:
                    node = step[1]
                    if isinstance(node, (ast.For, ast.AsyncFor)):
                        itv = self.ev(node.iter, env, fi, cls, assume, depth)
                        self.bind(node.target, self.element_of(itv), env)
                elif kind == "with":
                    for it in step[1].items:
                        if it.optional_vars is not None:
                            self.bind(it.optional_vars, self.ev(it.context_expr, env, fi, cls, assume, depth), env)
            if not feasible:
                continue
            if end_kind(path) == "return":
                r = path[-1][2]
                val = self.ev(r.value, env, fi, cls, assume, depth) if r.value is not None else AV()
                if on_return is not None:
                    on_return(path, r, val, env)
                rets.append(val)
            elif end_kind(path) == "fall":
                rets.append(AV())
        return join(rets)

    def truth(self, expr, env, assume) -> Optional[bool]:
        t = U(expr)
        if t in assume:
            return assume[t]
        if isinstance(expr, ast.UnaryOp) and isinstance(expr.op, ast.Not):
            v = self.truth(expr.operand, env, assume)
            return None if v is None else not v
        if isinstance(expr, ast.BoolOp):
            vals = [self.truth(v, env, assume) for v in expr.values]
            if isinstance(expr.op, ast.And):
                if any(v is False for v in vals):
                    return False
                return True if all(v is True for v in vals) else None
            if any(v is True for v in vals):
                return True
            return False if all(v is False for v in vals) else None
        if isinstance(expr, ast.Compare) and len(expr.ops) == 1 and isinstance(expr.ops[0], (ast.Is, ast.IsNot)):
            l, r = expr.left, expr.comparators[0]
            if isinstance(l, ast.Name) and U(r) == "self" and l.id in env:
                av = env[l.id]
                if av.aliases == {"self"} and av.comps is None:
                    res = True
                elif "self" not in av.aliases:
                    res = False
                else:
                    return None
                return res if isinstance(expr.ops[0], ast.Is) else not res
        return None

    def refine(self, expr, decision, env):
        if isinstance(expr, ast.Compare) and len(expr.ops) == 1 and isinstance(expr.ops[0], (ast.Is, ast.IsNot)):
            l, r = expr.left, expr.comparators[0]
            if isinstance(l, ast.Name) and U(r) == "self" and l.id in env:
                same = decision if isinstance(expr.ops[0], ast.Is) else not decision
                av = env[l.id]
                if same:
                    env[l.id] = AV({"self"})
                else:
                    env[l.id] = AV(av.aliases - {"self"}, av.comps if av.comps is not None else None,
                                   "hist" if av.comps is not None else av.kind)

    # -- statements ------------------------------------------------------------------------
    def bind(self, target, val: AV, env):
        if isinstance(target, ast.Name):
            env[target.id] = val
        elif isinstance(target, (ast.Tuple, ast.List)):
            for t in target.elts:
                self.bind(t, AV(val.aliases), env)

    def element_of(self, container: AV) -> AV:
        toks = set()
        for t in container.aliases:
            if t.endswith("._binnings") or t.endswith(".histograms"):
                toks.add(t + "[*]")
            else:
                toks.add(t)
        if container.comps is not None and container.kind == "list":
            if "[*]c" in container.comps:
                return AV(toks | container.comps.get("[*]", E), container.comps["[*]c"], "hist", "element")
            return AV(toks | container.comps.get("[*]", E))
        return AV(toks)

    def exec_stmt(self, st, env, fi, cls, assume, depth, on_store):
        if isinstance(st, ast.Assign):
            val = self.ev(st.value, env, fi, cls, assume, depth)
            for t in st.targets:
                self.store(t, val, env, fi, cls, assume, depth, on_store, st)
        elif isinstance(st, ast.AnnAssign) and st.value is not None:
            val = self.ev(st.value, env, fi, cls, assume, depth)
            self.store(st.target, val, env, fi, cls, assume, depth, on_store, st)
        elif isinstance(st, ast.AugAssign):
            val = self.ev(st.value, env, fi, cls, assume, depth)
            tgt = st.target
            if isinstance(tgt, ast.Name):
                cur = env.get(tgt.id)
                if cur is not None and self.on_mutate is not None and any("." not in t and "[" not in t for t in cur.aliases):
                    self.on_mutate(st, cur, "augmented assignment", fi)
                if cur is not None and cur.comps is not None:
                    pass  # in-place operator on a histogram object: components stay what they were (rule C12.d)
                elif cur is not None:
                    env[tgt.id] = AV(cur.aliases)  # ndarray += : same buffer
            if on_store is not None:
                on_store(st, tgt, val, env, "aug")
        elif isinstance(st, ast.Expr):
            self.ev(st.value, env, fi, cls, assume, depth)
            # in-place method calls on a tracked object keep its components (verified by C12.d)

    def store(self, target, val: AV, env, fi, cls, assume, depth, on_store, st):
        if isinstance(target, ast.Name):
            env[target.id] = val
            return
        if isinstance(target, (ast.Tuple, ast.List)):
            for t in target.elts:
                self.store(t, AV(val.aliases), env, fi, cls, assume, depth, on_store, st)
            return
        if on_store is not None:
            on_store(st, target, val, env, "store")
        base = target
        sub = False
        while isinstance(base, ast.Subscript):
            base = base.value
            sub = True
        if isinstance(base, ast.Attribute) and isinstance(base.value, ast.Name) and base.value.id in env:
            obj = env[base.value.id]
            if obj.comps is not None:
                attr = base.attr
                comp = COMP_OF.get(attr, attr)
                contrib = val.aliases
                if val.comps is not None and val.kind == "list":
                    contrib = contrib | val.comps.get("[*]", E)
                if comp == "_binnings" and not sub:
                    obj.comps["_binnings"] = E if val.kind == "list" or not val.aliases else val.aliases
                    obj.comps["_binnings[*]"] = frozenset(self.element_of(val).aliases)
                elif comp == "_binnings" and sub:
                    obj.comps["_binnings[*]"] = obj.comps.get("_binnings[*]", E) | val.aliases
                elif comp == "_binnings[*]":
                    obj.comps["_binnings[*]"] = val.aliases
                elif sub:
                    obj.comps[comp] = obj.comps.get(comp, E)  # element store into own array
                else:
                    obj.comps[comp] = contrib

    # -- expressions -----------------------------------------------------------------------
    def ev(self, e, env, fi, cls, assume, depth) -> AV:
        if e is None or isinstance(e, ast.Constant):
            return AV()
        if isinstance(e, (TupleItem,)):
            return AV(self.ev(e.value, env, fi, cls, assume, depth).aliases)
        if isinstance(e, IterItem):
            return self.element_of(self.ev(e.value, env, fi, cls, assume, depth))
        if isinstance(e, ast.Name):
            if e.id in env:
                return env[e.id]
            return AV()
        if isinstance(e, ast.Attribute):
            return self.ev_attr(e, env, fi, cls, assume, depth)
        if isinstance(e, ast.Subscript):
            base = self.ev(e.value, env, fi, cls, assume, depth)
            # histogram[...] -> __getitem__ of the histogram class
            if self.is_hist_value(base) and cls is not None:
                r = self.call_method_on(base, "__getitem__", [self.ev(e.slice, env, fi, cls, assume, depth)], {}, cls, assume, depth)
                if r is not None:
                    return r
            toks = set()
            for t in base.aliases:
                if t.endswith("._binnings") or t.endswith(".histograms"):
                    toks.add(t + "[*]")  # element of the list
                elif t.endswith("_binnings[*]"):
                    pass  # binning[index]: BinningBase.__getitem__ returns a new binning / plain edges
                else:
                    toks.add(t)
            if base.kind == "list" and base.comps is not None:
                toks |= base.comps.get("[*]", E)
            return AV(toks)
        if isinstance(e, ast.BinOp):
            l = self.ev(e.left, env, fi, cls, assume, depth)
            r = self.ev(e.right, env, fi, cls, assume, depth)
            if self.is_hist_value(l) or self.is_hist_value(r):
                return fresh_hist("operator result")  # __add__/__mul__/... verified separately
            return AV()
        if isinstance(e, (ast.UnaryOp, ast.Compare, ast.JoinedStr, ast.Lambda, ast.Dict, ast.Set, ast.DictComp, ast.SetComp)):
            return AV()
        if isinstance(e, ast.BoolOp):
            return join([self.ev(v, env, fi, cls, assume, depth) for v in e.values])
        if isinstance(e, ast.IfExp):
            t = self.truth(e.test, env, assume)
            if t is True:
                return self.ev(e.body, env, fi, cls, assume, depth)
            if t is False:
                return self.ev(e.orelse, env, fi, cls, assume, depth)
            return join([self.ev(e.body, env, fi, cls, assume, depth), self.ev(e.orelse, env, fi, cls, assume, depth)])
        if isinstance(e, (ast.List, ast.Tuple)):
            items = [self.ev(x.value if isinstance(x, ast.Starred) else x, env, fi, cls, assume, depth) for x in e.elts]
            el = frozenset().union(*[i.aliases for i in items]) if items else E
            return AV(E, {"[*]": el}, "list")
        if isinstance(e, (ast.ListComp, ast.GeneratorExp)):
            env2 = dict(env)
            for g in e.generators:
                itv = self.ev(g.iter, env2, fi, cls, assume, depth)
                self.bind(g.target, self.element_of(itv), env2)
                if isinstance(g.iter, ast.Call) and U(g.iter.func) == "enumerate" and isinstance(g.target, ast.Tuple) \
                        and len(g.target.elts) == 2 and g.iter.args:
                    inner = self.ev(g.iter.args[0], env2, fi, cls, assume, depth)
                    self.bind(g.target.elts[1], self.element_of(inner), env2)
                    self.bind(g.target.elts[0], AV(), env2)
            el = self.ev(e.elt, env2, fi, cls, assume, depth)
            comps = {"[*]": el.aliases}
            if el.comps is not None and el.kind == "hist":
                comps["[*]c"] = el.comps  # shared summary of the elements' components
            return AV(E, comps, "list")
        if isinstance(e, ast.Starred):
            return self.ev(e.value, env, fi, cls, assume, depth)
        if isinstance(e, ast.Call):
            return self.ev_call(e, env, fi, cls, assume, depth)
        if isinstance(e, ast.NamedExpr):
            v = self.ev(e.value, env, fi, cls, assume, depth)
            self.bind(e.target, v, env)
            return v
        if isinstance(e, ast.Slice):
            return AV()
        return AV()

    def is_hist_value(self, av: AV) -> bool:
        if av.comps is not None and av.kind == "hist":
            return True
        return any(t == "self" for t in av.aliases) and self._self_is_hist

    _self_is_hist = True

    def ev_attr(self, e: ast.Attribute, env, fi, cls, assume, depth) -> AV:
        attr = e.attr
        base = self.ev(e.value, env, fi, cls, assume, depth)
        if attr in IMMUTABLE_ATTRS:
            return AV()
        if attr == "T":
            if self.is_hist_value(base) and cls is not None:
                r = self.call_method_on(base, "T", [], {}, cls, assume, depth, getter=True)
                if r is not None:
                    return r
            return AV(base.aliases)
        comp = COMP_OF.get(attr, attr)
        if base.comps is not None and base.kind == "hist" or any("." not in t and "[" not in t or t.endswith("histograms[*]") for t in base.aliases):
            return AV(_comp_tokens(base, comp))
        # attribute of a component value (binning.bins ...): immutable caches by C07.e
        return AV()

    def ev_call(self, c: ast.Call, env, fi, cls, assume, depth) -> AV:
        f = c.func
        ftxt = U(f)
        args = [self.ev(a.value if isinstance(a, ast.Starred) else a, env, fi, cls, assume, depth) for a in c.args]
        kws = {k.arg: self.ev(k.value, env, fi, cls, assume, depth) for k in c.keywords if k.arg}
        starkw = [self.ev(k.value, env, fi, cls, assume, depth) for k in c.keywords if k.arg is None]

        def allargs():
            return frozenset().union(*[a.aliases for a in args + list(kws.values()) + starkw]) if (args or kws or starkw) else E

        # constructors of histogram classes
        if self.is_ctor(f, env, fi, cls):
            return self.ctor(c, args, kws, env)
        if ftxt in ("HistogramCollection",) or ftxt.endswith(".HistogramCollection"):
            hs = frozenset().union(*[self.element_of(a).aliases if a.kind != "list" else a.comps.get("[*]", E)
                                     for a in args]) if args else E
            hs = hs | frozenset().union(*[a.aliases for a in args]) if args else hs
            for a in args:
                if a.kind == "list" and a.comps is not None and "[*]c" in a.comps:
                    for toks in a.comps["[*]c"].values():
                        hs = hs | toks
            return AV(E, {"histograms[*]": hs, "_binnings[*]": kws.get("binning", AV()).aliases}, "hist", "collection")
        if ftxt in FRESH_FUNCS:
            return AV()
        if ftxt in VIEW_FUNCS:
            src = args[-1] if ftxt == "cast" and len(args) == 2 else (args[0] if args else AV())
            return AV(src.aliases, src.comps, src.kind) if src.comps is not None else AV(src.aliases)
        if ftxt in CONTAINER_FUNCS and args:
            a = args[0]
            el = self.element_of(a).aliases if a.kind != "list" else a.comps.get("[*]", E)
            return AV(E, {"[*]": el}, "list")
        if ftxt == "as_binning" or ftxt.endswith(".as_binning"):
            cp = kws.get("copy")
            k = next((k for k in c.keywords if k.arg == "copy"), None)
            if k is not None and isinstance(k.value, ast.Constant) and k.value.value is True:
                return AV()
            return AV(args[0].aliases if args else E)
        if isinstance(f, ast.Attribute):
            recv = self.ev(f.value, env, fi, cls, assume, depth)
            name = f.attr
            # super().m(...) / Klass.m(self, ...)
            if isinstance(f.value, ast.Call) and U(f.value.func) == "super" and cls is not None and fi.cls is not None:
                r = self.m.resolve_method(cls, name, after=fi.cls)
                if r is not None and depth < self.max_depth:
                    return self.inline(r[1], cls, AV({"self"}), args, kws, c, assume, depth)
            if isinstance(f.value, ast.Name) and f.value.id in self.m.classes and args and cls is not None:
                k = self.m.classes[f.value.id]
                r = self.m.resolve_method(k, name)
                if r is not None and args[0].aliases == {"self"} and depth < self.max_depth:
                    return self.inline(r[1], cls, args[0], args[1:], kws, c, assume, depth, drop_first=True)
            if name == "__new__":
                return fresh_hist("__new__")
            if name == "copy":
                if self.is_hist_value(recv) or (recv.comps is not None and recv.kind == "hist") \
                        or any(t.endswith("histograms[*]") for t in recv.aliases):
                    if recv.note == "collection" or any(t.endswith("collection") for t in recv.aliases):
                        pass
                    return fresh_hist("copy()")
                return AV()
            if name in ("as_static", "as_fixed_width"):
                k = next((k for k in c.keywords if k.arg == "copy"), None)
                pos = c.args[0] if c.args else None
                flag = k.value if k is not None else pos
                if flag is not None and isinstance(flag, ast.Constant) and flag.value is False:
                    return AV(recv.aliases)
                return AV()
            if name in VIEW_METHODS:
                return AV(recv.aliases)
            if self.on_mutate is not None and name in MUTATORS:
                inplace_kw = next((k for k in c.keywords if k.arg == "inplace"), None)
                needs_flag = name in ("merge_bins", "normalize", "partial_normalize", "normalize_bins", "normalize_all")
                flagged = inplace_kw is not None and isinstance(inplace_kw.value, ast.Constant) and inplace_kw.value.value is True
                if not needs_flag or flagged:
                    self.on_mutate(c, recv, name, fi)
            if self.is_hist_value(recv) and cls is not None and depth < self.max_depth:
                r = self.call_method_on(recv, name, args, kws, cls, assume, depth, call=c)
                if r is not None:
                    return r
            if name in FRESH_METHODS:
                return AV()
            # unknown method: may return its receiver or arguments
            return AV(recv.aliases | allargs())
        if isinstance(f, ast.Name) and f.id in ("cls", "klass"):
            return self.ctor(c, args, kws, env)
        # unknown function: conservative
        return AV(allargs())

    def is_ctor(self, f, env, fi, cls) -> bool:
        t = U(f)
        if t in self.hist_class_names or t in ("self.__class__", "cls", "klass", "type(self)"):
            return True
        if isinstance(f, ast.Name) and f.id in env and env[f.id].note == "class":
            return True
        return False

    def ctor(self, c: ast.Call, args, kws, env) -> AV:
        """Summary of HistogramBase.__init__ & co: binnings / frequencies / errors2 stored by reference."""
        b = kws.get("binning") or kws.get("binnings") or (args[0] if args else None)
        fq = kws.get("frequencies") or (args[1] if len(args) > 1 else None)
        e2 = kws.get("errors2") or (args[2] if len(args) > 2 else None)
        comps = {cname: E for cname in MUTABLE_COMPS}
        if b is not None:
            if b.kind == "list" and b.comps is not None:
                comps["_binnings[*]"] = b.comps.get("[*]", E) | frozenset(self.element_of(b).aliases)
            else:
                comps["_binnings[*]"] = frozenset(self.element_of(b).aliases)
        if fq is not None:
            comps["_frequencies"] = fq.aliases
        if e2 is not None:
            comps["_errors2"] = e2.aliases
        return AV(E, comps, "hist", "ctor")

    def call_method_on(self, recv: AV, name, args, kws, cls, assume, depth, getter=False, call=None):
        """Inline a method of the analysed class hierarchy invoked on `recv`."""
        if depth >= self.max_depth:
            return None
        r = self.m.resolve_getter(cls, name) if getter else self.m.resolve_method(cls, name)
        if r is None:
            if not getter:
                g = self.m.resolve_getter(cls, name)
                if g is not None:
                    return None
            return None
        _, callee = r
        if name in ("fill", "fill_n", "set_dtype", "_coerce_dtype", "set_adaptive", "_reshape_data", "_change_binning",
                    "_apply_bin_map", "find_bin", "has_same_bins", "_get_axis", "_get_projection_axes", "to_dict",
                    "to_json", "_update_dict", "is_adaptive", "_eval_dtype", "_merge_meta_data"):
            return AV()
        return self.inline(callee, cls, recv, args, kws, call, assume, depth)

    def inline(self, callee: FuncInfo, cls, recv: AV, args, kws, call, assume, depth, drop_first=False) -> AV:
        params = callee.params()
        binding: Dict[str, AV] = {}
        names = [p for p in params if not p.startswith("*")]
        if names and names[0] in ("self", "cls"):
            binding[names[0]] = recv
            names = names[1:]
        posnames = [a.arg for a in callee.node.args.posonlyargs + callee.node.args.args]
        if posnames and posnames[0] in ("self", "cls"):
            posnames = posnames[1:]
        for pn, av in zip(posnames, args):
            binding[pn] = av
        extra = args[len(posnames):]
        va = callee.node.args.vararg
        if va is not None:
            el = frozenset().union(*[a.aliases for a in extra]) if extra else E
            binding[va.arg] = AV(E, {"[*]": el}, "list")
        kwa = callee.node.args.kwarg
        rest = {}
        for k, v in kws.items():
            if k in names:
                binding[k] = v
            else:
                rest[k] = v
        if kwa is not None:
            binding[kwa.arg] = AV(frozenset().union(*[v.aliases for v in rest.values()]) if rest else E)
        for n in names:
            binding.setdefault(n, AV())
        # map the callee's view: recv identity tokens must read as `self` inside
        recv_self = AV({"self"}) if recv.aliases == {"self"} and recv.comps is None else recv
        binding[[p for p in params if p in ("self", "cls")][0] if any(p in ("self", "cls") for p in params) else "self"] = recv_self
        sub_assume = {}
        node_defaults = {}
        for n in names:
            d = callee.param_default(n)
            if n not in [a.arg for a in callee.node.args.posonlyargs + callee.node.args.args][: len(args) + 1] and n not in kws:
                if isinstance(d, ast.Constant) and isinstance(d.value, bool):
                    sub_assume[n] = d.value
        if call is not None:
            for k in call.keywords:
                if k.arg and isinstance(k.value, ast.Constant) and isinstance(k.value.value, bool):
                    sub_assume[k.arg] = k.value.value
            for pn, a in zip(posnames, call.args):
                if isinstance(a, ast.Constant) and isinstance(a.value, bool):
                    sub_assume[pn] = a.value
        res = self.run_function(callee, cls, binding, sub_assume, depth + 1)
        if callee.name in self.identity_ok and "self" in res.aliases:
            # documented identity selection (select(axis, slice(None))): judged where it is defined
            res = AV(res.aliases - {"self"}, res.comps, "hist" if res.comps is not None else res.kind, res.note)
        return res


def describe(tokens) -> str:
    return ", ".join(sorted(tokens)) or "fresh"
