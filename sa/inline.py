"""Inlining of helper functions the reference tree does not have.

Extracting a few statements into a new private helper (function or method) and calling it is behaviour preserving, and
the rules - written against the functions of the pinned tree - would otherwise no longer see the statements they judge.
So before the structural normal form, every call of a *new* helper (a function whose qualified name the reference does
not list) defined in the same module is replaced by the helper's body:

  * `return h(args)`                      -> body as written (its returns are the caller's returns)
  * `t = h(args)` / `h(args)`             -> body with every `return e` rewritten to `t = e` (dropped for a bare call); only
                                             when all returns are in tail position (if/else trees, no return inside a loop,
                                             `with` or `try`)
  * `... h(args) ...` inside an expression -> only when the body is a single `return <expr>`

Parameters are replaced by the argument expressions when these are plain names / constants / attribute chains and the
helper does not re-bind the parameter; otherwise `param = arg` is emitted first (the temporaries pass may fold it later).
Helper locals that collide with names of the caller are renamed `<name>__h`.  A helper is removed once nothing refers
to it any more.  Anything else (generators, *args/**kwargs, recursion, decorators, nested definitions, globals) is
left alone: the rules then judge the code as written.
"""
from __future__ import annotations

import ast
import copy
from typing import Dict, List, Optional, Set


class NotInlinable(Exception):
    pass


def _ends(stmts) -> bool:
    if not stmts:
        return False
    last = stmts[-1]
    if isinstance(last, (ast.Return, ast.Raise)):
        return True
    if isinstance(last, ast.If):
        return bool(last.orelse) and _ends(last.body) and _ends(last.orelse)
    return False


def _body_of(fn):
    body = list(fn.body)
    if body and isinstance(body[0], ast.Expr) and isinstance(body[0].value, ast.Constant) and isinstance(body[0].value.value, str):
        body = body[1:]
    return [s for s in body if not isinstance(s, ast.Pass)] or []


def _simple(e) -> bool:
    if isinstance(e, ast.Constant):
        return True
    if isinstance(e, ast.Name):
        return True
    if isinstance(e, ast.Attribute):
        return _simple(e.value)
    if isinstance(e, ast.UnaryOp) and isinstance(e.operand, ast.Constant):
        return True
    return False


def _readonly_expr(e) -> bool:
    """reads only: attribute / item reads, operators, getters (`x.get_*()`, `x.is_*()`), value-returning methods, numpy free functions"""
    from .canon import _reads_only, _pure_builtin
    for n in ast.walk(e):
        if isinstance(n, ast.Call):
            getter = isinstance(n.func, ast.Attribute) and (n.func.attr.startswith("get_") or n.func.attr.startswith("is_"))
            if not (getter or _reads_only(n) or _pure_builtin(n)):
                return False
        if isinstance(n, (ast.Lambda, ast.Await, ast.Yield, ast.YieldFrom, ast.NamedExpr, ast.ListComp, ast.SetComp, ast.DictComp, ast.GeneratorExp, ast.Starred)):
            return False
    return True


def _names(node) -> Set[str]:
    out = set()
    for n in ast.walk(node):
        if isinstance(n, ast.Name):
            out.add(n.id)
        elif isinstance(n, ast.arg):
            out.add(n.arg)
    return out


def _stored(node) -> Set[str]:
    out = set()
    for n in ast.walk(node):
        if isinstance(n, ast.Name) and isinstance(n.ctx, (ast.Store, ast.Del)):
            out.add(n.id)
        if isinstance(n, ast.AugAssign) and isinstance(n.target, ast.Name):
            out.add(n.target.id)
    return out


class Helper:
    def __init__(self, fn, cls_name: Optional[str]):
        self.fn = fn
        self.cls = cls_name
        self.name = fn.name
        decos = [ast.unparse(d) for d in fn.decorator_list]
        self.kind = "static" if "staticmethod" in decos else "class" if "classmethod" in decos else ("method" if cls_name else "function")
        self.ok = set(decos) <= {"staticmethod", "classmethod"}
        a = fn.args
        if a.vararg or a.kwarg:
            self.ok = False
        for n in ast.walk(fn):
            if n is fn:
                continue
            if isinstance(n, (ast.Yield, ast.YieldFrom, ast.Await, ast.Global, ast.Nonlocal, ast.FunctionDef, ast.AsyncFunctionDef, ast.ClassDef, ast.Lambda)):
                self.ok = False
            if isinstance(n, ast.Name) and n.id == fn.name and cls_name is None:
                self.ok = False
            if isinstance(n, ast.Attribute) and n.attr == fn.name and cls_name is not None:
                self.ok = False
        self.body = _body_of(fn)
        self.params = [x.arg for x in a.posonlyargs + a.args + a.kwonlyargs]
        pos = a.posonlyargs + a.args
        self.defaults: Dict[str, ast.AST] = {}
        for p, d in zip(pos[len(pos) - len(a.defaults):], a.defaults):
            self.defaults[p.arg] = d
        for p, d in zip(a.kwonlyargs, a.kw_defaults):
            if d is not None:
                self.defaults[p.arg] = d
        self.n_positional = len(pos)
        self.expr = self.body[0].value if len(self.body) == 1 and isinstance(self.body[0], ast.Return) and self.body[0].value is not None else None
        self.locals = _stored(ast.Module(body=self.body, type_ignores=[])) - set(self.params)
        # comprehension variables are local to the comprehension, but must not capture names of substituted arguments
        self.comp_vars = set()
        for n in ast.walk(ast.Module(body=self.body, type_ignores=[])):
            if isinstance(n, ast.comprehension):
                self.comp_vars |= _stored(n.target)
        self.locals -= self.comp_vars - _stored_outside_comprehensions(self.body)


def _stored_outside_comprehensions(body) -> Set[str]:
    out = set()

    def visit(n):
        if isinstance(n, (ast.ListComp, ast.SetComp, ast.DictComp, ast.GeneratorExp)):
            return
        if isinstance(n, ast.Name) and isinstance(n.ctx, (ast.Store, ast.Del)):
            out.add(n.id)
        if isinstance(n, ast.AugAssign) and isinstance(n.target, ast.Name):
            out.add(n.target.id)
        for ch in ast.iter_child_nodes(n):
            visit(ch)
    for s in body:
        visit(s)
    return out


def _match_call(call, helpers: Dict[str, Helper], caller_cls: Optional[str]):
    """-> (helper, receiver expr or None) if `call` calls one of the new helpers"""
    if not isinstance(call, ast.Call):
        return None
    f = call.func
    if isinstance(f, ast.Name):
        h = helpers.get(f.id)
        if h is not None and h.cls is None:
            return h, None
    if isinstance(f, ast.Attribute) and isinstance(f.value, ast.Name):
        for h in helpers.values():
            if h.cls is None or h.name != f.attr:
                continue
            if f.value.id in ("self", "cls") and caller_cls == h.cls:
                return h, f.value
            if f.value.id == h.cls and h.kind in ("static", "class"):
                return h, f.value
    return None


class _Subst(ast.NodeTransformer):
    def __init__(self, mapping: Dict[str, ast.AST], rename: Dict[str, str]):
        self.mapping, self.rename = mapping, rename

    def visit_Name(self, node):
        if node.id in self.rename:
            return ast.copy_location(ast.Name(id=self.rename[node.id], ctx=node.ctx), node)
        if isinstance(node.ctx, ast.Load) and node.id in self.mapping:
            return copy.deepcopy(self.mapping[node.id])
        return node


def _bind(h: Helper, call: ast.Call, receiver, caller_names: Set[str], target_name: Optional[str], pure_args: bool = False):
    """-> (pre-assignments, substitution map, rename map)"""
    if any(isinstance(a, ast.Starred) for a in call.args) or any(k.arg is None for k in call.keywords):
        raise NotInlinable("star arguments")
    params = list(h.params)
    bound: Dict[str, ast.AST] = {}
    if h.kind in ("method", "class"):
        if not params or receiver is None:
            raise NotInlinable("no receiver")
        first = params.pop(0)
        if h.kind == "class" and receiver.id == "self":
            # `cls.X` reached through the instance finds the same class attribute; any other use of cls needs the class itself
            for n in ast.walk(ast.Module(body=h.body, type_ignores=[])):
                if isinstance(n, ast.Name) and n.id == first:
                    pass
            uses = sum(1 for n in ast.walk(ast.Module(body=h.body, type_ignores=[])) if isinstance(n, ast.Name) and n.id == first)
            attr_uses = sum(1 for n in ast.walk(ast.Module(body=h.body, type_ignores=[]))
                            if isinstance(n, ast.Attribute) and isinstance(n.value, ast.Name) and n.value.id == first)
            if uses != attr_uses:
                raise NotInlinable("cls used as a value")
        if h.kind == "method" and receiver.id != "self":
            raise NotInlinable("unbound method call")
        bound[first] = receiver
    n_pos = h.n_positional - (1 if h.kind in ("method", "class") else 0)
    if len(call.args) > n_pos:
        raise NotInlinable("too many positional arguments")
    for p, a in zip(params, call.args):
        bound[p] = a
    for k in call.keywords:
        if k.arg not in params or k.arg in bound:
            raise NotInlinable("bad keyword")
        bound[k.arg] = k.value
    for p in params:
        if p not in bound:
            if p not in h.defaults:
                raise NotInlinable("missing argument")
            bound[p] = h.defaults[p]
    stored_in_helper = _stored(ast.Module(body=h.body, type_ignores=[]))
    arg_names = set()
    for a in bound.values():
        arg_names |= _names(a)
    if arg_names & h.comp_vars:
        raise NotInlinable("argument would be captured by a comprehension variable")
    pre: List[ast.stmt] = []
    mapping: Dict[str, ast.AST] = {}
    rename: Dict[str, str] = {}
    body_mod = ast.Module(body=h.body, type_ignores=[])
    for p, a in bound.items():
        if _simple(a) and p not in stored_in_helper:
            if not (isinstance(a, ast.Name) and a.id == p):
                mapping[p] = a
            continue
        if pure_args and p not in stored_in_helper and _readonly_expr(a) \
                and sum(1 for n in ast.walk(body_mod) if isinstance(n, ast.Name) and n.id == p) == 1:
            # read exactly once by a single-expression helper, and only reads itself: where it is evaluated cannot matter
            mapping[p] = a
            continue
        new = p
        if p in caller_names and not (p == target_name):
            new = p + "__h"
            rename[p] = new
        if isinstance(a, ast.Name) and a.id == new:
            continue
        pre.append(ast.Assign(targets=[ast.Name(id=new, ctx=ast.Store())], value=copy.deepcopy(a)))
    for loc in sorted(h.locals):
        if loc in caller_names or loc in arg_names:
            if loc == target_name and loc not in arg_names:
                continue
            rename[loc] = loc + "__h"
    # a directly substituted argument is evaluated where the parameter is read: what it reads must not be re-bound by the helper
    for p, a in mapping.items():
        if _names(a) & {rename.get(x, x) for x in stored_in_helper}:
            raise NotInlinable("argument names re-bound by the helper")
    return pre, mapping, rename


def _tailify(stmts, mk):
    """Rewrite `return e` (all in tail position) through mk(e) -> [stmts]."""
    out = []
    for i, s in enumerate(stmts):
        if isinstance(s, ast.Return):
            out.extend(mk(s.value))
            return out
        has_ret = any(isinstance(n, ast.Return) for n in ast.walk(s))
        if not has_ret:
            out.append(s)
            continue
        if not isinstance(s, ast.If):
            raise NotInlinable("return inside a loop / with / try")
        rest = stmts[i + 1:]
        b_ends, o_ends = _ends(s.body), _ends(s.orelse)
        if rest and not b_ends and not o_ends:
            raise NotInlinable("continuation would be duplicated")
        nb = _tailify(list(s.body) + ([] if b_ends else copy.deepcopy(rest)), mk)
        no = _tailify(list(s.orelse) + ([] if o_ends else copy.deepcopy(rest)), mk)
        out.append(ast.If(test=s.test, body=nb or [ast.Pass()], orelse=no))
        return out
    if not _ends(out):
        out.extend(mk(None))
    return out


def _instantiate(h: Helper, call, receiver, caller_names, target_name):
    pre, mapping, rename = _bind(h, call, receiver, caller_names, target_name)
    body = [_Subst(mapping, rename).visit(copy.deepcopy(s)) for s in h.body]
    return pre, body


def _locate(stmts, at):
    for s in stmts:
        for n in ast.walk(s):
            if not hasattr(n, "lineno") or True:
                n.lineno = getattr(at, "lineno", 1)
                n.col_offset = getattr(at, "col_offset", 0)
                n.end_lineno = getattr(at, "end_lineno", n.lineno)
                n.end_col_offset = getattr(at, "end_col_offset", 0)
    return stmts


def _expose_helper_calls(fn, caller_cls, helpers) -> None:
    """Bring calls of multi-statement helpers that sit inside an expression into the `t = h(..)` form the inliner handles:
       * `x = [ .. h(..) .. for v in it]`      ->  `x = []` + `for v in it: x.append(.. h(..) ..)`
       * `S[ h(..) ]` where the call is the first thing the statement evaluates (only names / constants before it)
                                               ->  `h__k = h(..)` ; `S[ h__k ]`"""
    counter = [0]

    def is_multi(call):
        m = _match_call(call, helpers, caller_cls)
        return m is not None and m[0].expr is None and m[0].fn is not fn

    def first_effect_is(value, call):
        order = []

        def ev(node):
            if isinstance(node, (ast.Lambda, ast.ListComp, ast.SetComp, ast.DictComp, ast.GeneratorExp, ast.IfExp, ast.BoolOp)):
                order.append(node)
                return
            for ch in ast.iter_child_nodes(node):
                ev(ch)
            if isinstance(node, (ast.Call, ast.Attribute, ast.Subscript)):
                order.append(node)
        ev(value)
        inside = {id(n) for n in ast.walk(call)}
        for n in order:
            if n is call:
                return True
            if id(n) in inside:
                continue
            if isinstance(n, ast.Attribute) and isinstance(n.ctx, ast.Load) and isinstance(n.value, ast.Name):
                continue        # e.g. the bound method `x.append` looked up before its argument is evaluated
            return False
        return False

    def visit(block):
        i = 0
        while i < len(block):
            st = block[i]
            if isinstance(st, ast.Assign) and len(st.targets) == 1 and isinstance(st.targets[0], ast.Name) and isinstance(st.value, ast.ListComp) \
                    and len(st.value.generators) == 1 and not st.value.generators[0].is_async \
                    and any(isinstance(n, ast.Call) and is_multi(n) for n in ast.walk(st.value.elt)):
                g = st.value.generators[0]
                tname = st.targets[0].id
                if not any(isinstance(n, ast.Name) and n.id == tname for n in ast.walk(st.value)):
                    app = ast.Expr(value=ast.Call(func=ast.Attribute(value=ast.Name(id=tname, ctx=ast.Load()), attr="append", ctx=ast.Load()), args=[st.value.elt], keywords=[]))
                    body = [app]
                    for c in reversed(g.ifs):
                        body = [ast.If(test=c, body=body, orelse=[])]
                    loop = ast.For(target=g.target, iter=g.iter, body=body, orelse=[])
                    new = [ast.Assign(targets=[ast.Name(id=tname, ctx=ast.Store())], value=ast.List(elts=[], ctx=ast.Load())), loop]
                    block[i:i + 1] = _locate(new, st)
                    continue
            if isinstance(st, (ast.Assign, ast.AnnAssign, ast.Expr, ast.Return, ast.AugAssign)) and getattr(st, "value", None) is not None:
                top = st.value
                for n in ast.walk(top):
                    if isinstance(n, ast.Call) and n is not top and is_multi(n) and first_effect_is(top, n) and not isinstance(st, ast.AugAssign):
                        counter[0] += 1
                        tmp = f"{_match_call(n, helpers, caller_cls)[0].name.lstrip('_')}__r{counter[0]}"
                        pre = ast.Assign(targets=[ast.Name(id=tmp, ctx=ast.Store())], value=copy.deepcopy(n))

                        class R(ast.NodeTransformer):
                            def visit_Call(self, node):
                                if node is n:
                                    return ast.Name(id=tmp, ctx=ast.Load())
                                self.generic_visit(node)
                                return node
                        st.value = R().visit(st.value)
                        block[i:i] = _locate([pre], st)
                        break
            if not isinstance(st, (ast.FunctionDef, ast.AsyncFunctionDef, ast.ClassDef)):
                for field in ("body", "orelse", "finalbody"):
                    v = getattr(st, field, None)
                    if isinstance(v, list) and v and isinstance(v[0], ast.stmt):
                        visit(v)
                for hd in getattr(st, "handlers", []) or []:
                    visit(hd.body)
            i += 1
    visit(fn.body)
    ast.fix_missing_locations(fn)


def _inline_in_function(fn, caller_cls, helpers) -> int:
    done = 0
    _expose_helper_calls(fn, caller_cls, helpers)
    caller_names = _names(fn)

    def expr_inline(node):
        """substitute calls of single-expression helpers anywhere inside `node`"""
        nonlocal done

        class T(ast.NodeTransformer):
            def visit_Call(self, call):
                nonlocal done
                self.generic_visit(call)
                m = _match_call(call, helpers, caller_cls)
                if m is None or m[0].expr is None or m[0].fn is fn:
                    return call
                h, recv = m
                try:
                    pre, mapping, rename = _bind(h, call, recv, caller_names, None, pure_args=True)
                except NotInlinable:
                    return call
                if pre:
                    return call
                done += 1
                h.inlined = getattr(h, "inlined", 0) + 1
                e = _Subst(mapping, {k: v for k, v in rename.items() if k in h.comp_vars}).visit(copy.deepcopy(h.expr))
                return ast.copy_location(e, call)
        return T().visit(node)

    def visit(block):
        nonlocal done
        i = 0
        while i < len(block):
            st = block[i]
            call = target = None
            kind = None
            if isinstance(st, ast.Assign) and len(st.targets) == 1:
                call, target, kind = st.value, st.targets[0], "assign"
            elif isinstance(st, ast.AnnAssign) and st.value is not None:
                call, target, kind = st.value, st.target, "assign"
            elif isinstance(st, ast.Expr):
                call, kind = st.value, "expr"
            elif isinstance(st, ast.Return) and st.value is not None:
                call, kind = st.value, "return"
            m = _match_call(call, helpers, caller_cls) if call is not None else None
            if m is not None and m[0].fn is not fn and m[0].expr is None:
                h, recv = m
                try:
                    # arguments may themselves call expression helpers
                    tname = target.id if isinstance(target, ast.Name) else None
                    pre, body = _instantiate(h, call, recv, caller_names, tname)
                    if kind == "return":
                        new = body if _ends(body) else body + [ast.Return(value=ast.Constant(value=None))]
                    elif kind == "assign":
                        def mk(e, target=target):
                            e = e if e is not None else ast.Constant(value=None)
                            if isinstance(target, ast.Name) and isinstance(e, ast.Name) and e.id == target.id:
                                return []
                            return [ast.Assign(targets=[copy.deepcopy(target)], value=e)]
                        new = _tailify(body, mk)
                    else:
                        new = _tailify(body, lambda e: [] if e is None or isinstance(e, (ast.Constant, ast.Name)) else [ast.Expr(value=e)])
                    new = _locate(pre + new, st) or [ast.Pass()]
                    block[i:i + 1] = new
                    caller_names.update(_names(ast.Module(body=new, type_ignores=[])))
                    done += 1
                    h.inlined = getattr(h, "inlined", 0) + 1
                    continue      # look at the spliced statements too (helpers calling helpers)
                except NotInlinable:
                    pass
            # nested statement blocks first, then expression helpers in what this statement evaluates itself
            if not isinstance(st, (ast.FunctionDef, ast.AsyncFunctionDef, ast.ClassDef)):
                for field in ("body", "orelse", "finalbody"):
                    v = getattr(st, field, None)
                    if isinstance(v, list) and v and isinstance(v[0], ast.stmt):
                        visit(v)
                for hd in getattr(st, "handlers", []) or []:
                    visit(hd.body)
                for field, v in list(ast.iter_fields(st)):
                    if field in ("body", "orelse", "finalbody", "handlers"):
                        continue
                    if isinstance(v, ast.AST):
                        setattr(st, field, expr_inline(v))
                    elif isinstance(v, list):
                        setattr(st, field, [expr_inline(x) if isinstance(x, ast.AST) else x for x in v])
            i += 1
    visit(fn.body)
    return done


def inline_new_helpers(tree, known: Set[str]) -> int:
    """`known`: qualified names (`f`, `Class.method`) of the functions the reference version of this module has."""
    total = 0
    for _ in range(3):
        helpers: Dict[str, Helper] = {}
        owners = []     # (function node, class name or None)
        seen_names: Dict[str, int] = {}
        for node in tree.body:
            if isinstance(node, (ast.FunctionDef, ast.AsyncFunctionDef)):
                owners.append((node, None, tree.body))
                seen_names[node.name] = seen_names.get(node.name, 0) + 1
            elif isinstance(node, ast.ClassDef):
                for sub in node.body:
                    if isinstance(sub, (ast.FunctionDef, ast.AsyncFunctionDef)):
                        owners.append((sub, node.name, node.body))
                        q = f"{node.name}.{sub.name}"
                        seen_names[q] = seen_names.get(q, 0) + 1
        for fn, cls, _holder in owners:
            q = f"{cls}.{fn.name}" if cls else fn.name
            if q in known or seen_names[q] != 1 or isinstance(fn, ast.AsyncFunctionDef):
                continue
            if fn.name.startswith("__") and fn.name.endswith("__"):
                continue        # special methods are called by the interpreter, not by name: never a helper
            h = Helper(fn, cls)
            if h.ok and h.body:
                # a method name also defined by another class of the module could be reached by `self.<name>` of a subclass
                helpers[q] = h
        helpers = {h.name if h.cls is None else q: h for q, h in helpers.items()}
        if not helpers:
            break
        round_done = 0
        for fn, cls, _holder in owners:
            round_done += _inline_in_function(fn, cls, helpers)
        total += round_done
        # helpers nothing refers to any more disappear
        for q, h in helpers.items():
            refs = 0
            for n in ast.walk(tree):
                if isinstance(n, ast.Name) and n.id == h.name and h.cls is None:
                    refs += 1
                if isinstance(n, ast.Attribute) and n.attr == h.name and h.cls is not None:
                    refs += 1
                if isinstance(n, ast.Constant) and n.value == h.name:
                    refs += 1       # __all__, getattr(..., "name")
            if refs == 0 and getattr(h, "inlined", 0) > 0:
                # (a new function nothing here calls stays: it may be called from elsewhere, and the rules should see it)
                for fn, cls, holder in owners:
                    if fn is h.fn:
                        holder.remove(fn)
        if not round_done:
            break
    if total:
        ast.fix_missing_locations(tree)
    return total
