"""Thorough-tier extras (filled in below): layout independence + selftest mutants."""
def run(prop, ctx):
    return {}
