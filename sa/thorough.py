"""Thorough tier: the quick rules plus checks *of the checker* on scratch copies.

1. layout / naming independence - the property's rules are re-run on three behaviour-preserving twins of the
   current tree (ast.unparse round trip, `pass` padding, all locals renamed); the set of (rule, instance, verdict)
   must be identical to the run on the real tree, otherwise the analysis is unreliable (exit 2, never a VIOLATION);
2. detection power - every breaking variant that lists this property (independent seeded changes, inverses of the
   `fix:` commits, hand-written mutants) is applied to a scratch copy and must make this property's check exit 1;
   a miss on the pinned tree is an analysis error, on a modified tree (patch may not apply) it is only recorded;
3. resolution cross-check - the class table / MRO / method resolution of sa/model.py is compared with mypy's
   (the repository's own mypy, used as a library, follow_imports=skip) for every member call in the anchored
   modules whose receiver mypy types as a physt class; disagreement is an analysis error.

All scratch data live under a temporary directory outside /repo and /verif and are removed.
"""
from __future__ import annotations

import hashlib
import json
import os
import shutil
import subprocess
import sys
import tempfile
from concurrent.futures import ThreadPoolExecutor
from pathlib import Path

from .model import AnalysisError

VERIF = Path(__file__).resolve().parent.parent
SRC = Path("/repo/src/physt")


def tree_digest(root: Path) -> str:
    h = hashlib.sha1()
    for p in sorted(root.rglob("*.py")):
        h.update(str(p.relative_to(root)).encode())
        h.update(p.read_bytes())
    return h.hexdigest()


def _results_on(prop: str, src: Path):
    r = subprocess.run(["/venv/bin/python", str(VERIF / "check.py"), prop, "--src", str(src), "--no-evidence", "--json"],
                       capture_output=True, text=True, cwd=VERIF)
    if r.returncode == 2:
        return None, r.stdout[-300:]
    try:
        start = r.stdout.index("[")
        dec = json.JSONDecoder()
        data, _ = dec.raw_decode(r.stdout[start:])
    except Exception as exc:  # noqa
        return None, f"unparsable output: {exc}"
    return {(d["rule"], d["key"], d["verdict"]) for d in data}, ""


def run(prop: str, ctx) -> dict:
    from . import selftest_impl
    from .twins import make_twin

    out = {}
    base = {(r["rule"], r["key"], r["verdict"]) for r in ctx.results}
    tmp = Path(tempfile.mkdtemp(prefix="physt-thorough-"))
    try:
        twins = {}
        for kind in ("unparse", "pad", "rename", "kwshuffle", "ifswap", "nodoc", "swapassign"):
            d = tmp / kind / "src" / "physt"
            d.parent.mkdir(parents=True)
            make_twin(SRC, d, kind)
            res, err = _results_on(prop, d)
            if res is None:
                raise AnalysisError(f"thorough: rules cannot analyse the {kind} twin of the current tree: {err}")
            diff = sorted(res ^ base)
            twins[kind] = dict(instances=len(res), identical=not diff, differences=[list(x) for x in diff[:5]])
            if diff:
                raise AnalysisError(f"thorough: verdicts differ on the behaviour-preserving {kind} twin "
                                    f"(layout / naming dependence of the checker): {diff[:3]}")
        out["twins"] = twins
    finally:
        shutil.rmtree(tmp, ignore_errors=True)

    exp_file = VERIF / "selftest" / "expectations.json"
    pinned = None
    if exp_file.exists():
        pinned = json.loads(exp_file.read_text()).get("_base_digest")
    on_pinned = pinned is not None and pinned == tree_digest(SRC)
    variants = [v for v in selftest_impl.breaking_variants() if prop in v["expect"]]
    selftest_impl.BASE[prop] = (0, [r["key"] for r in ctx.violations()], "")
    with ThreadPoolExecutor(min(16, max(1, len(variants)))) as ex:
        res = list(ex.map(lambda v: selftest_impl.run_breaking(v, [prop]), variants))
    st = dict(variants=len(res), detected=sum(r["status"] in ("detected", "detected-anyway") for r in res),
              missed=[r["name"] for r in res if r["status"] == "MISSED"],
              not_applicable=[r["name"] for r in res if r["status"] == "not-applicable"],
              declared_undetectable=[r["name"] for r in res if r["status"] == "declared-undetectable"],
              tree_is_pinned=on_pinned,
              samples=[dict(variant=r["name"], fired=r.get("results", {}).get(prop, {}).get("instances", [])[:2]) for r in res[:6]])
    out["selftest"] = st
    if st["missed"] and on_pinned:
        raise AnalysisError(f"thorough: breaking variants not detected by {prop} on the pinned tree: {st['missed']}")

    if os.environ.get("PHYST_VERIF_NO_MYPY") != "1":
        out["mypy_crosscheck"] = mypy_crosscheck(prop)
    return out


def mypy_crosscheck(prop: str) -> dict:
    """Run sa/mypy_check.py in a subprocess (mypy teardown is slow; the child uses os._exit)."""
    script = VERIF / "sa" / "mypy_check.py"
    if not script.exists():
        return dict(skipped="mypy cross-check not built")
    try:
        r = subprocess.run(["/venv/bin/python", str(script)], capture_output=True, text=True, timeout=300, cwd="/repo")
    except subprocess.TimeoutExpired:
        return dict(skipped="mypy timed out")
    line = [l for l in r.stdout.splitlines() if l.startswith("MYPY-CROSSCHECK ")]
    if not line:
        return dict(skipped="mypy unavailable or failed: " + (r.stderr or r.stdout)[-200:])
    d = json.loads(line[-1][len("MYPY-CROSSCHECK "):])
    if d.get("disagreements"):
        raise AnalysisError(f"thorough: sa/model.py and mypy disagree on method resolution: {d['disagreements'][:3]}")
    return d
