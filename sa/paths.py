"""E1 - path enumeration over the statement structure of one function.

physt's functions are small and use structured control flow only, so instead
of a CFG + dominator computation every rule gets the *set of all structural
paths* through a function: loops are taken 0 and 1 times (optionally 2), every
`if` both ways, `try` bodies normally and through each handler.  A path is a
list of steps:

  ("stmt", node)          a simple statement executed
  ("cond", expr, bool)    a branch decision (if / while / assert / conditional handled by caller)
  ("for", node, bool)     loop entered (True: one iteration begins) or skipped/finished (False)
  ("with", node)          context manager entered
  ("except", handler)     exception handler entered
  ("end", kind, node)     how the path leaves the function: return / raise / fall

Dominance-style obligations ("every write of X is preceded by a true branch on
Y") become universally quantified statements over these paths, which is
path-sensitive for free.  Conditions are not checked for feasibility; rules
that need it prune contradictory decision sets themselves (see `consistent`).
"""
from __future__ import annotations

import ast
from typing import Iterator, List, Tuple

from .model import AnalysisError, unparse

Step = tuple
Path = List[Step]

MAX_PATHS = 60000


class _Limit(Exception):
    pass


def _seq(stmts: List[ast.stmt], loops: int) -> Iterator[Tuple[Path, str]]:
    """Yield (steps, outcome) for a statement list; outcome in fall/return/raise/break/continue."""
    if not stmts:
        yield [], "fall"
        return
    head, rest = stmts[0], stmts[1:]
    for steps, out in _stmt(head, loops):
        if out != "fall":
            yield steps, out
        else:
            for steps2, out2 in _seq(rest, loops):
                yield steps + steps2, out2


def _norm(test: ast.expr, decision: bool):
    """Conditions are reported without leading `not`: (`not X`, True) is (X, False)."""
    while isinstance(test, ast.UnaryOp) and isinstance(test.op, ast.Not):
        test, decision = test.operand, not decision
    return ("cond", test, decision)


def _decisions(test: ast.expr, want: bool):
    """All short-circuit ways in which `test` evaluates to `want`, each as a list of atomic ("cond", atom, decision) steps.
    `if a and b:` taken is [a True, b True]; not taken is [a False] or [a True, b False] - exactly the decisions of the
    nested form `if a: if b:`, so merged and nested conditions give the same paths. A compound test is additionally
    preceded by a ("cond", test, want) step for the test as a whole (rules may look at either)."""
    while isinstance(test, ast.UnaryOp) and isinstance(test.op, ast.Not):
        test, want = test.operand, not want
    if isinstance(test, ast.BoolOp):
        conj = isinstance(test.op, ast.And)
        if want == conj:            # all operands take the value `want`
            alts = [[]]
            for v in test.values:
                alts = [a + b for a in alts for b in _decisions(v, want)]
            return alts
        out = []                    # the first operand that decides, all earlier ones having the other value
        for i, v in enumerate(test.values):
            pre = [[]]
            for u in test.values[:i]:
                pre = [a + b for a in pre for b in _decisions(u, not want)]
            out += [a + b for a in pre for b in _decisions(v, want)]
        return out
    return [[("cond", test, want)]]


def _branch(test: ast.expr, want: bool):
    while isinstance(test, ast.UnaryOp) and isinstance(test.op, ast.Not):
        test, want = test.operand, not want
    compound = isinstance(test, ast.BoolOp)
    for d in _decisions(test, want):
        yield ([("cond", test, want)] if compound else []) + d


def _stmt(s: ast.stmt, loops: int) -> Iterator[Tuple[Path, str]]:
    if isinstance(s, ast.If):
        for steps, out in _seq(s.body, loops):
            for pre in _branch(s.test, True):
                yield pre + steps, out
        for steps, out in _seq(s.orelse, loops):
            for pre in _branch(s.test, False):
                yield pre + steps, out
    elif isinstance(s, (ast.For, ast.AsyncFor)):
        yield from _loop(s, loops, is_for=True)
    elif isinstance(s, ast.While):
        yield from _loop(s, loops, is_for=False)
    elif isinstance(s, (ast.With, ast.AsyncWith)):
        for steps, out in _seq(s.body, loops):
            yield [("with", s)] + steps, out
    elif isinstance(s, ast.Try):
        yield from _try(s, loops)
    elif isinstance(s, ast.Return):
        yield [("stmt", s), ("end", "return", s)], "return"
    elif isinstance(s, ast.Raise):
        yield [("stmt", s), ("end", "raise", s)], "raise"
    elif isinstance(s, ast.Break):
        yield [], "break"
    elif isinstance(s, ast.Continue):
        yield [], "continue"
    elif isinstance(s, ast.Assert):
        yield [_norm(s.test, True)], "fall"
        yield [_norm(s.test, False), ("end", "raise", s)], "raise"
    elif isinstance(s, (ast.FunctionDef, ast.AsyncFunctionDef, ast.ClassDef)):
        yield [("stmt", s)], "fall"
    else:
        yield [("stmt", s)], "fall"


def _loop(s, loops: int, is_for: bool) -> Iterator[Tuple[Path, str]]:
    def enter(flag):
        return ("for", s, flag) if is_for else _norm(s.test, flag)

    # zero iterations
    for steps, out in _seq(s.orelse, loops):
        yield [enter(False)] + steps, out

    def iterate(n, prefix):
        for steps, out in _seq(s.body, loops):
            cur = prefix + [enter(True)] + steps
            if out in ("return", "raise"):
                yield cur, out
            elif out == "break":
                yield cur, "fall"
            else:  # fall / continue
                if n > 1:
                    yield from iterate(n - 1, cur)
                for steps2, out2 in _seq(s.orelse, loops):
                    yield cur + [enter(False)] + steps2, out2

    yield from iterate(loops, [])


def _try(s: ast.Try, loops: int) -> Iterator[Tuple[Path, str]]:
    def fin(steps, out):
        if not s.finalbody:
            yield steps, out
            return
        for fsteps, fout in _seq(s.finalbody, loops):
            yield steps + fsteps, (out if fout == "fall" else fout)

    for steps, out in _seq(s.body, loops):
        if out == "fall":
            for esteps, eout in _seq(s.orelse, loops):
                yield from fin(steps + esteps, eout)
        elif out == "raise" and s.handlers:
            # an explicit raise in the body may be caught; both outcomes kept
            yield from fin(steps, out)
        else:
            yield from fin(steps, out)
    # exceptional entry into each handler: after the whole body or from its start
    for h in s.handlers:
        body_prefixes = [[]]
        for steps, out in _seq(s.body, loops):
            if out == "fall":
                body_prefixes.append(steps)
                break
        for pre in body_prefixes:
            for hsteps, hout in _seq(h.body, loops):
                yield from fin(pre + [("except", h)] + hsteps, hout)


def function_paths(fn: ast.FunctionDef, loops: int = 1) -> List[Path]:
    out: List[Path] = []
    for steps, o in _seq(fn.body, loops):
        if o == "fall":
            steps = steps + [("end", "fall", fn)]
        elif o in ("break", "continue"):
            raise AnalysisError(f"break/continue outside loop in {fn.name}")
        out.append(steps)
        if len(out) > MAX_PATHS:
            raise AnalysisError(f"more than {MAX_PATHS} paths in {fn.name}")
    return out


def end_kind(path: Path) -> str:
    return path[-1][1]


def stmts(path: Path) -> List[ast.stmt]:
    return [s[1] for s in path if s[0] == "stmt"]


def conds(path: Path) -> List[Tuple[str, bool]]:
    return [(unparse(s[1]), s[2]) for s in path if s[0] == "cond"]


def consistent(path: Path) -> bool:
    """False if the same (side-effect free looking) condition text is decided both ways
    with no intervening assignment to any name it mentions."""
    decided = {}
    entered = set()
    for step in path:
        if step[0] == "for" and isinstance(step[1], (ast.For, ast.AsyncFor)):
            it = step[1].iter
            if step[2]:
                entered.add(id(step[1]))
            elif id(step[1]) not in entered and isinstance(it, (ast.Tuple, ast.List)) and it.elts:
                return False  # a loop over a non-empty literal is never skipped
        if step[0] == "cond":
            key = unparse(step[1])
            if key in decided and decided[key] != step[2]:
                return False
            decided[key] = step[2]
        elif step[0] in ("stmt", "for", "with"):
            node = step[1]
            names = set()
            targets = []
            if isinstance(node, ast.Assign):
                targets = node.targets
            elif isinstance(node, (ast.AugAssign, ast.AnnAssign)):
                targets = [node.target]
            elif isinstance(node, (ast.For, ast.AsyncFor)):
                targets = [node.target]
            for t in targets:
                for n in ast.walk(t):
                    if isinstance(n, ast.Name):
                        names.add(n.id)
                    elif isinstance(n, ast.Attribute):
                        names.add(unparse(n))
            # calls may change self state: drop conditions mentioning self when a self-call happens
            has_call = any(isinstance(n, ast.Call) for n in ast.walk(node)) if not isinstance(
                node, (ast.FunctionDef, ast.ClassDef)) else False
            if names or has_call:
                for key in list(decided):
                    toks = set()
                    try:
                        for n in ast.walk(ast.parse(key, mode="eval")):
                            if isinstance(n, ast.Name):
                                toks.add(n.id)
                            elif isinstance(n, ast.Attribute):
                                toks.add(unparse(n))
                    except SyntaxError:
                        continue
                    if toks & names:
                        del decided[key]
    return True


def _step_nodes(step):
    kind = step[0]
    if kind in ("stmt", "cond"):
        return [step[1]] if step[1] is not None else []
    if kind == "for":
        n = step[1]
        return [n.iter, n.target] if isinstance(n, (ast.For, ast.AsyncFor)) else [n.test]
    if kind == "with":
        return [i.context_expr for i in step[1].items]
    return []


def index_of(path: Path, node: ast.AST) -> int:
    """Index of the step whose own expression(s) are or contain `node` (-1 if none)."""
    for i, step in enumerate(path):
        for root in _step_nodes(step):
            if root is node or any(n is node for n in ast.walk(root)):
                return i
    return -1


def before(path: Path, node: ast.AST) -> Path:
    """Steps strictly before the step that contains `node`."""
    i = index_of(path, node)
    return path if i < 0 else path[:i]


def must_raise(fn: ast.FunctionDef, pred, when=True, exc=None, loops: int = 1):
    """Guard check: over all consistent paths on which a condition satisfying `pred(test_expr)` takes the decision `when`,
    return (n_paths, offenders) where offenders are the paths that do NOT end in a raise (of `exc`, if given).

    With `when=None`, `pred(test_expr, decision)` selects the guard decision itself.

    Unlike "some raising path contains the condition" this fails when the raise under the guard is removed or replaced:
    the path then runs on (even if a later, unrelated refusal ends it, the statement following the decision is checked
    to be the raise itself or to lead to it without any store to `self`)."""
    n = 0
    off = []
    for path in function_paths(fn, loops=loops):
        if not consistent(path):
            continue
        idx = None
        for i, s in enumerate(path):
            if s[0] == "cond" and ((when is None and pred(s[1], s[2])) or (when is not None and s[2] == when and pred(s[1]))):
                idx = i
                break
        if idx is None:
            continue
        n += 1
        if end_kind(path) != "raise" or (exc is not None and exc not in unparse(path[-1][2])):
            off.append("path continues after `%s` is %s" % (unparse(path[idx][1])[:60], when))
            continue
        # the raise must be reached from the decision without passing another decision taken the "normal" way, i.e. it is
        # the refusal of THIS guard: allow only further conditions (nested guards), no plain statements with effects
        for s in path[idx + 1:-1]:
            if s[0] == "stmt" and not isinstance(s[1], (ast.Pass, ast.Expr, ast.Raise)) and not (
                    isinstance(s[1], ast.Assign) and all(isinstance(t, ast.Name) for t in s[1].targets)):
                off.append("`%s` runs between the decision `%s` and the raise" % (unparse(s[1])[:50], unparse(path[idx][1])[:40]))
                break
    return n, off
