"""E4 / E7c - tiny exact algebra: Laurent polynomials with Fraction coefficients over named symbols.

Enough to put physt's scaling expressions, statistics formulas and bin-measure
formulas into a normal form and compare them with the statement's table without
pattern matching on the shape of the expression (`scalar**2`, `scalar*scalar`,
`/ other**2`, `*= 1/other` ... all normalise to the same thing).
"""
from __future__ import annotations

import ast
from fractions import Fraction
from typing import Callable, Dict, Optional, Tuple

from .model import unparse as U

Mono = Tuple[Tuple[str, Fraction], ...]


class Poly:
    def __init__(self, terms: Optional[Dict[Mono, Fraction]] = None):
        self.t: Dict[Mono, Fraction] = {k: v for k, v in (terms or {}).items() if v != 0}

    @staticmethod
    def const(c) -> "Poly":
        return Poly({(): Fraction(c)})

    @staticmethod
    def sym(name: str) -> "Poly":
        return Poly({((name, Fraction(1)),): Fraction(1)})

    def __add__(self, o):
        r = dict(self.t)
        for k, v in o.t.items():
            r[k] = r.get(k, 0) + v
        return Poly(r)

    def __neg__(self):
        return Poly({k: -v for k, v in self.t.items()})

    def __sub__(self, o):
        return self + (-o)

    @staticmethod
    def _mm(a: Mono, b: Mono) -> Mono:
        d = dict(a)
        for s, e in b:
            d[s] = d.get(s, 0) + e
        return tuple(sorted((s, e) for s, e in d.items() if e != 0))

    def __mul__(self, o):
        r: Dict[Mono, Fraction] = {}
        for k1, v1 in self.t.items():
            for k2, v2 in o.t.items():
                k = self._mm(k1, k2)
                r[k] = r.get(k, 0) + v1 * v2
        return Poly(r)

    def is_monomial(self) -> bool:
        return len(self.t) == 1

    def inv(self) -> Optional["Poly"]:
        if not self.is_monomial():
            return None
        (k, v), = self.t.items()
        return Poly({tuple((s, -e) for s, e in k): 1 / v})

    def __truediv__(self, o):
        i = o.inv()
        return None if i is None else self * i

    def pow(self, n: Fraction) -> Optional["Poly"]:
        n = Fraction(n)
        if n.denominator == 1 and n >= 0:
            r = Poly.const(1)
            for _ in range(int(n)):
                r = r * self
            return r
        if self.is_monomial():
            (k, v), = self.t.items()
            if n.denominator == 1:
                return Poly({tuple((s, e * n) for s, e in k): v ** int(n)})
            if v == 1:
                return Poly({tuple((s, e * n) for s, e in k): Fraction(1)})
        return None

    def __eq__(self, o):
        return isinstance(o, Poly) and self.t == o.t

    def __hash__(self):
        return hash(tuple(sorted(self.t.items())))

    def degree(self, sym: str) -> Optional[Fraction]:
        """Common exponent of sym over all terms (None if terms disagree)."""
        ds = {dict(k).get(sym, Fraction(0)) for k in self.t}
        return ds.pop() if len(ds) == 1 else None

    def coeff_monomial(self):
        if not self.is_monomial():
            return None
        (k, v), = self.t.items()
        return v, dict(k)

    def __repr__(self):
        if not self.t:
            return "0"
        out = []
        for k, v in sorted(self.t.items(), key=lambda kv: str(kv[0])):
            m = "*".join(s if e == 1 else f"{s}^{e}" for s, e in k)
            out.append((f"{v}*" if v != 1 or not m else "") + (m or ""))
        return " + ".join(out).replace("+ -", "- ")


def to_poly(node: ast.AST, leaf: Callable[[ast.AST], Optional[Poly]], strip_calls=()) -> Optional[Poly]:
    """Translate an arithmetic expression; `leaf(node)` maps atoms to Poly (or None = unknown)."""
    r = leaf(node)
    if r is not None:
        return r
    if isinstance(node, ast.Constant) and isinstance(node.value, (int, float)) and not isinstance(node.value, bool):
        return Poly.const(Fraction(str(node.value)))
    if isinstance(node, ast.UnaryOp) and isinstance(node.op, ast.USub):
        v = to_poly(node.operand, leaf, strip_calls)
        return None if v is None else -v
    if isinstance(node, ast.UnaryOp) and isinstance(node.op, ast.UAdd):
        return to_poly(node.operand, leaf, strip_calls)
    if isinstance(node, ast.BinOp):
        if isinstance(node.op, ast.Pow):
            b = to_poly(node.left, leaf, strip_calls)
            e = node.right
            if b is None:
                return None
            if isinstance(e, ast.Constant) and isinstance(e.value, (int, float)):
                return b.pow(Fraction(str(e.value)))
            if isinstance(e, ast.UnaryOp) and isinstance(e.op, ast.USub) and isinstance(e.operand, ast.Constant):
                return b.pow(-Fraction(str(e.operand.value)))
            return None
        l = to_poly(node.left, leaf, strip_calls)
        r = to_poly(node.right, leaf, strip_calls)
        if l is None or r is None:
            return None
        if isinstance(node.op, ast.Add):
            return l + r
        if isinstance(node.op, ast.Sub):
            return l - r
        if isinstance(node.op, ast.Mult):
            return l * r
        if isinstance(node.op, ast.Div):
            return l / r
        return None
    if isinstance(node, ast.Call):
        name = U(node.func)
        if name in strip_calls and node.args:
            return to_poly(node.args[0], leaf, strip_calls)
        if isinstance(node.func, ast.Attribute) and node.func.attr in strip_calls:
            return to_poly(node.func.value, leaf, strip_calls)
    return None
