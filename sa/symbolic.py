"""E4 / E7c - tiny exact algebra: Laurent polynomials with Fraction coefficients over named symbols.

Enough to put physt's scaling expressions, statistics formulas and bin-measure
formulas into a normal form and compare them with the statement's table without
pattern matching on the shape of the expression (`scalar**2`, `scalar*scalar`,
`/ other**2`, `*= 1/other` ... all normalise to the same thing).
"""
from __future__ import annotations

import ast
from fractions import Fraction
from typing import Callable, Dict, Optional, Tuple

from .model import unparse as U

Mono = Tuple[Tuple[str, Fraction], ...]


class Poly:
    def __init__(self, terms: Optional[Dict[Mono, Fraction]] = None):
        self.t: Dict[Mono, Fraction] = {k: v for k, v in (terms or {}).items() if v != 0}

    @staticmethod
    def const(c) -> "Poly":
        return Poly({(): Fraction(c)})

    @staticmethod
    def sym(name: str) -> "Poly":
        return Poly({((name, Fraction(1)),): Fraction(1)})

    def __add__(self, o):
        r = dict(self.t)
        for k, v in o.t.items():
            r[k] = r.get(k, 0) + v
        return Poly(r)

    def __neg__(self):
        return Poly({k: -v for k, v in self.t.items()})

    def __sub__(self, o):
        return self + (-o)

    @staticmethod
    def _mm(a: Mono, b: Mono) -> Mono:
        d = dict(a)
        for s, e in b:
            d[s] = d.get(s, 0) + e
        return tuple(sorted((s, e) for s, e in d.items() if e != 0))

    def __mul__(self, o):
        r: Dict[Mono, Fraction] = {}
        for k1, v1 in self.t.items():
            for k2, v2 in o.t.items():
                k = self._mm(k1, k2)
                r[k] = r.get(k, 0) + v1 * v2
        return Poly(r)

    def is_monomial(self) -> bool:
        return len(self.t) == 1

    def inv(self) -> Optional["Poly"]:
        if not self.is_monomial():
            return None
        (k, v), = self.t.items()
        return Poly({tuple((s, -e) for s, e in k): 1 / v})

    def __truediv__(self, o):
        i = o.inv()
        return None if i is None else self * i

    def pow(self, n: Fraction) -> Optional["Poly"]:
        n = Fraction(n)
        if n.denominator == 1 and n >= 0:
            r = Poly.const(1)
            for _ in range(int(n)):
                r = r * self
            return r
        if self.is_monomial():
            (k, v), = self.t.items()
            if n.denominator == 1:
                return Poly({tuple((s, e * n) for s, e in k): v ** int(n)})
            if v == 1:
                return Poly({tuple((s, e * n) for s, e in k): Fraction(1)})
        return None

    def __eq__(self, o):
        return isinstance(o, Poly) and self.t == o.t

    def __hash__(self):
        return hash(tuple(sorted(self.t.items())))

    def degree(self, sym: str) -> Optional[Fraction]:
        """Common exponent of sym over all terms (None if terms disagree)."""
        ds = {dict(k).get(sym, Fraction(0)) for k in self.t}
        return ds.pop() if len(ds) == 1 else None

    def coeff_monomial(self):
        if not self.is_monomial():
            return None
        (k, v), = self.t.items()
        return v, dict(k)

    def __repr__(self):
        if not self.t:
            return "0"
        out = []
        for k, v in sorted(self.t.items(), key=lambda kv: str(kv[0])):
            m = "*".join(s if e == 1 else f"{s}^{e}" for s, e in k)
            out.append((f"{v}*" if v != 1 or not m else "") + (m or ""))
        return " + ".join(out).replace("+ -", "- ")


def to_poly(node: ast.AST, leaf: Callable[[ast.AST], Optional[Poly]], strip_calls=()) -> Optional[Poly]:
    """Translate an arithmetic expression; `leaf(node)` maps atoms to Poly (or None = unknown)."""
    r = leaf(node)
    if r is not None:
        return r
    if isinstance(node, ast.Constant) and isinstance(node.value, (int, float)) and not isinstance(node.value, bool):
        return Poly.const(Fraction(str(node.value)))
    if isinstance(node, ast.UnaryOp) and isinstance(node.op, ast.USub):
        v = to_poly(node.operand, leaf, strip_calls)
        return None if v is None else -v
    if isinstance(node, ast.UnaryOp) and isinstance(node.op, ast.UAdd):
        return to_poly(node.operand, leaf, strip_calls)
    if isinstance(node, ast.BinOp):
        if isinstance(node.op, ast.Pow):
            b = to_poly(node.left, leaf, strip_calls)
            e = node.right
            if b is None:
                return None
            if isinstance(e, ast.Constant) and isinstance(e.value, (int, float)):
                return b.pow(Fraction(str(e.value)))
            if isinstance(e, ast.UnaryOp) and isinstance(e.op, ast.USub) and isinstance(e.operand, ast.Constant):
                return b.pow(-Fraction(str(e.operand.value)))
            return None
        l = to_poly(node.left, leaf, strip_calls)
        r = to_poly(node.right, leaf, strip_calls)
        if l is None or r is None:
            return None
        if isinstance(node.op, ast.Add):
            return l + r
        if isinstance(node.op, ast.Sub):
            return l - r
        if isinstance(node.op, ast.Mult):
            return l * r
        if isinstance(node.op, ast.Div):
            return l / r
        return None
    if isinstance(node, ast.Call):
        name = U(node.func)
        if name in strip_calls and node.args:
            return to_poly(node.args[0], leaf, strip_calls)
        if isinstance(node.func, ast.Attribute) and node.func.attr in strip_calls:
            return to_poly(node.func.value, leaf, strip_calls)
    return None


# ---- float-exact expression trees ------------------------------------------------------------------------------
# IEEE addition and multiplication are commutative but neither associative nor distributive: two expressions give
# bit-identical results for all inputs only if they agree as trees up to swapping the operands of + and *.

def ftree(node: ast.AST, leaf: Callable[[ast.AST], Optional[str]]):
    name = leaf(node)
    if name is not None:
        return ("sym", name)
    if isinstance(node, ast.Constant) and isinstance(node.value, (int, float)) and not isinstance(node.value, bool):
        return ("const", node.value)
    if isinstance(node, ast.UnaryOp) and isinstance(node.op, ast.USub):
        a = ftree(node.operand, leaf)
        return None if a is None else ("neg", a)
    if isinstance(node, ast.BinOp):
        a, b = ftree(node.left, leaf), ftree(node.right, leaf)
        if a is None or b is None:
            return None
        if isinstance(node.op, (ast.Add, ast.Mult)):
            return ("+" if isinstance(node.op, ast.Add) else "*",) + tuple(sorted((a, b), key=repr))
        op = {ast.Sub: "-", ast.Div: "/", ast.FloorDiv: "//", ast.Pow: "**", ast.Mod: "%"}.get(type(node.op))
        return None if op is None else (op, a, b)
    return None


def fsubst(tree, name: str, repl):
    """Replace symbol `name`; drop an exact integer-zero summand (x + 0 == x in IEEE arithmetic for x != -0.0)."""
    if tree is None:
        return None
    if tree == ("sym", name):
        return repl
    if tree[0] in ("sym", "const"):
        return tree
    kids = [fsubst(k, name, repl) for k in tree[1:]]
    if tree[0] == "+":
        nz = [k for k in kids if k != ("const", 0)]
        if len(nz) == 1:
            return nz[0]
    if tree[0] in ("+", "*"):
        kids = sorted(kids, key=repr)
    return (tree[0],) + tuple(kids)


# ---- rational functions with opaque function applications ------------------------------------------------------
# (numerator, denominator) pairs of Poly; f(arg) becomes a fresh symbol shared by all applications of f to an equal
# argument, so closed formulas such as ceil(1 + log2(n) + log2(1 + |g| / sqrt(6 (n-2) / ((n+1)(n+3))))) can be compared
# with a table entry independently of how the source spells / associates / names the pieces.

MATH_FUNCS = ("sqrt", "log2", "log10", "log", "exp", "ceil", "floor", "abs", "absolute", "cbrt")


class RatCtx:
    def __init__(self):
        self.table = []   # (fn, rat, symbol name)

    def apply(self, fn: str, rat):
        fn = {"absolute": "abs"}.get(fn, fn)
        if fn in ("ceil", "floor"):
            p, q = rat
            if q == Poly.const(1):
                c = p.t.get((), Fraction(0))
                if c != 0 and c.denominator == 1:
                    inner = self.apply(fn, (p - Poly.const(c), q))
                    return (inner[0] + Poly.const(c) * inner[1], inner[1])
        for f, r, s in self.table:
            if f == fn and rat_eq(r, rat):
                return (Poly.sym(s), Poly.const(1))
        s = f"{fn}#{len(self.table)}"
        self.table.append((fn, rat, s))
        return (Poly.sym(s), Poly.const(1))


def rat_eq(a, b) -> bool:
    return a is not None and b is not None and a[0] * b[1] == b[0] * a[1]


def to_rat(node: ast.AST, leaf, rc: RatCtx, strip=("int", "float")):
    one = Poly.const(1)
    r = leaf(node)
    if r is not None:
        return r if isinstance(r, tuple) else (r, one)
    if isinstance(node, ast.Constant) and isinstance(node.value, (int, float)) and not isinstance(node.value, bool):
        return (Poly.const(Fraction(str(node.value))), one)
    if isinstance(node, ast.UnaryOp) and isinstance(node.op, (ast.USub, ast.UAdd)):
        v = to_rat(node.operand, leaf, rc, strip)
        return None if v is None else ((-v[0], v[1]) if isinstance(node.op, ast.USub) else v)
    if isinstance(node, ast.BinOp):
        a = to_rat(node.left, leaf, rc, strip)
        b = to_rat(node.right, leaf, rc, strip)
        if a is None or b is None:
            return None
        if isinstance(node.op, ast.Add):
            return (a[0] * b[1] + b[0] * a[1], a[1] * b[1])
        if isinstance(node.op, ast.Sub):
            return (a[0] * b[1] - b[0] * a[1], a[1] * b[1])
        if isinstance(node.op, ast.Mult):
            return (a[0] * b[0], a[1] * b[1])
        if isinstance(node.op, ast.Div):
            return (a[0] * b[1], a[1] * b[0])
        if isinstance(node.op, ast.Pow):
            return _rat_pow(a, b)
        return None
    if isinstance(node, ast.Call):
        name = U(node.func).split(".")[-1]
        if name in strip and len(node.args) == 1:
            return to_rat(node.args[0], leaf, rc, strip)
        if name == "power" and len(node.args) == 2:
            a = to_rat(node.args[0], leaf, rc, strip)
            b = to_rat(node.args[1], leaf, rc, strip)
            return None if a is None or b is None else _rat_pow(a, b)
        if name in MATH_FUNCS and len(node.args) == 1:
            a = to_rat(node.args[0], leaf, rc, strip)
            return None if a is None else rc.apply(name, a)
    return None


def _rat_pow(a, b):
    cn, cd = b[0].t.get((), None), b[1].t.get((), None)
    if cn is None or cd is None or len(b[0].t) != 1 or len(b[1].t) != 1:
        return None
    e = cn / cd
    if e < 0:
        a, e = (a[1], a[0]), -e
    p, q = a[0].pow(e), a[1].pow(e)
    return None if p is None or q is None else (p, q)
