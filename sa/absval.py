"""E7a - three-valued evaluation of branch conditions over a finite abstract domain.

Used for the sentinel x keep_missed case tables (C03.a, C15.a): the lookup
result is one of  None | -1 | N (= bin count) | "in" (an index in 0..N-1)  and
boolean flags have known values; every other atom is unknown (None), i.e. the
branch is feasible both ways.
"""
from __future__ import annotations

import ast
from typing import Callable, Dict, Optional

from .util import U

BIG = 1000  # stands for the bin count N in interval comparisons


def _interval(s):
    if s == -1:
        return (-1, -1)
    if s == "N":
        return (BIG, BIG)
    if s == "in":
        return (0, BIG - 1)
    return None


def eval3(expr: ast.AST, var: str, s, flags: Dict[str, bool], count_exprs=("self.bin_count",),
          extra: Optional[Callable[[ast.AST], Optional[bool]]] = None) -> Optional[bool]:
    """True / False / None(unknown) for `expr` when local `var` holds abstract value s."""

    def const(node):
        t = U(node)
        if t in count_exprs:
            return BIG
        if any(t == c + " - 1" for c in count_exprs):
            return BIG - 1
        if isinstance(node, ast.Constant) and isinstance(node.value, (int, float)) and not isinstance(node.value, bool):
            return node.value
        if isinstance(node, ast.UnaryOp) and isinstance(node.op, ast.USub) and isinstance(node.operand, ast.Constant):
            return -node.operand.value
        return None

    def ev(e) -> Optional[bool]:
        if extra is not None:
            r = extra(e)
            if r is not None:
                return r
        if isinstance(e, ast.BoolOp):
            vals = [ev(v) for v in e.values]
            if isinstance(e.op, ast.And):
                if any(v is False for v in vals):
                    return False
                return True if all(v is True for v in vals) else None
            if any(v is True for v in vals):
                return True
            return False if all(v is False for v in vals) else None
        if isinstance(e, ast.UnaryOp) and isinstance(e.op, ast.Not):
            v = ev(e.operand)
            return None if v is None else (not v)
        t = U(e)
        if t in flags:
            return flags[t]
        if isinstance(e, ast.Name) and e.id == var:
            # truthiness of the lookup result
            if s is None:
                return False
            if s == -1 or s == "N":
                return True
            return None
        if isinstance(e, ast.Compare) and len(e.ops) == 1:
            l, op, r = e.left, e.ops[0], e.comparators[0]
            lv, rv = U(l) == var, U(r) == var
            if not (lv or rv):
                return None
            other = r if lv else l
            if isinstance(op, (ast.Is, ast.IsNot, ast.Eq, ast.NotEq)) and isinstance(other, ast.Constant) and other.value is None:
                res = s is None
                return res if isinstance(op, (ast.Is, ast.Eq)) else not res
            c = const(other)
            if c is None:
                return None
            if s is None:
                if isinstance(op, ast.Eq):
                    return False
                if isinstance(op, ast.NotEq):
                    return True
                return None  # ordering comparison with None raises; treated as unknown
            lo, hi = _interval(s)
            if rv:  # c OP var  ->  var OP' c
                op = {ast.Lt: ast.Gt, ast.LtE: ast.GtE, ast.Gt: ast.Lt, ast.GtE: ast.LtE}.get(type(op), type(op))()
            if isinstance(op, ast.Eq):
                return True if lo == hi == c else (False if c < lo or c > hi else None)
            if isinstance(op, ast.NotEq):
                return False if lo == hi == c else (True if c < lo or c > hi else None)
            if isinstance(op, ast.Lt):
                return True if hi < c else (False if lo >= c else None)
            if isinstance(op, ast.LtE):
                return True if hi <= c else (False if lo > c else None)
            if isinstance(op, ast.Gt):
                return True if lo > c else (False if hi <= c else None)
            if isinstance(op, ast.GtE):
                return True if lo >= c else (False if hi < c else None)
        return None

    return ev(expr)
