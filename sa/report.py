"""Obligation bookkeeping shared by all rule modules."""
from __future__ import annotations

import json
from pathlib import Path
from typing import Dict, List, Optional

from .model import AnalysisError, Model

VERIF = Path(__file__).resolve().parent.parent


class Ctx:
    def __init__(self, model: Model, prop: str, tier: str = "quick"):
        self.model = model
        self.prop = prop
        self.tier = tier
        self.results: List[dict] = []
        self.floors: Dict[str, int] = {}
        self.rule_doc: Dict[str, str] = {}
        self.exhaustive_rules: List[str] = []
        self.analysed_functions: set = set()

    # -- recording -----------------------------------------------------------
    def rule(self, rule: str, doc: str, floor: int = 1, exhaustive: bool = False) -> None:
        self.rule_doc[rule] = doc
        self.floors[rule] = floor
        if exhaustive:
            self.exhaustive_rules.append(rule)

    def _record(self, rule, key, verdict, detail, where):
        for r in self.results:
            if r["rule"] == rule and r["key"] == key:
                # same instance reported again (e.g. from another path): a violation wins
                if verdict == "VIOLATED" and r["verdict"] != "VIOLATED":
                    r.update(verdict=verdict, detail=detail, where=where)
                return
        self.results.append(dict(rule=rule, key=key, verdict=verdict, detail=detail, where=where))

    def ok(self, rule: str, key: str, detail: str = "", where: str = "") -> None:
        self._record(rule, key, "holds", detail, where)

    def bad(self, rule: str, key: str, detail: str, where: str = "") -> None:
        self._record(rule, key, "VIOLATED", detail, where)

    def check(self, cond: bool, rule: str, key: str, detail_ok: str, detail_bad: str, where: str = "") -> bool:
        if cond:
            self.ok(rule, key, detail_ok, where)
        else:
            self.bad(rule, key, detail_bad, where)
        return bool(cond)

    def saw(self, fi) -> None:
        self.analysed_functions.add(fi.qualname if hasattr(fi, "qualname") else str(fi))

    # -- closing ---------------------------------------------------------------
    def verify_floors(self) -> None:
        counts: Dict[str, int] = {}
        for r in self.results:
            counts[r["rule"]] = counts.get(r["rule"], 0) + 1
        for rule, floor in self.floors.items():
            if counts.get(rule, 0) < floor:
                raise AnalysisError(
                    f"rule {rule} produced {counts.get(rule, 0)} instances, fewer than the "
                    f"{floor} confirmed by hand - the anchored code moved; the rule cannot pass vacuously"
                )
        # duplicate keys would make findings ambiguous
        seen = set()
        for r in self.results:
            k = (r["rule"], r["key"])
            if k in seen:
                raise AnalysisError(f"duplicate instance key {k}")
            seen.add(k)

    def violations(self) -> List[dict]:
        return [r for r in self.results if r["verdict"] == "VIOLATED"]


def load_known(prop: str) -> List[dict]:
    p = VERIF / "known_findings.jsonl"
    out = []
    if p.exists():
        for line in p.read_text().splitlines():
            line = line.strip()
            if not line or line.startswith("#") or line.startswith("fixed:"):
                continue  # `fixed:` lines document repaired defects; they suppress nothing
            d = json.loads(line)
            if d.get("property") == prop:
                out.append(d)
    return out
