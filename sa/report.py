"""Obligation bookkeeping shared by all rule modules."""
from __future__ import annotations

import json
from pathlib import Path
from typing import Dict, List, Optional

from .model import AnalysisError, Model

VERIF = Path(__file__).resolve().parent.parent


class Ctx:
    def __init__(self, model: Model, prop: str, tier: str = "quick"):
        self.model = model
        self.prop = prop
        self.tier = tier
        self.results: List[dict] = []
        self.floors: Dict[str, int] = {}
        self.rule_doc: Dict[str, str] = {}
        self.exhaustive_rules: List[str] = []
        self.analysed_functions: set = set()

    # -- recording -----------------------------------------------------------
    def rule(self, rule: str, doc: str, floor: int = 1, exhaustive: bool = False) -> None:
        self.rule_doc[rule] = doc
        self.floors[rule] = floor
        if exhaustive:
            self.exhaustive_rules.append(rule)

    def _record(self, rule, key, verdict, detail, where):
        for r in self.results:
            if r["rule"] == rule and r["key"] == key:
                # same instance reported again (e.g. from another path): a violation wins
                if verdict == "VIOLATED" and r["verdict"] != "VIOLATED":
                    r.update(verdict=verdict, detail=detail, where=where)
                return
        self.results.append(dict(rule=rule, key=key, verdict=verdict, detail=detail, where=where))

    def ok(self, rule: str, key: str, detail: str = "", where: str = "") -> None:
        self._record(rule, key, "holds", detail, where)

    def bad(self, rule: str, key: str, detail: str, where: str = "") -> None:
        self._record(rule, key, "VIOLATED", detail, where)

    def check(self, cond: bool, rule: str, key: str, detail_ok: str, detail_bad: str, where: str = "") -> bool:
        if cond:
            self.ok(rule, key, detail_ok, where)
        else:
            self.bad(rule, key, detail_bad, where)
        return bool(cond)

    # -- sharing ---------------------------------------------------------------
    def borrow(self, from_prop: str, prefixes, rule: str, floor: int = 1) -> None:
        """Report, under `rule` of this property, the instances of another property's rules whose key starts with one of
        `prefixes`: a clause both properties depend on is decided once, by the rules written for it, and a defect is
        reported by every property it breaks. (Sub-runs do not borrow in turn.)"""
        if getattr(self, "_is_subrun", False):
            return
        import importlib
        cache = self.model.__dict__.setdefault("_borrow_cache", {})     # lives and dies with the parsed tree
        if from_prop not in cache:
            sub = Ctx(self.model, from_prop, self.tier)
            sub._is_subrun = True
            importlib.import_module(f"rules.{from_prop.lower()}").run(sub)
            cache[from_prop] = (sub.results, set(sub.analysed_functions))
        results, analysed = cache[from_prop]
        n = 0
        for r in results:
            if any(r["key"].startswith(p) for p in prefixes):
                n += 1
                self._record(rule, f"{from_prop}:{r['key']}", r["verdict"], r["detail"], r["where"])
        if n < floor:
            self.bad(rule, f"{from_prop}:{'|'.join(prefixes)}", f"the shared rule instances {list(prefixes)} of {from_prop} were not produced (anchor moved?)", "")

    def saw(self, fi) -> None:
        self.analysed_functions.add(fi.qualname if hasattr(fi, "qualname") else str(fi))

    # -- closing ---------------------------------------------------------------
    def verify_floors(self) -> None:
        counts: Dict[str, int] = {}
        for r in self.results:
            counts[r["rule"]] = counts.get(r["rule"], 0) + 1
        for rule, floor in self.floors.items():
            if counts.get(rule, 0) < floor:
                raise AnalysisError(
                    f"rule {rule} produced {counts.get(rule, 0)} instances, fewer than the "
                    f"{floor} confirmed by hand - the anchored code moved; the rule cannot pass vacuously"
                )
        # duplicate keys would make findings ambiguous
        seen = set()
        for r in self.results:
            k = (r["rule"], r["key"])
            if k in seen:
                raise AnalysisError(f"duplicate instance key {k}")
            seen.add(k)

    def violations(self) -> List[dict]:
        return [r for r in self.results if r["verdict"] == "VIOLATED"]


def load_known(prop: str) -> List[dict]:
    p = VERIF / "known_findings.jsonl"
    out = []
    if p.exists():
        for line in p.read_text().splitlines():
            line = line.strip()
            if not line or line.startswith("#") or line.startswith("fixed:"):
                continue  # `fixed:` lines document repaired defects; they suppress nothing
            d = json.loads(line)
            if d.get("property") == prop:
                out.append(d)
    return out
