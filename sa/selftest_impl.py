"""Self-test of the checkers, both directions.

* breaking variants (must fire): `seeded/*/patch.diff` (written by independent agents that saw only the property
  text), `selftest/inverse/*.diff` (the inverse of every `fix:` commit: re-introduces a genuine defect) and
  `selftest/mutants/*.diff` (hand-written); each lists the properties whose check must exit 1 and name a violation;
* twins (must stay silent): the whole tree re-emitted by ast.unparse, with `pass` padding, with all locals renamed.

Variants are applied to scratch copies of /repo/src/physt under a temporary directory (never /repo, never /verif),
which are removed afterwards.  usage: selftest.py [--props C01,C02] [--jobs 16] [--json out.json] [--only twins|breaking]
"""
from __future__ import annotations

import argparse
import json
import os
import shutil
import subprocess
import sys
import tempfile
import time
from concurrent.futures import ThreadPoolExecutor
from pathlib import Path

VERIF = Path(__file__).resolve().parent.parent
SRC = Path("/repo/src/physt")
ALL = [f"C{i:02d}" for i in range(1, 21)]


def _check(prop: str, src: Path):
    r = subprocess.run(["/venv/bin/python", str(VERIF / "check.py"), prop, "--src", str(src), "--no-evidence"],
                       capture_output=True, text=True, cwd=VERIF)
    inst = [l.strip()[10:] for l in r.stdout.splitlines() if l.strip().startswith("instance:")]
    return r.returncode, inst, r.stdout[-400:] if r.returncode == 2 else ""


def breaking_variants():
    out = []
    for d in sorted((VERIF / "seeded").glob("*/")):
        meta = json.loads((d / "meta.json").read_text()) if (d / "meta.json").exists() else {}
        exp = meta.get("caught_by") or [meta.get("property")]
        out.append(dict(name=f"seeded/{d.name}", patch=d / "patch.diff", expect=[e for e in exp if e], kind="seeded",
                        not_detectable=meta.get("not_statically_detectable")))
    exp_file = VERIF / "selftest" / "expectations.json"
    exps = json.loads(exp_file.read_text()) if exp_file.exists() else {}
    for sub in ("inverse", "mutants"):
        for p in sorted((VERIF / "selftest" / sub).glob("*.diff")):
            out.append(dict(name=f"{sub}/{p.stem}", patch=p, expect=exps.get(f"{sub}/{p.stem}", []), kind=sub, not_detectable=None))
    return out


def run_breaking(v, props_filter):
    tmp = Path(tempfile.mkdtemp(prefix="physt-selftest-"))
    try:
        (tmp / "src").mkdir()
        shutil.copytree(SRC, tmp / "src" / "physt")
        r = subprocess.run(["patch", "-p1", "-s", "--no-backup-if-mismatch", "-i", str(Path(v["patch"]).resolve())], cwd=tmp, capture_output=True, text=True)
        if r.returncode != 0:
            return dict(v, status="not-applicable", detail="patch does not apply to the current tree")
        props = [p for p in v["expect"] if not props_filter or p in props_filter]
        if not props:
            return dict(v, status="skipped", detail="no expected property selected")
        res = {}
        for p in props:
            rc, inst, err = _check(p, tmp / "src" / "physt")
            res[p] = dict(rc=rc, instances=inst[:4], err=err)
        fired = [p for p, x in res.items() if x["rc"] == 1 and x["instances"]]
        if v.get("not_detectable"):
            status = "declared-undetectable" if not fired else "detected-anyway"
        else:
            status = "detected" if fired else "MISSED"
        return dict(v, status=status, results=res)
    finally:
        shutil.rmtree(tmp, ignore_errors=True)


def run_twin(kind, props):
    from sa.twins import make_twin
    tmp = Path(tempfile.mkdtemp(prefix="physt-twin-"))
    try:
        make_twin(SRC, tmp / "src" / "physt", kind)
        bad = {}
        for p in props:
            rc, inst, err = _check(p, tmp / "src" / "physt")
            base_rc, base_inst, _ = BASE.get(p, (0, [], ""))
            extra = [i for i in inst if i not in base_inst]
            if rc == 2 or extra:
                bad[p] = dict(rc=rc, instances=extra[:4], err=err)
        return dict(name=f"twin/{kind}", kind="twin", status="silent" if not bad else "FIRED", results=bad)
    finally:
        shutil.rmtree(tmp, ignore_errors=True)


def run_refactoring(name, props):
    """an independently written, confirmed behaviour-preserving refactoring (refactors/<name>/patch.diff) listed as silent"""
    import subprocess
    tmp = Path(tempfile.mkdtemp(prefix="physt-refactoring-"))
    try:
        (tmp / "src").mkdir()
        shutil.copytree(SRC, tmp / "src" / "physt")
        r = subprocess.run(["patch", "-p1", "-s", "--no-backup-if-mismatch", "-i", str(VERIF / "refactors" / name / "patch.diff")], cwd=tmp, capture_output=True)
        if r.returncode:
            return dict(name=f"refactoring/{name}", kind="twin", status="not-applicable", results={}, why="patch no longer applies")
        bad = {}
        for p in props:
            rc, inst, err = _check(p, tmp / "src" / "physt")
            base_rc, base_inst, _ = BASE.get(p, (0, [], ""))
            extra = [i for i in inst if i not in base_inst]
            if rc == 2 or extra:
                bad[p] = dict(rc=rc, instances=extra[:4], err=err)
        return dict(name=f"refactoring/{name}", kind="twin", status="silent" if not bad else "FIRED", results=bad)
    finally:
        shutil.rmtree(tmp, ignore_errors=True)


def silent_refactorings():
    f = VERIF / "refactors" / "SILENT.json"
    return json.loads(f.read_text()) if f.exists() else []


BASE = {}


def main(argv=None) -> int:
    ap = argparse.ArgumentParser()
    ap.add_argument("--props", default="")
    ap.add_argument("--jobs", type=int, default=16)
    ap.add_argument("--json")
    ap.add_argument("--only", default="")
    a = ap.parse_args(argv)
    props = [p for p in a.props.split(",") if p] or ALL
    t0 = time.time()
    sys.path.insert(0, str(VERIF))
    # baseline on the current tree (known findings are expected to be reported there as well)
    with ThreadPoolExecutor(a.jobs) as ex:
        for p, r in zip(props, ex.map(lambda p: _check(p, SRC), props)):
            BASE[p] = r
    results = []
    with ThreadPoolExecutor(a.jobs) as ex:
        futs = []
        if a.only in ("", "breaking"):
            for v in breaking_variants():
                futs.append(ex.submit(run_breaking, v, props if a.props else None))
        if a.only in ("", "twins"):
            for k in ("unparse", "pad", "rename", "kwshuffle", "ifswap", "nodoc", "swapassign"):
                futs.append(ex.submit(run_twin, k, props))
            for name in silent_refactorings():
                futs.append(ex.submit(run_refactoring, name, props))
        for f in futs:
            results.append(f.result())
    # unit cases of the normal forms: pairs that must / must not get the same fingerprint
    import subprocess
    fc = subprocess.run([sys.executable, str(VERIF / "selftest" / "fingerprint_cases.py")], capture_output=True, text=True)
    print(fc.stdout.strip())
    results.append(dict(name="fingerprint-cases", kind="twin", status="silent" if fc.returncode == 0 else "FIRED", results={"cases": fc.stdout[-400:]}))
    bad = [r for r in results if r["status"] in ("MISSED", "FIRED")]
    na = [r for r in results if r["status"] == "not-applicable"]
    for r in results:
        line = f"{r['status']:22s} {r['name']}"
        if r["status"] in ("detected", "MISSED", "detected-anyway", "declared-undetectable"):
            line += "  expect=" + ",".join(r["expect"]) + "  " + "; ".join(f"{p}:rc={x['rc']}" for p, x in r["results"].items())
        if r["status"] == "FIRED":
            line += "  " + json.dumps(r["results"])[:300]
        print(line)
    summary = dict(variants=len(results), detected=sum(r["status"] in ("detected", "detected-anyway") for r in results),
                   missed=sum(r["status"] == "MISSED" for r in results), twins_silent=sum(r["status"] == "silent" for r in results),
                   twins_fired=sum(r["status"] == "FIRED" for r in results), not_applicable=len(na),
                   declared_undetectable=sum(r["status"] == "declared-undetectable" for r in results), wall_s=round(time.time() - t0, 1))
    print("SELFTEST", json.dumps(summary))
    if a.json:
        Path(a.json).write_text(json.dumps(dict(summary=summary, results=[{k: (str(v) if isinstance(v, Path) else v) for k, v in r.items()} for r in results]), indent=1, default=str))
    return 1 if bad else 0
