"""E0 - program model of /repo/src/physt built from the syntax trees only.

Never imports physt.  Provides modules, import tables, a class table with a
statically computed C3 MRO, method / property / class-attribute resolution and
helpers to find module-level functions and decorator-built registries.
"""
from __future__ import annotations

import ast
import os
from dataclasses import dataclass, field
from pathlib import Path
from typing import Dict, Iterator, List, Optional, Tuple


class AnalysisError(Exception):
    """The analysis itself cannot proceed (anchor vanished, parse failure...)."""


def src_root() -> Path:
    return Path(os.environ.get("PHYST_SRC", "/repo/src/physt"))


def unparse(node: ast.AST) -> str:
    return ast.unparse(node)


@dataclass
class FuncInfo:
    name: str
    node: ast.FunctionDef
    module: "Module"
    cls: Optional["ClassInfo"] = None
    kind: str = "function"  # function | method | classmethod | staticmethod | getter | setter

    @property
    def qualname(self) -> str:
        if self.cls is not None:
            return f"{self.cls.name}.{self.name}"
        return f"{self.module.short}.{self.name}"

    @property
    def where(self) -> str:
        return f"{self.module.relpath}:{self.node.lineno} ({self.qualname})"

    def decorator_names(self) -> List[str]:
        return [unparse(d) for d in self.node.decorator_list]

    def params(self) -> List[str]:
        a = self.node.args
        names = [x.arg for x in a.posonlyargs + a.args]
        if a.vararg:
            names.append("*" + a.vararg.arg)
        names += [x.arg for x in a.kwonlyargs]
        if a.kwarg:
            names.append("**" + a.kwarg.arg)
        return names

    def param_default(self, name: str) -> Optional[ast.expr]:
        a = self.node.args
        pos = a.posonlyargs + a.args
        defaults = [None] * (len(pos) - len(a.defaults)) + list(a.defaults)
        for p, d in zip(pos, defaults):
            if p.arg == name:
                return d
        for p, d in zip(a.kwonlyargs, a.kw_defaults):
            if p.arg == name:
                return d
        return None


@dataclass
class ClassInfo:
    name: str
    node: ast.ClassDef
    module: "Module"
    base_exprs: List[str] = field(default_factory=list)
    bases: List["ClassInfo"] = field(default_factory=list)  # resolved physt bases only
    methods: Dict[str, FuncInfo] = field(default_factory=dict)
    getters: Dict[str, FuncInfo] = field(default_factory=dict)
    setters: Dict[str, FuncInfo] = field(default_factory=dict)
    attrs: Dict[str, ast.expr] = field(default_factory=dict)  # class-level assignments

    @property
    def where(self) -> str:
        return f"{self.module.relpath}:{self.node.lineno} (class {self.name})"


class Module:
    def __init__(self, path: Path, root: Path):
        self.path = path
        self.relpath = "src/physt/" + str(path.relative_to(root))
        rel = path.relative_to(root).with_suffix("")
        parts = list(rel.parts)
        if parts[-1] == "__init__":
            parts = parts[:-1]
        self.name = ".".join(["physt"] + parts)
        self.short = ".".join(parts) if parts else "physt"
        self.is_package = path.name == "__init__.py"
        self.source = path.read_text()
        try:
            self.tree = ast.parse(self.source, filename=str(path))
        except SyntaxError as exc:  # pragma: no cover
            raise AnalysisError(f"cannot parse {path}: {exc}") from exc
        from . import canon
        self.renamed_functions = canon.canonicalise(self.name, self.tree)
        self.imports: Dict[str, Tuple[str, Optional[str]]] = {}
        self.functions: Dict[str, FuncInfo] = {}
        self.all_functions: List[FuncInfo] = []  # incl. duplicates named `_` (singledispatch)
        self.classes: Dict[str, ClassInfo] = {}
        self.assigns: Dict[str, ast.expr] = {}
        self._collect()

    # -- import table -----------------------------------------------------
    def _abs(self, level: int, module: Optional[str]) -> str:
        if level == 0:
            return module or ""
        pkg = self.name.split(".")
        if not self.is_package:
            pkg = pkg[:-1]
        pkg = pkg[: len(pkg) - (level - 1)]
        return ".".join(pkg + ([module] if module else []))

    def _collect(self) -> None:
        for node in ast.walk(self.tree):
            if isinstance(node, ast.Import):
                for a in node.names:
                    self.imports[a.asname or a.name.split(".")[0]] = (a.name, None)
            elif isinstance(node, ast.ImportFrom):
                mod = self._abs(node.level, node.module)
                for a in node.names:
                    self.imports[a.asname or a.name] = (mod, a.name)
        for stmt in self._toplevel(self.tree.body):
            if isinstance(stmt, (ast.FunctionDef, ast.AsyncFunctionDef)):
                fi = FuncInfo(stmt.name, stmt, self)
                self.functions[stmt.name] = fi
                self.all_functions.append(fi)
            elif isinstance(stmt, ast.ClassDef):
                self.classes[stmt.name] = self._class(stmt)
            elif isinstance(stmt, ast.Assign):
                for t in stmt.targets:
                    if isinstance(t, ast.Name):
                        self.assigns[t.id] = stmt.value
            elif isinstance(stmt, ast.AnnAssign) and isinstance(stmt.target, ast.Name) and stmt.value:
                self.assigns[stmt.target.id] = stmt.value

    def _toplevel(self, body) -> Iterator[ast.stmt]:
        """Module-level statements, looking into `if`, `with` and `try` blocks."""
        for stmt in body:
            if isinstance(stmt, ast.If):
                yield from self._toplevel(stmt.body)
                yield from self._toplevel(stmt.orelse)
            elif isinstance(stmt, ast.With):
                yield from self._toplevel(stmt.body)
            elif isinstance(stmt, ast.Try):
                yield from self._toplevel(stmt.body)
                yield from self._toplevel(stmt.orelse)
                yield from self._toplevel(stmt.finalbody)
            else:
                yield stmt

    def _class(self, node: ast.ClassDef) -> ClassInfo:
        ci = ClassInfo(node.name, node, self, [unparse(b) for b in node.bases])
        for stmt in self._toplevel(node.body):
            if isinstance(stmt, (ast.FunctionDef, ast.AsyncFunctionDef)):
                decos = [unparse(d) for d in stmt.decorator_list]
                fi = FuncInfo(stmt.name, stmt, self, ci, "method")
                if any(d.endswith(".setter") for d in decos):
                    fi.kind = "setter"
                    ci.setters[stmt.name] = fi
                elif "property" in decos:
                    fi.kind = "getter"
                    ci.getters[stmt.name] = fi
                else:
                    if "classmethod" in decos:
                        fi.kind = "classmethod"
                    elif "staticmethod" in decos:
                        fi.kind = "staticmethod"
                    ci.methods[stmt.name] = fi
            elif isinstance(stmt, ast.Assign):
                for t in stmt.targets:
                    if isinstance(t, ast.Name):
                        ci.attrs[t.id] = stmt.value
            elif isinstance(stmt, ast.AnnAssign) and isinstance(stmt.target, ast.Name):
                if stmt.value is not None:
                    ci.attrs[stmt.target.id] = stmt.value
        return ci


class Model:
    MIN_MODULES = 30

    def __init__(self, root: Optional[Path] = None):
        self.root = Path(root) if root else src_root()
        if not self.root.is_dir():
            raise AnalysisError(f"source root {self.root} does not exist")
        self.modules: Dict[str, Module] = {}
        for p in sorted(self.root.rglob("*.py")):
            m = Module(p, self.root)
            self.modules[m.name] = m
        if len(self.modules) < self.MIN_MODULES:
            raise AnalysisError(f"only {len(self.modules)} modules parsed under {self.root}")
        self.classes: Dict[str, ClassInfo] = {}
        self.duplicate_classes: Dict[str, List[ClassInfo]] = {}
        for m in self.modules.values():
            for c in m.classes.values():
                if c.name in self.classes:
                    # duplicate class names matter for find_subclass; keep first, record
                    self.duplicate_classes.setdefault(c.name, []).append(c)
                else:
                    self.classes[c.name] = c
        for c in list(self.classes.values()):
            for b in c.node.bases:
                r = self.resolve_class_expr(c.module, b)
                if r is not None:
                    c.bases.append(r)
        self._mro: Dict[str, List[ClassInfo]] = {}

    # -- lookup -------------------------------------------------------------
    def module(self, short: str) -> Module:
        name = "physt" if short in ("", "physt") else "physt." + short
        if name not in self.modules:
            raise AnalysisError(f"module {name} not found (anchor vanished)")
        return self.modules[name]

    def func(self, short_module: str, name: str) -> FuncInfo:
        m = self.module(short_module)
        if name not in m.functions:
            raise AnalysisError(f"function {short_module}.{name} not found (anchor vanished)")
        return m.functions[name]

    def cls(self, name: str) -> ClassInfo:
        if name not in self.classes:
            raise AnalysisError(f"class {name} not found (anchor vanished)")
        return self.classes[name]

    def resolve_name(self, module: Module, name: str):
        """Resolve a bare name used in `module` to a ClassInfo / FuncInfo / Module / None."""
        seen = set()
        while True:
            key = (module.name, name)
            if key in seen:
                return None
            seen.add(key)
            if name in module.classes:
                return module.classes[name]
            if name in module.functions:
                return module.functions[name]
            if name in module.imports:
                mod, attr = module.imports[name]
                if attr is None:
                    return self.modules.get(mod)
                full = f"{mod}.{attr}"
                if full in self.modules:
                    return self.modules[full]
                if mod in self.modules:
                    module, name = self.modules[mod], attr
                    continue
                return None
            if name in module.assigns:
                return ("assign", module, name, module.assigns[name])
            return None

    def resolve_class_expr(self, module: Module, expr: ast.expr) -> Optional[ClassInfo]:
        if isinstance(expr, ast.Name):
            r = self.resolve_name(module, expr.id)
            return r if isinstance(r, ClassInfo) else None
        if isinstance(expr, ast.Attribute) and isinstance(expr.value, ast.Name):
            r = self.resolve_name(module, expr.value.id)
            if isinstance(r, Module) and expr.attr in r.classes:
                return r.classes[expr.attr]
        if isinstance(expr, ast.Constant) and isinstance(expr.value, str):
            return self.classes.get(expr.value)
        return None

    def resolve_func_expr(self, module: Module, expr: ast.expr):
        """Resolve `f` / `mod.f` used as a callee to FuncInfo or ClassInfo."""
        if isinstance(expr, ast.Name):
            r = self.resolve_name(module, expr.id)
            if isinstance(r, (FuncInfo, ClassInfo)):
                return r
            if isinstance(r, tuple):  # alias assignment  histogram = h1
                _, m, _, val = r
                if isinstance(val, (ast.Name, ast.Attribute)):
                    return self.resolve_func_expr(m, val)
            return None
        if isinstance(expr, ast.Attribute) and isinstance(expr.value, ast.Name):
            r = self.resolve_name(module, expr.value.id)
            if isinstance(r, Module):
                if expr.attr in r.functions:
                    return r.functions[expr.attr]
                if expr.attr in r.classes:
                    return r.classes[expr.attr]
                rr = self.resolve_name(r, expr.attr)
                if isinstance(rr, (FuncInfo, ClassInfo)):
                    return rr
        return None

    # -- MRO ------------------------------------------------------------------
    def mro(self, c: ClassInfo) -> List[ClassInfo]:
        if c.name in self._mro:
            return self._mro[c.name]
        seqs = [self.mro(b)[:] for b in c.bases] + [c.bases[:]]
        res = [c]
        while True:
            seqs = [s for s in seqs if s]
            if not seqs:
                break
            for s in seqs:
                cand = s[0]
                if not any(cand in t[1:] for t in seqs):
                    break
            else:
                raise AnalysisError(f"inconsistent MRO for {c.name}")
            res.append(cand)
            for s in seqs:
                if s and s[0] is cand:
                    del s[0]
        self._mro[c.name] = res
        return res

    def subclasses(self, base: ClassInfo, strict: bool = True) -> List[ClassInfo]:
        out = []
        for c in self.classes.values():
            if base in self.mro(c) and (not strict or c is not base):
                out.append(c)
        return out

    def is_subclass(self, c: ClassInfo, base_name: str) -> bool:
        return any(k.name == base_name for k in self.mro(c))

    def resolve_method(self, c: ClassInfo, name: str, after: Optional[ClassInfo] = None):
        """(defining class, FuncInfo) of method `name` seen from class c (after `after` for super())."""
        mro = self.mro(c)
        if after is not None:
            mro = mro[mro.index(after) + 1 :]
        for k in mro:
            if name in k.methods:
                return k, k.methods[name]
        return None

    def resolve_getter(self, c: ClassInfo, name: str, after: Optional[ClassInfo] = None):
        mro = self.mro(c)
        if after is not None:
            mro = mro[mro.index(after) + 1 :]
        for k in mro:
            if name in k.getters:
                return k, k.getters[name]
            if name in k.methods or name in k.attrs:
                return None
        return None

    def resolve_setter(self, c: ClassInfo, name: str):
        for k in self.mro(c):
            if name in k.setters:
                return k, k.setters[name]
            if name in k.getters:
                # property without setter in the most derived definition
                continue
        return None

    def resolve_attr(self, c: ClassInfo, name: str):
        """Class-level attribute value as seen from c: (defining class, ast expr) or None."""
        for k in self.mro(c):
            if name in k.attrs:
                return k, k.attrs[name]
            if name in k.getters or name in k.methods:
                return None
        return None

    def all_funcs(self) -> Iterator[FuncInfo]:
        for m in self.modules.values():
            yield from m.all_functions
            for c in m.classes.values():
                yield from c.methods.values()
                yield from c.getters.values()
                yield from c.setters.values()

    def concrete_histogram_classes(self) -> List[ClassInfo]:
        base = self.cls("HistogramBase")
        return [c for c in self.subclasses(base) if c.name not in ("HistogramBase",)]


def walk_no_nested(node: ast.AST) -> Iterator[ast.AST]:
    """ast.walk that does not descend into nested function / class / lambda bodies."""
    todo = [node]
    first = True
    while todo:
        n = todo.pop()
        if not first and isinstance(n, (ast.FunctionDef, ast.AsyncFunctionDef, ast.ClassDef, ast.Lambda)):
            continue
        first = False
        yield n
        todo.extend(reversed(list(ast.iter_child_nodes(n))))


def calls_in(node: ast.AST) -> List[ast.Call]:
    return [n for n in walk_no_nested(node) if isinstance(n, ast.Call)]


def callee_name(call: ast.Call) -> str:
    return unparse(call.func)


def kwarg(call: ast.Call, name: str) -> Optional[ast.expr]:
    for k in call.keywords:
        if k.arg == name:
            return k.value
    return None


def arg_or_kw(call: ast.Call, pos: int, name: str) -> Optional[ast.expr]:
    k = kwarg(call, name)
    if k is not None:
        return k
    if pos is not None and pos < len(call.args) and not any(isinstance(a, ast.Starred) for a in call.args[: pos + 1]):
        return call.args[pos]
    return None


def is_self_attr(node: ast.AST, attr: Optional[str] = None, obj: str = "self") -> bool:
    return (
        isinstance(node, ast.Attribute)
        and isinstance(node.value, ast.Name)
        and node.value.id == obj
        and (attr is None or node.attr == attr)
    )
