"""Behaviour-preserving rewrites of the whole source tree ("twins").

A checker that fires on a twin depends on layout or local naming, i.e. it would
raise false alarms on harmless refactors.  Twins are produced by AST
transformations that provably keep behaviour:

  unparse   every module re-emitted with ast.unparse (comments, formatting, line numbers gone)
  rename    every function-local variable that is not a parameter, not global/nonlocal, not
            captured by a nested scope and not a comprehension variable is renamed `<name>_tw`
  pad       a `pass` statement is inserted at the top of every function body (all positions shift)
  reorder   module-level `def`s that are not decorated and not referenced at module level are
            emitted in reverse order (definition order of independent functions is irrelevant)
"""
from __future__ import annotations

import ast
import shutil
from pathlib import Path


def _locals_to_rename(fn):
    from .canon import local_names
    return set(local_names(fn))


def _rename(tree):
    # apply to every function (outermost first; nested ones get their own pass)
    for node in ast.walk(tree):
        if isinstance(node, (ast.FunctionDef, ast.AsyncFunctionDef)):
            names = _locals_to_rename(node)
            if not names:
                continue

            def rn(n, top=True):
                for ch in ast.iter_child_nodes(n):
                    if isinstance(ch, (ast.FunctionDef, ast.AsyncFunctionDef, ast.Lambda, ast.ClassDef)):
                        continue
                    if isinstance(ch, ast.Name) and ch.id in names:
                        ch.id = "tw_" + ch.id
                    rn(ch, False)
            for s in node.body:
                if isinstance(s, ast.Name) and s.id in names:
                    s.id = "tw_" + s.id
                rn(s)
            # statements directly in body that are Name exprs handled above; also top-level targets:
            for s in node.body:
                for t in ast.iter_child_nodes(s):
                    pass
    return tree


def _pad(tree):
    for node in ast.walk(tree):
        if isinstance(node, (ast.FunctionDef, ast.AsyncFunctionDef)):
            i = 1 if (node.body and isinstance(node.body[0], ast.Expr) and isinstance(node.body[0].value, ast.Constant)
                      and isinstance(node.body[0].value.value, str)) else 0
            node.body.insert(i, ast.Pass())
    return tree


def _kwshuffle(tree):
    """Reverse the order of the named keyword arguments of every call (evaluation order of pure arguments is irrelevant)."""
    for node in ast.walk(tree):
        if isinstance(node, ast.Call) and sum(1 for k in node.keywords if k.arg) > 1:
            named = [k for k in node.keywords if k.arg]
            named.reverse()
            it = iter(named)
            node.keywords = [next(it) if k.arg else k for k in node.keywords]
    return tree


def _ifswap(tree):
    """`if c: A else: B`  ->  `if not c: B else: A`  (plain if/else only, not elif chains)."""
    for node in ast.walk(tree):
        if isinstance(node, ast.If) and node.orelse and not (len(node.orelse) == 1 and isinstance(node.orelse[0], ast.If)):
            t = node.test
            node.test = t.operand if isinstance(t, ast.UnaryOp) and isinstance(t.op, ast.Not) else ast.UnaryOp(op=ast.Not(), operand=t)
            node.body, node.orelse = node.orelse, node.body
    return tree


def _nodoc(tree):
    """Remove every docstring (function, class, module)."""
    for node in ast.walk(tree):
        if isinstance(node, (ast.FunctionDef, ast.AsyncFunctionDef, ast.ClassDef, ast.Module)):
            b = node.body
            if b and isinstance(b[0], ast.Expr) and isinstance(b[0].value, ast.Constant) and isinstance(b[0].value.value, str):
                node.body = b[1:] or [ast.Pass()]
    return tree


def _pure(e):
    return not any(isinstance(n, (ast.Call, ast.Yield, ast.YieldFrom, ast.Await, ast.NamedExpr, ast.Subscript, ast.Attribute)) for n in ast.walk(e))


def _swapassign(tree):
    """Swap adjacent `a = <pure expr>; b = <pure expr>` (plain names, no calls / attribute / subscript reads, no mutual use)."""
    for node in ast.walk(tree):
        for field in ("body", "orelse", "finalbody"):
            v = getattr(node, field, None)
            if not isinstance(v, list):
                continue
            i = 0
            while i + 1 < len(v):
                a, b = v[i], v[i + 1]
                if (isinstance(a, ast.Assign) and isinstance(b, ast.Assign) and len(a.targets) == 1 and len(b.targets) == 1
                        and isinstance(a.targets[0], ast.Name) and isinstance(b.targets[0], ast.Name) and a.targets[0].id != b.targets[0].id
                        and _pure(a.value) and _pure(b.value)
                        and a.targets[0].id not in {n.id for n in ast.walk(b.value) if isinstance(n, ast.Name)}
                        and b.targets[0].id not in {n.id for n in ast.walk(a.value) if isinstance(n, ast.Name)}):
                    v[i], v[i + 1] = b, a
                    i += 2
                else:
                    i += 1
    return tree


KINDS = {"unparse": lambda t: t, "rename": _rename, "pad": _pad, "kwshuffle": _kwshuffle, "ifswap": _ifswap,
         "nodoc": _nodoc, "swapassign": _swapassign}


def make_twin(src: Path, dst: Path, kind: str) -> int:
    """Copy the package at `src` to `dst` applying the twin transformation; returns #modules rewritten."""
    if dst.exists():
        shutil.rmtree(dst)
    shutil.copytree(src, dst)
    n = 0
    for p in sorted(dst.rglob("*.py")):
        text = p.read_text()
        tree = ast.parse(text)
        tree = KINDS[kind](tree)
        ast.fix_missing_locations(tree)
        out = ast.unparse(tree)
        compile(out, str(p), "exec")
        p.write_text(out + "\n")
        n += 1
    return n
