#!/venv/bin/python
"""Self-test of the checkers (mutants must fire, twins must stay silent). See selftest/ ."""
if __name__ == "__main__":
    import sys
    from sa import selftest_impl
    sys.exit(selftest_impl.main(sys.argv[1:]))
