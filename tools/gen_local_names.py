#!/venv/bin/python
"""Regenerate sa/local_names.json (reference local names + skeleton hashes) from /repo/src/physt."""
import json, sys
from pathlib import Path
sys.path.insert(0, str(Path(__file__).resolve().parent.parent))
from sa import canon
for _ in range(2):     # second pass: fingerprints computed with the package-wide signatures the first pass recorded
    d = canon.generate(Path("/repo/src/physt"))
    canon.REF.write_text(json.dumps(d, indent=0, sort_keys=True))
    canon._cache = None
print(sum(len(v) for k, v in d.items() if not k.startswith("__")), "functions with locals recorded")
