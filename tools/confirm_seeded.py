#!/venv/bin/python
"""Confirm candidate mutations independently and file the confirmed ones under /verif/seeded/.

For each /tmp/mut/out/CNN/patch<k>.diff: in a scratch git worktree of /repo (under /tmp, removed afterwards)
  1. the demonstration exits 0 on the clean tree,
  2. the patch applies, the demonstration exits 1 with it,
  3. the unedited test suite still passes with it.
Confirmed changes are stored as seeded/CNN-<k>/{patch.diff, demo.py, meta.json}.
"""
import json
import os
import shutil
import subprocess
import sys
from concurrent.futures import ThreadPoolExecutor
from pathlib import Path

OUT = Path(os.environ.get("SEED_SRC", "/tmp/mut/out"))
OFFSET = int(os.environ.get("SEED_OFFSET", "0"))
SEEDED = Path("/verif/seeded")


def sh(cmd, cwd=None, env=None, timeout=900):
    return subprocess.run(cmd, shell=True, cwd=cwd, env=env, capture_output=True, text=True, timeout=timeout)


def confirm(pid, k):
    src = OUT / pid
    patch, demo, meta = src / f"patch{k}.diff", src / f"demo{k}.py", src / f"meta{k}.json"
    if not (patch.exists() and demo.exists()):
        return pid, k, "missing files"
    wt = Path(f"/tmp/seedcheck/{pid}-{k}")
    if wt.exists():
        sh(f"git -C /repo worktree remove --force {wt}")
    wt.parent.mkdir(parents=True, exist_ok=True)
    r = sh(f"git -C /repo worktree add --detach {wt} HEAD -q")
    if r.returncode:
        return pid, k, "worktree failed: " + r.stderr
    env = dict(os.environ, PYTHONPATH=str(wt / "src"), HYPOTHESIS_STORAGE_DIRECTORY=f"/tmp/seedcheck/hyp-{pid}-{k}")
    try:
        clean = sh(f"/venv/bin/python {demo}", cwd=wt, env=env)
        ap = sh(f"git apply {patch}", cwd=wt)
        if ap.returncode:
            return pid, k, "patch does not apply: " + ap.stderr[:200]
        mut = sh(f"/venv/bin/python {demo}", cwd=wt, env=env)
        tests = sh("/venv/bin/python -m pytest -p no:cacheprovider -q -x 2>&1 | tail -3", cwd=wt, env=env)
        summary = [l for l in tests.stdout.splitlines() if "passed" in l or "failed" in l]
        ok_tests = bool(summary) and "failed" not in summary[-1] and "passed" in summary[-1]
        if not ok_tests:  # hypothesis health checks are flaky under load: one retry
            tests = sh("/venv/bin/python -m pytest -p no:cacheprovider -q -x 2>&1 | tail -3", cwd=wt, env=env)
            summary = [l for l in tests.stdout.splitlines() if "passed" in l or "failed" in l]
            ok_tests = bool(summary) and "failed" not in summary[-1] and "passed" in summary[-1]
        verdict = dict(demo_clean_exit=clean.returncode, demo_mutated_exit=mut.returncode, tests=summary[-1] if summary else tests.stdout[-200:])
        good = clean.returncode == 0 and mut.returncode == 1 and ok_tests
        if good:
            d = SEEDED / f"{pid}-{k + OFFSET}"
            d.mkdir(parents=True, exist_ok=True)
            shutil.copy(patch, d / "patch.diff")
            shutil.copy(demo, d / "demo.py")
            m = json.loads(meta.read_text()) if meta.exists() else {}
            head = sh("git -C /repo rev-parse --short HEAD").stdout.strip()
            m.update(property=pid, confirmed=dict(verdict, base_commit=head,
                     ran=["demo on clean worktree (exit 0)", "git apply patch.diff", "demo with patch (exit 1)",
                          "/venv/bin/python -m pytest -p no:cacheprovider -q -x (unedited suite passes)"]),
                     author="independent sub-agent given only the property text and its own worktree")
            (d / "meta.json").write_text(json.dumps(m, indent=1))
        return pid, k, ("CONFIRMED " if good else "REJECTED ") + json.dumps(verdict)
    finally:
        sh(f"git -C /repo worktree remove --force {wt}")
        shutil.rmtree(f"/tmp/seedcheck/hyp-{pid}-{k}", ignore_errors=True)


if __name__ == "__main__":
    jobs = [(f"C{i:02d}", k) for i in range(1, 21) for k in (1, 2)]
    if len(sys.argv) > 1:
        jobs = [(a.split("-")[0], int(a.split("-")[1])) for a in sys.argv[1:]]
    with ThreadPoolExecutor(int(os.environ.get("SEED_JOBS", "6"))) as ex:
        for pid, k, msg in ex.map(lambda j: confirm(*j), jobs):
            print(pid, k, msg, flush=True)
