#!/venv/bin/python
"""Generate sa/contract.json (option defaults + refusals of the anchored functions) from the CURRENT tree.

Run only after the tree was confirmed (all checks pass, findings triaged); the check itself never writes the table.
Owners: a function belongs to every property whose anchor ranges (properties.jsonl, line numbers of the pinned commit
53e7c6a) overlap it in the pinned source; functions no anchor names belong to their module's default property.
"""
import ast
import json
import re
import subprocess
import sys
from pathlib import Path

VERIF = Path(__file__).resolve().parent.parent
sys.path.insert(0, str(VERIF))
from sa.model import Model  # noqa: E402
from sa import contract  # noqa: E402

PINNED = "53e7c6a"


def pinned_ranges():
    """qualname-ish (class.func / func) -> (file, lo, hi) in the pinned commit."""
    out = {}
    files = subprocess.run(["git", "-C", "/repo", "ls-tree", "-r", "--name-only", PINNED, "src/physt"], capture_output=True, text=True).stdout.split()
    for f in files:
        if not f.endswith(".py"):
            continue
        src = subprocess.run(["git", "-C", "/repo", "show", f"{PINNED}:{f}"], capture_output=True, text=True).stdout
        try:
            tree = ast.parse(src)
        except SyntaxError:
            continue

        def walk(node, prefix):
            for ch in ast.iter_child_nodes(node):
                if isinstance(ch, ast.ClassDef):
                    walk(ch, ch.name + ".")
                elif isinstance(ch, (ast.FunctionDef, ast.AsyncFunctionDef)):
                    lo = min([ch.lineno] + [d.lineno for d in ch.decorator_list])
                    out.setdefault((f, prefix + ch.name), []).append((lo, ch.end_lineno))
        walk(tree, "")
    return out


def anchor_ranges():
    res = []
    for l in open(VERIF / "properties.jsonl"):
        d = json.loads(l)
        for a in d["anchors"]["mechanism"]:
            for part in a["where"].split(";"):
                part = part.strip()
                m = re.match(r"(\S+?):(.*)$", part)
                if not m:
                    continue
                f, rngs = m.group(1), m.group(2)
                for r in rngs.split(","):
                    r = r.strip()
                    if not r:
                        continue
                    lo, _, hi = r.partition("-")
                    res.append((d["id"], f, int(lo), int(hi or lo)))
    return res


def main():
    m = Model(Path("/repo/src/physt"))
    pr = pinned_ranges()
    anchors = anchor_ranges()
    functions = {}
    dropped = 0
    for fi in m.all_funcs():
        short = fi.module.short
        if short in contract.SKIP_MODULES or short.startswith(("plotting.vega", "plotting.folium")):
            continue
        if contract.is_stub(fi):
            continue
        key = contract.func_key(fi)
        rel = "src/physt/" + fi.module.relpath.split("src/physt/")[-1] if "src/physt/" in fi.module.relpath else fi.module.relpath
        local = (fi.cls.name + "." if fi.cls is not None else "") + fi.name
        owners = set()
        for (f, q), rngs in pr.items():
            if f == rel and q == local:
                for lo, hi in rngs:
                    for pid, af, alo, ahi in anchors:
                        if af == f and alo <= hi and lo <= ahi:
                            owners.add(pid)
        if not owners:
            owners = set(contract.MODULE_OWNER.get(short, []))
        owners |= set(contract.EXTRA_OWNERS.get(key, []))
        if not owners:
            continue
        defaults = contract.defaults_of(fi)
        refusals = []
        for r in contract.refusals_of(fi):
            if contract.check_refusal(fi, r):
                dropped += 1      # ambiguous on today's tree (same guard text used twice ...): not recorded
                continue
            refusals.append(r)
        kwo = contract.kw_options_of(fi)
        reb = contract.rebinds_of(fi)
        decs = contract.decorators_of(fi)
        if not defaults and not refusals and not kwo and not reb and not decs and short not in ("io.json", "io.util", "io.version"):
            continue
        if key in functions:       # duplicate key (two overloads with equal annotation): keep the first, skip
            continue
        functions[key] = dict(owners=sorted(owners), defaults=defaults, refusals=refusals, kw_options=kwo, rebinds=reb, decorators=decs)
    head = subprocess.run(["git", "-C", "/repo", "rev-parse", "--short", "HEAD"], capture_output=True, text=True).stdout.strip()
    # every function some property's rules consulted on this tree (used to tell a NEW override from a known, analysed one)
    import importlib
    from sa.report import Ctx
    analysed = set()
    for i in range(1, 21):
        pid = f"C{i:02d}"
        ctx = Ctx(m, pid, "quick")
        importlib.import_module(f"rules.{pid.lower()}").run(ctx)
        analysed |= set(ctx.analysed_functions)
    out = dict(generated_from=head, note="API census: see sa/contract.py", functions=functions, analysed=sorted(analysed))
    contract.TABLE.write_text(json.dumps(out, indent=1, sort_keys=True) + "\n")
    nd = sum(len(v["defaults"]) for v in functions.values())
    nr = sum(len(v["refusals"]) for v in functions.values())
    byp = {}
    for v in functions.values():
        for p in v["owners"]:
            byp[p] = byp.get(p, 0) + 1
    nk = sum(len(v.get("kw_options", {})) for v in functions.values())
    print(f"{len(functions)} functions, {nd} defaults, {nk} keyword options, {nr} refusals recorded ({dropped} ambiguous refusals not recorded)")
    print(sorted(byp.items()))


if __name__ == "__main__":
    main()
