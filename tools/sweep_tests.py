#!/venv/bin/python
"""Second stage of tools/sweep.py: which of the mutants no check noticed also pass physt's own test suite?

Only those are candidates for "a realistic change that breaks a property while the tests stay green"; they are read one
by one afterwards.  Development aid, not a registered check; scratch copies live under a temporary directory.

usage: sweep_tests.py --in /tmp/sweep/all.jsonl --out /tmp/sweep/green.jsonl [--files a.py,b.py] [--jobs N]
"""
from __future__ import annotations

import argparse
import ast
import json
import os
import shutil
import subprocess
import sys
import tempfile
from multiprocessing import Pool
from pathlib import Path

sys.path.insert(0, str(Path(__file__).resolve().parent))
import sweep  # noqa: E402

REPO = Path("/repo")
_W = {}


def _init():
    d = Path(tempfile.mkdtemp(prefix="physt-sweept-"))
    shutil.copytree(REPO / "src", d / "src")
    shutil.copytree(REPO / "tests", d / "tests")
    for f in ("pyproject.toml", "setup.cfg", "conftest.py", "pytest.ini", "tox.ini"):
        if (REPO / f).exists():
            shutil.copy(REPO / f, d / f)
    _W["dir"] = d
    import atexit
    atexit.register(lambda: shutil.rmtree(d, ignore_errors=True))


def _task(job):
    rel, kind, path, rec = job
    d = _W["dir"]
    f = d / "src" / "physt" / rel
    orig = (sweep.SRC / rel).read_text()
    t, _, _ = sweep.apply(ast.parse(orig), kind, path)
    f.write_text(ast.unparse(t))
    env = dict(os.environ, PYTHONPATH=str(d / "src"), HYPOTHESIS_STORAGE_DIRECTORY=str(d / "hyp"))
    try:
        r = subprocess.run(["/venv/bin/python", "-m", "pytest", "-x", "-q", "-p", "no:cacheprovider", "--timeout=300",
                            "--deselect", "tests/test_histogram1d.py::TestFillN::test_increases_total_by_zero_or_weight"],
                           cwd=d, env=env, capture_output=True, text=True, timeout=900)
        tail = [l for l in r.stdout.splitlines() if " passed" in l or " failed" in l or "error" in l.lower()][-1:]
        green = r.returncode == 0
    except subprocess.TimeoutExpired:
        tail, green = ["timeout"], False
    finally:
        f.write_text(orig)
        shutil.rmtree(d / "hyp", ignore_errors=True)
    rec = dict(rec, tests_green=green, tests=(tail[0][:100] if tail else ""))
    return rec


def main():
    ap = argparse.ArgumentParser()
    ap.add_argument("--in", dest="inp", default="/tmp/sweep/all.jsonl")
    ap.add_argument("--out", default="/tmp/sweep/green.jsonl")
    ap.add_argument("--files", default="")
    ap.add_argument("--jobs", type=int, default=12)
    a = ap.parse_args()
    surv = {}
    for l in open(a.inp):
        r = json.loads(l)
        if not r["caught_by"] and (not a.files or r["file"] in a.files.split(",")):
            surv[(r["file"], r["kind"], r["line"], r["before"], r["after"])] = r
    jobs = []
    for rel in sorted({k[0] for k in surv}):
        tree = ast.parse((sweep.SRC / rel).read_text())
        for kind, path, func in sweep.sites(tree):
            try:
                t, before, after = sweep.apply(tree, kind, path)
            except Exception:  # noqa
                continue
            node = sweep.locate(tree, path)
            line = getattr(node[2], "lineno", None) or getattr(node[0], "lineno", 0)
            rec = surv.get((rel, kind, line, before, after))
            if rec is not None:
                jobs.append((rel, kind, path, rec))
    print(f"{len(jobs)} survivors to test", flush=True)
    n = g = 0
    with Pool(a.jobs, initializer=_init) as pool, open(a.out, "w") as out:
        for r in pool.imap_unordered(_task, jobs, chunksize=1):
            n += 1
            g += r["tests_green"]
            out.write(json.dumps(r) + "\n")
            out.flush()
            if n % 100 == 0:
                print(f"{n}/{len(jobs)} tested, {g} green", flush=True)
    print(f"done: {n} tested, {g} pass the suite -> {a.out}")


if __name__ == "__main__":
    main()
