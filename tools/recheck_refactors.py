#!/venv/bin/python
"""Run every check on every confirmed behaviour-preserving refactoring in /verif/refactors (must all stay silent)."""
import json
import shutil
import subprocess
import sys
import tempfile
from concurrent.futures import ThreadPoolExecutor
from pathlib import Path

VERIF = Path(__file__).resolve().parent.parent
ALL = [f"C{i:02d}" for i in range(1, 21)]


def one(d):
    tmp = Path(tempfile.mkdtemp(prefix="physt-ref-"))
    try:
        (tmp / "src").mkdir()
        shutil.copytree("/repo/src/physt", tmp / "src" / "physt")
        r = subprocess.run(["patch", "-p1", "-s", "--no-backup-if-mismatch", "-i", str(d / "patch.diff")], cwd=tmp, capture_output=True)
        if r.returncode:
            return d.name, None
        fired = {}
        for p in ALL:
            r = subprocess.run(["/venv/bin/python", str(VERIF / "check.py"), p, "--src", str(tmp / "src" / "physt"), "--no-evidence"],
                               capture_output=True, text=True, cwd=VERIF)
            if r.returncode != 0:
                fired[p] = [l.strip()[10:] for l in r.stdout.splitlines() if l.strip().startswith("instance:")] or \
                    [l[:120] for l in r.stdout.splitlines() if "ANALYSIS-ERROR" in l][:1]
        return d.name, fired
    finally:
        shutil.rmtree(tmp, ignore_errors=True)


def main():
    dirs = sorted(p for p in (VERIF / "refactors").iterdir() if p.is_dir())
    names = [a_ for a_ in sys.argv[1:] if not a_.startswith("--")]
    if names:
        dirs = [d for d in dirs if d.name in names]
    silent = 0
    with ThreadPoolExecutor(16) as ex:
        res = list(ex.map(one, dirs))
    for name, fired in res:
        if fired is None:
            print(name, "patch does not apply")
        elif fired:
            print(name, json.dumps(fired)[:400])
        else:
            silent += 1
    print(f"{len(res)} refactorings, {silent} silent, {len(res) - silent} with false alarms")
    if "--record" in sys.argv:
        (VERIF / "refactors" / "SILENT.json").write_text(json.dumps(sorted(n for n, f in res if f is not None and not f), indent=0))


if __name__ == "__main__":
    main()
