#!/venv/bin/python
"""Run checks against a mutated scratch copy of /repo/src/physt (never touches /repo).

usage: trymut.py PATCH [PROP ...]     (PROP defaults to all properties with rules)
Prints per property: exit code and the VIOLATION instance lines.
"""
import shutil
import subprocess
import sys
import tempfile
from pathlib import Path

VERIF = Path(__file__).resolve().parent.parent


def run(patch, props):
    tmp = Path(tempfile.mkdtemp(prefix="trymut-", dir="/tmp"))
    try:
        (tmp / "src").mkdir()
        shutil.copytree("/repo/src/physt", tmp / "src" / "physt")
        r = subprocess.run(["patch", "-p1", "-s", "-i", str(Path(patch).resolve())], cwd=tmp, capture_output=True, text=True)
        if r.returncode != 0:
            print("PATCH FAILED", r.stdout, r.stderr)
            return {}
        out = {}
        for p in props:
            r = subprocess.run(["/venv/bin/python", str(VERIF / "check.py"), p, "--src", str(tmp / "src" / "physt"), "--no-evidence"],
                               capture_output=True, text=True, cwd=VERIF)
            lines = [l for l in r.stdout.splitlines() if "VIOLATED" in l or l.strip().startswith("instance:") or "ANALYSIS-ERROR" in l]
            out[p] = (r.returncode, lines)
        return out
    finally:
        shutil.rmtree(tmp, ignore_errors=True)


if __name__ == "__main__":
    patch = sys.argv[1]
    props = sys.argv[2:] or sorted(p.stem.upper() for p in (VERIF / "rules").glob("c[0-9][0-9].py"))
    res = run(patch, props)
    caught = [p for p, (rc, _) in res.items() if rc == 1]
    for p, (rc, lines) in res.items():
        if rc != 0:
            print(f"  {p}: exit {rc}")
            for l in lines[:6]:
                print("     ", l.strip()[:220])
    print(f"{patch}: caught by {caught or 'NONE'}")
