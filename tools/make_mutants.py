#!/venv/bin/python
"""Generate hand-written breaking variants (selftest/mutants/*.diff) from exact (old, new) replacements.

Each entry: name, file (relative to src/physt), old text, new text, properties whose check must fire.
The variants are diffs against the current /repo tree; the script verifies that `old` occurs exactly once and
that the mutated module still parses.  Run by hand when the corpus is extended; results are committed.
"""
import ast
import difflib
import json
import sys
from pathlib import Path

VERIF = Path(__file__).resolve().parent.parent
SRC = Path("/repo/src/physt")

M = [
    ("c19a_cached_flag_module_level", "histogram_base.py",
     "from physt.statistics import INVALID_STATISTICS\n",
     "from physt.statistics import INVALID_STATISTICS\n\n_FREE = config.free_arithmetics\n", ["C19"]),
    ("c19a_attribute_instead_of_contextvar", "config.py",
     "        var = contextvars.ContextVar(name, default=default)\n        setattr(self, name, var)\n",
     "        setattr(self, name, default)\n", ["C19"]),
    ("c19b_reset_outside_finally", "config.py",
     "        try:\n            yield\n        finally:\n            getattr(self, name).reset(token)\n",
     "        yield\n        getattr(self, name).reset(token)\n", ["C19"]),
    ("c19c_unguarded_array_branch_imul", "histogram_base.py",
     "        elif config.free_arithmetics:  # Treat other as array-like\n            array = np.asarray(other)\n            self._coerce_dtype(array.dtype)\n            self.frequencies = self.frequencies * array\n",
     "        elif True:  # Treat other as array-like\n            array = np.asarray(other)\n            self._coerce_dtype(array.dtype)\n            self.frequencies = self.frequencies * array\n", ["C19"]),
    ("c19d_manager_without_with", "plotting/matplotlib.py",
     "    with config.enable_free_arithmetics():\n        bar(first * (-1), color=color1, ax=ax, ylim=\"keep\", **kwargs)\n",
     "    config.enable_free_arithmetics().__enter__()\n    bar(first * (-1), color=color1, ax=ax, ylim=\"keep\", **kwargs)\n", ["C19"]),
    ("c12c_class_level_dict_written", "special_histograms.py",
     "    @radius.setter\n    def radius(self, value):\n        self._meta_data[\"radius\"] = value\n",
     "    @radius.setter\n    def radius(self, value):\n        self.default_init_values[\"radius\"] = value\n        self._meta_data[\"radius\"] = value\n", ["C12"]),
    ("c12a_T_shares_binnings_list", "histogram_nd.py",
     "        a_copy = self.copy()\n        a_copy._binnings = list(reversed(a_copy._binnings))\n",
     "        a_copy = self.copy()\n        a_copy._binnings = list(reversed(self._binnings))\n", ["C12"]),
    ("c12a_accumulate_on_self", "histogram_nd.py",
     "        new_one = self.copy()\n        axis_id = self._get_axis(axis)\n",
     "        new_one = self\n        axis_id = self._get_axis(axis)\n", ["C12", "C09"]),
    ("c12a_collection_copy_shares_binning", "histogram_collection.py",
     "        binning_copy = self.binning.copy()\n", "        binning_copy = self.binning\n", ["C12"]),
    ("c10b_min_frequency_double_append", "histogram_base.py",
     "                    if current_sum > min_frequency:\n                        current_sum = 0\n                        current_new += 1\n",
     "                    if current_sum > min_frequency:\n                        current_sum = 0\n                        current_new += 2\n", ["C10"]),
    ("c10a_errors_not_reshaped", "histogram_base.py",
     "        self._frequencies = new_frequencies\n        self._errors2 = new_errors2\n",
     "        self._frequencies = new_frequencies\n", ["C10", "C18"]),
    ("c10a_wrong_axis_binning_installed", "histogram_base.py",
     "        self._reshape_data(new_binning.bin_count, bin_map, axis)\n        self._binnings[axis] = new_binning\n",
     "        self._reshape_data(new_binning.bin_count, bin_map, axis)\n        self._binnings[0] = new_binning\n", ["C10"]),
    ("c16a_polar_missing_half", "special_histograms.py",
     "        sizes = 0.5 * (\n            self.get_bin_right_edges(0) ** 2 - self.get_bin_left_edges(0) ** 2\n        )\n        sizes = np.outer(sizes, self.get_bin_widths(1))\n",
     "        sizes = (\n            self.get_bin_right_edges(0) ** 2 - self.get_bin_left_edges(0) ** 2\n        )\n        sizes = np.outer(sizes, self.get_bin_widths(1))\n", ["C16"]),
    ("c16a_spherical_cos_sign", "special_histograms.py",
     "        sizes2 = np.cos(self.get_bin_left_edges(1)) - np.cos(\n            self.get_bin_right_edges(1)\n        )\n        sizes3 = self.get_bin_widths(2)\n",
     "        sizes2 = np.cos(self.get_bin_right_edges(1)) - np.cos(\n            self.get_bin_left_edges(1)\n        )\n        sizes3 = self.get_bin_widths(2)\n", ["C16"]),
    ("c16a_nd_skips_last_axis", "histogram_nd.py",
     "        for i in range(1, self.ndim):\n            sizes = np.multiply.outer(sizes, self.get_bin_widths(i))\n",
     "        for i in range(1, self.ndim - 1):\n            sizes = np.multiply.outer(sizes, self.get_bin_widths(i))\n", ["C16"]),
    ("c16c_centers_from_widths", "histogram1d.py",
     "        return (self.bin_left_edges + self.bin_right_edges) / 2\n",
     "        return self.bin_left_edges + self.bin_right_edges / 2\n", ["C16"]),
    ("c09c_T_forgets_axis_names", "histogram_nd.py",
     "        a_copy.axis_names = tuple(reversed(a_copy.axis_names))\n", "", ["C09"]),
    ("c09a_invert_from_raw_axes", "histogram_nd.py",
     "        invert = (i for i in range(self.ndim) if i not in axes_)\n",
     "        invert = (i for i in range(self.ndim) if i not in axes)\n", ["C09"]),
    ("c09b_duplicates_accepted", "histogram_nd.py",
     "        if len(axes_) != len(set(axes_)):\n            raise ValueError(\"Duplicate axes in projection\")\n", "", ["C09"]),
    ("c20a_helper_normalizes_in_place", "plotting/ascii.py",
     "    data = (h1.normalize().frequencies * width).round().astype(int)\n",
     "    data = (h1.normalize(True).frequencies * width).round().astype(int)\n", ["C20"]),
    ("c20b_bar_plots_frequencies_for_density", "plotting/matplotlib.py",
     "    label = kwargs.pop(\"label\", h1.name)\n    lw = kwargs.pop(\"linewidth\", kwargs.pop(\"lw\", 0.5))\n    text_kwargs = pop_kwargs_with_prefix(\"text_\", kwargs)\n    stats_kwargs = pop_kwargs_with_prefix(\"stats_\", kwargs)\n\n    data = get_data(h1, cumulative=cumulative, density=density)\n",
     "    label = kwargs.pop(\"label\", h1.name)\n    lw = kwargs.pop(\"linewidth\", kwargs.pop(\"lw\", 0.5))\n    text_kwargs = pop_kwargs_with_prefix(\"text_\", kwargs)\n    stats_kwargs = pop_kwargs_with_prefix(\"stats_\", kwargs)\n\n    data = get_data(h1, cumulative=cumulative)\n", ["C20"]),
    ("c20b_scatter_at_left_edges", "plotting/matplotlib.py",
     "    ax.scatter(h1.bin_centers, data, label=label, **kwargs)\n", "    ax.scatter(h1.bin_left_edges, data, label=label, **kwargs)\n", ["C20"]),
    ("c20c_plotly_map_without_ndim_check", "plotting/plotly.py",
     "@enable_output\n@check_ndim(2)\ndef map(", "@enable_output\ndef map(", ["C20"]),
    ("c20b_get_err_density_not_divided", "plotting/common.py",
     "        data = histogram.errors / histogram.bin_sizes\n", "        data = histogram.errors\n", ["C20"]),
    ("c17a_polars_weights_registration_removed", "compat/polars.py",
     "@extract_weights.register\ndef _(data: polars.Series, array_mask: Optional[np.ndarray] = None) -> np.ndarray:\n",
     "def _polars_weights(data: polars.Series, array_mask: Optional[np.ndarray] = None) -> np.ndarray:\n", ["C17"]),
    ("c17d_accessor_drops_weights", "compat/pandas.py",
     "        return data.physt.h1(bins=bins, weights=weights, **kwargs)\n", "        return data.physt.h1(bins=bins, **kwargs)\n", ["C17"]),
    ("c17e_geant4_overflow_from_first_row", "compat/geant4.py",
     "        overflow=data[-1, 1],\n", "        overflow=data[0, 1],\n", ["C17"]),
    ("c17b_pandas_series_mask_polarity", "compat/pandas.py",
     "        array_mask = series.notna().values\n", "        array_mask = series.isna().values\n", ["C17"]),
    ("c08e_parse_json_skips_version_check", "io/json.py",
     "    return create_from_dict(data, format_name=\"JSON\")\n", "    return create_from_dict(data, format_name=\"JSON\", check_version=False)\n", ["C08"]),
    ("c08a_dtype_not_read", "histogram_base.py",
     "            \"dtype\": np.dtype(a_dict[\"dtype\"]),\n", "", ["C08"]),
    ("c08b_exponential_log_min_not_written", "binnings.py",
     "        a_dict[\"log_min\"] = self._log_min\n        a_dict[\"log_width\"] = self._log_width\n", "        a_dict[\"log_width\"] = self._log_width\n", ["C08"]),
    ("c13b_dtype_stored_without_arrays", "histogram_base.py",
     "        if new_dtype != self.dtype:\n            self.set_dtype(new_dtype)\n", "        if new_dtype != self.dtype:\n            self._dtype = new_dtype\n", ["C13"]),
    ("c13a_fill_without_coercion", "histogram_nd.py",
     "    def fill(self, value: ArrayLike, weight: float = 1, **kwargs):\n        self._coerce_dtype(type(weight))\n",
     "    def fill(self, value: ArrayLike, weight: float = 1, **kwargs):\n", ["C13"]),
    ("c04a_set_min_and_count_keeps_cache", "binnings.py",
     "        self._bin_count = bin_count\n        self._times_min = times_min\n        self._bins = None\n        self._numpy_bins = None\n",
     "        self._bin_count = bin_count\n        self._times_min = times_min\n        self._bins = None\n", ["C04"]),
    ("c04b_nd_fill_reshapes_axis0", "histogram_nd.py",
     "                bin_map = binning.force_bin_existence(value_array[i])\n                self._reshape_data(binning.bin_count, bin_map, i)\n",
     "                bin_map = binning.force_bin_existence(value_array[i])\n                self._reshape_data(binning.bin_count, bin_map, 0)\n", ["C04"]),
    ("c04c_returns_add_right_as_shift", "binnings.py",
     "                self._bins = None\n                self._numpy_bins = None\n                return add_left\n",
     "                self._bins = None\n                self._numpy_bins = None\n                return add_right\n", ["C04"]),
    ("c05a_missed_not_added", "histogram_base.py",
     "                self.errors2 = self.errors2 + other.errors2\n                self._missed += other._missed\n",
     "                self.errors2 = self.errors2 + other.errors2\n", ["C05"]),
    ("c05c_map2_applied_to_self", "histogram_base.py",
     "                    other._change_binning(new_bins, map2, axis=i)\n", "                    other._change_binning(new_bins, map1, axis=i)\n", ["C05"]),
    ("c05d_dask_sums_subset", "compat/dask.py",
     "    graph[result_name] = (sum, items)\n", "    graph[result_name] = (sum, items[:-1])\n", ["C05"]),
    ("c14c_add_keeps_median", "statistics.py",
     "            weight=self.weight + other.weight,\n            median=np.nan,\n", "            weight=self.weight + other.weight,\n            median=self.median,\n", ["C14"]),
    ("c14b_variance_wrong_formula", "statistics.py",
     "            return (self.sum2 - self.sum**2 / self.weight) / self.weight\n", "            return (self.sum2 - self.sum**2) / self.weight\n", ["C14"]),
    ("c14a_imul_array_keeps_stats", "histogram_base.py",
     "            self.errors2 = self.errors2 * array**2\n            if hasattr(self, \"_stats\"):\n                self._stats = INVALID_STATISTICS\n",
     "            self.errors2 = self.errors2 * array**2\n", ["C14", "C06"]),
    ("c06a_errors_scaled_linearly", "histogram_base.py",
     "            self.errors2 = self.errors2 * scalar**2\n", "            self.errors2 = self.errors2 * scalar\n", ["C06"]),
    ("c06b_percent_constant_asymmetric", "histogram_base.py",
     "            self /= self.total * (0.01 if percent else 1)\n", "            self /= self.total * (0.1 if percent else 1)\n", ["C06"]),
    ("c06a_missed_not_scaled_div", "histogram_base.py",
     "            self.errors2 = self.errors2 / other**2\n            self._missed /= other\n", "            self.errors2 = self.errors2 / other**2\n", ["C06"]),
    ("c03d_fill_n_swaps_under_over", "histogram1d.py",
     "            self.underflow += underflow\n            self.overflow += overflow\n", "            self.underflow += overflow\n            self.overflow += underflow\n", ["C03"]),
    ("c01a_overflow_from_left_stop", "_construction.py",
     "            stop = np.searchsorted(\n                data_array, bin[1], side=\"right\"\n            )  # TODO: Understand and explain\n            overflow = weights_array[stop:].sum()\n",
     "            overflow = weights_array[stop:].sum()\n            stop = np.searchsorted(\n                data_array, bin[1], side=\"right\"\n            )  # TODO: Understand and explain\n", ["C01", "C03"]),
    ("c01b_h1_mask_not_passed", "_facade.py",
     "    weights = extract_weights(weights, array_mask=array_mask)\n\n    binning = calculate_1d_bins(\n",
     "    weights = extract_weights(weights)\n\n    binning = calculate_1d_bins(\n", ["C01"]),
    ("c01c_h1_swaps_under_over", "_facade.py",
     "        underflow=underflow,\n        overflow=overflow,\n        dtype=dtype,\n", "        underflow=overflow,\n        overflow=underflow,\n        dtype=dtype,\n", ["C01"]),
    ("c02b_missing_before_mask", "_construction.py",
     "    frequencies = frequencies.astype(dtype)  # Automatically copy\n    frequencies = frequencies[ixgrid]\n    if weights is not None:\n        missing = weights.sum() - frequencies.sum()\n",
     "    frequencies = frequencies.astype(dtype)  # Automatically copy\n    if weights is not None:\n        missing = weights.sum() - frequencies.sum()\n        frequencies = frequencies[ixgrid]\n", ["C02"]),
    ("c02c_inf_edge_on_wrong_branch", "binnings.py",
     "        if not self.includes_right_edge:\n            edges = np.concatenate([edges, np.asarray([np.inf])])\n",
     "        if self.includes_right_edge:\n            edges = np.concatenate([edges, np.asarray([np.inf])])\n", ["C02"]),
    ("c11c_step_refusal_dropped", "histogram1d.py",
     "            if index.step:\n                raise IndexError(\"Cannot change the order of bins\")\n", "", ["C11"]),
    ("c11a_errors_indexed_differently", "histogram_nd.py",
     "        errors2 = self._errors2[tuple(array_index)].copy()\n", "        errors2 = self._errors2.copy()\n", ["C11"]),
    ("c15c_spherical_counts_raw_data", "special_histograms.py",
     "    return SphericalHistogram.from_calculate_frequencies(\n        transformed_array,\n", "    return SphericalHistogram.from_calculate_frequencies(\n        data,\n", ["C15"]),
    ("c15b_polar_swapped_arctan2", "special_histograms.py",
     "        result[..., 0] = np.hypot(value[..., 1], value[..., 0])\n        result[..., 1] = np.arctan2(value[..., 1], value[..., 0]) % (2 * np.pi)\n",
     "        result[..., 0] = np.hypot(value[..., 1], value[..., 0])\n        result[..., 1] = np.arctan2(value[..., 0], value[..., 1]) % (2 * np.pi)\n", ["C15"]),
    ("c15a_fill_n_transforms_twice", "special_histograms.py",
     "        if not transformed:\n            values = self.transform(values)\n        super().fill_n(values=values, weights=weights, dropna=dropna, **kwargs)  # type: ignore\n",
     "        if not transformed:\n            values = self.transform(values)\n        values = self.transform(values)\n        super().fill_n(values=values, weights=weights, dropna=dropna, **kwargs)  # type: ignore\n", ["C15"]),
    ("c18d_collection_add_unchecked", "histogram_collection.py",
     "        if self.binning and not self.binning == histogram.binning:\n            raise ValueError(\"Cannot add histogram with different binning.\")\n", "", ["C18"]),
    ("c18a_iadd_write_before_ndim_check", "histogram_base.py",
     "            if other.ndim != self.ndim:\n                raise ValueError(\"Cannot add histograms with different dimensions.\")\n            if self.has_same_bins(other):\n",
     "            self._missed += other._missed\n            if other.ndim != self.ndim:\n                raise ValueError(\"Cannot add histograms with different dimensions.\")\n            if self.has_same_bins(other):\n", ["C18"]),
    ("c07e_cache_mutated_in_place", "binnings.py",
     "        copy = self.copy()\n        copy._bins = self._bins[item]\n", "        copy = self.copy()\n        copy._bins[:] = self._bins[item]\n", ["C07"]),
    ("c07b_wrong_registry_key", "binnings.py",
     "@register_binning()\ndef quantile_binning(", "@register_binning(name=\"quantiles\")\ndef quantile_binning(", ["C07"]),
    ("c07d_last_edge_drifts", "binnings.py",
     "        return (self._times_min + self._bin_count) * self._bin_width + self._shift\n",
     "        return (self._times_min + self._bin_count) * self._bin_width\n", ["C07"]),
    ("c07a_is_rising_allows_empty_bins", "_bin_utils.py",
     "    if np.any(bins[:, 0] >= bins[:, 1]):\n", "    if np.any(bins[:, 0] > bins[:, 1]):\n", ["C07"]),
    ("c13e_coerce_takes_other_dtype", "histogram_base.py",
     "            new_dtype = np.promote_types(self._dtype, other_dtype)\n", "            new_dtype = np.dtype(other_dtype)\n", ["C13"]),
    ("c13e_eval_dtype_admits_bool", "histogram_base.py",
     "        if dtype.kind in \"iu\":\n", "        if dtype.kind in \"iub\":\n", ["C13"]),
    ("c13e_dtype_setter_unchecked", "histogram_base.py",
     "    def dtype(self, value: DTypeLike) -> None:\n        self.set_dtype(value)\n", "    def dtype(self, value: DTypeLike) -> None:\n        self.set_dtype(value, check=False)\n", ["C13"]),
    ("c13e_can_cast_reversed", "histogram_base.py",
     "np.can_cast(self.dtype, value)", "np.can_cast(value, self.dtype)", ["C13"]),
    ("c13e_check_default_off", "histogram_base.py",
     "    def set_dtype(self, value: DTypeLike, *, check: bool = True) -> None:\n", "    def set_dtype(self, value: DTypeLike, *, check: bool = False) -> None:\n", ["C13"]),
    ("c07b_pretty_candidates_include_3", "_bin_utils.py",
     "    subscales = np.array([0.5, 1, 2, 2.5, 5, 10])\n", "    subscales = np.array([0.5, 1, 2, 3, 5, 10])\n", ["C07"]),
    ("c07b_pretty_decade_rounded", "_bin_utils.py",
     "    power = np.floor(np.log10(raw_width)).astype(int)\n", "    power = np.round(np.log10(raw_width)).astype(int)\n", ["C07"]),
    ("c07b_pretty_farthest", "_bin_utils.py",
     "    best_index = np.argmin(np.abs(np.log(subscales * (10.0**power) / raw_width)))\n    return (10.0**power) * subscales[best_index]\n",
     "    best_index = np.argmax(np.abs(np.log(subscales * (10.0**power) / raw_width)))\n    return (10.0**power) * subscales[best_index]\n", ["C07"]),
    ("c07b_quantile_fraction_not_percent", "binnings.py",
     "        percentiles = np.asarray(q) * 100.0\n", "        percentiles = np.asarray(q)\n", ["C07"]),
    ("c07b_quantile_one_edge_short", "binnings.py",
     "        percentiles = np.linspace(qrange[0] * 100, qrange[1] * 100, bin_count + 1)\n",
     "        percentiles = np.linspace(qrange[0] * 100, qrange[1] * 100, bin_count)\n", ["C07"]),
    ("c07b_exponential_width_natural_log", "binnings.py",
     "        range = (np.log10(data.min()), np.log10(data.max()))\n", "        range = (np.log10(data.min()), np.log(data.max()))\n", ["C07"]),
    ("c07b_exponential_edges_not_geometric", "binnings.py",
     "            log_bins = self._log_min + np.arange(self._bin_count + 1) * self._log_width\n",
     "            log_bins = self._log_min * np.arange(self._bin_count + 1) + self._log_width\n", ["C07"]),
    ("c07b_numpy_binning_ignores_range_start", "binnings.py",
     "        edges = np.linspace(range[0], range[1], bin_count + 1)\n", "        edges = np.linspace(0, range[1], bin_count + 1)\n", ["C07"]),
    ("c20b_map_colours_from_frequencies", "plotting/matplotlib.py",
     "    norm, cmap_data = _get_cmap_data(data, kwargs)\n    colors = cmap(cmap_data)\n\n    xpos, ypos = (arr.flatten() for arr in h2.get_bin_left_edges())\n",
     "    norm, cmap_data = _get_cmap_data(h2.frequencies.flatten(), kwargs)\n    colors = cmap(cmap_data)\n\n    xpos, ypos = (arr.flatten() for arr in h2.get_bin_left_edges())\n", ["C20"]),
    ("c20b_cmap_data_not_normalised_data", "plotting/matplotlib.py",
     "    return norm, norm(data)\n", "    return norm, norm(np.sort(data))\n", ["C20"]),
    ("c20e_labels_skip_zero_tick", "plotting/common.py",
     "                for neg, h, m, s in hms\n            ]\n", "                for neg, h, m, s in hms\n                if h or m or s\n            ]\n", ["C20"]),
    ("c20e_call_swaps_range", "plotting/common.py",
     "        ticks = self.get_time_ticks(h1, level, min_, max_)\n", "        ticks = self.get_time_ticks(h1, level, max_, min_)\n", ["C20"]),
]


def main():
    out = VERIF / "selftest" / "mutants"
    out.mkdir(parents=True, exist_ok=True)
    for p in out.glob("*.diff"):
        p.unlink()
    exp_file = VERIF / "selftest" / "expectations.json"
    exps = json.loads(exp_file.read_text()) if exp_file.exists() else {}
    exps = {k: v for k, v in exps.items() if not k.startswith("mutants/")}
    bad = 0
    for name, rel, old, new, props in M:
        f = SRC / rel
        text = f.read_text()
        if text.count(old) != 1:
            print(f"!! {name}: pattern occurs {text.count(old)} times in {rel}")
            bad += 1
            continue
        mutated = text.replace(old, new)
        try:
            ast.parse(mutated)
        except SyntaxError as e:
            print(f"!! {name}: mutant does not parse: {e}")
            bad += 1
            continue
        diff = "".join(difflib.unified_diff(text.splitlines(True), mutated.splitlines(True), f"a/src/physt/{rel}", f"b/src/physt/{rel}"))
        (out / f"{name}.diff").write_text(diff)
        exps[f"mutants/{name}"] = props
    exp_file.write_text(json.dumps(exps, indent=1, sort_keys=True))
    print(f"{len(M) - bad} mutants written, {bad} problems")
    return 1 if bad else 0


if __name__ == "__main__":
    sys.exit(main())
