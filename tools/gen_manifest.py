#!/venv/bin/python
"""Regenerate MANIFEST.json from the rule modules present under rules/ (run by hand, result committed)."""
import importlib
import json
import subprocess
import sys
from pathlib import Path

VERIF = Path(__file__).resolve().parent.parent
sys.path.insert(0, str(VERIF))

props = [json.loads(l) for l in (VERIF / "properties.jsonl").read_text().splitlines() if l.strip()]
checks, na = [], []
for p in props:
    pid = p["id"]
    if not (VERIF / "rules" / f"{pid.lower()}.py").exists():
        na.append(dict(property_id=pid, reason="static rules for this property are not built yet (see DESIGN.md section 3)"))
        continue
    mod = importlib.import_module(f"rules.{pid.lower()}")
    checks.append(dict(
        property_id=pid,
        quick_cmd=f"/venv/bin/python check.py {pid} --tier quick",
        thorough_cmd=f"/venv/bin/python check.py {pid} --tier thorough",
        evidence_file=f"evidence/{pid}.json",
        replay_cmd_template=f"/venv/bin/python check.py {pid} --replay {{path}}",
        engine="physt-static",
        technique=getattr(mod, "TECHNIQUE", "custom AST/path/dataflow analysis of /repo/src/physt (no execution)"),
        level_claimed=dict(
            category="other",
            text=("Static analysis: decides, for every input/history, the structural clauses of the property that are "
                  "visible on all paths of the anchored code. " + mod.EXPLANATION +
                  " In addition (rule .api) every option default and every refusal (exception type under its chain of guards) of the "
                  "functions this property is anchored in equals the census sa/contract.json taken on the confirmed tree, every "
                  "accepted option is read, and same-named options are handed on in package-internal calls."
                  " Not decided: " + mod.NOT_DECIDED),
            design_ref=f"DESIGN.md section 3, {pid}",
        ),
        level_note="Trusted base: CPython ast, numpy / python semantics named in the rules; "
                   + "; ".join(getattr(mod, "TRUSTED", [])) + ". Numerical (floating-point) clauses are not claimed.",
    ))

fixes = subprocess.run(["git", "-C", "/repo", "log", "--format=%h %s", "53e7c6a..HEAD"], capture_output=True, text=True).stdout
fix_commits = [l.split()[0] for l in fixes.splitlines() if l.split(" ", 1)[1].startswith("fix:")]

manifest = dict(
    version=1,
    setup_cmd="/venv/bin/python -m compileall -q sa rules check.py selftest.py",
    hooks=dict(
        guard="PHYST_VERIF",
        enable="none needed: the checks parse /repo/src/physt and never import or run physt; no hook code exists in /repo",
        baseline_off_cmd="cd /repo && /venv/bin/python -m pytest -ra -q -p no:cacheprovider --timeout=900 --continue-on-collection-errors",
        source_commits=[],
        add_only=True,
    ),
    engines=[dict(
        name="physt-static",
        path="check.py",
        serves_properties=[c["property_id"] for c in checks],
        kind_free_text="repository-specific static analyser: class table + C3 MRO + call resolution (sa/model.py), "
                       "structural path enumeration (sa/paths.py), reaching-definition / write-effect / freshness "
                       "dataflow and small symbolic evaluators (sa/*.py), one rule module per property (rules/); before the rules "
                       "run, behaviour-preserving restructuring is removed by program transformations with stated safety "
                       "conditions (helper inlining, control-flow and idiom normal forms, forward substitution, equality of the "
                       "set of ways through a function: sa/canon.py, sa/inline.py, DESIGN.md 2.1)",
    )],
    checks=checks,
    not_applicable=na,
    notes="All checks are static (ast-based), stdlib only, run with the repository's own /venv/bin/python. "
          "Genuine defects found on the pinned tree were repaired by unguarded `fix:` commits in /repo: "
          + " ".join(fix_commits) + ". See known_findings.jsonl and DESIGN.md section 4.",
)
(VERIF / "MANIFEST.json").write_text(json.dumps(manifest, indent=1) + "\n")
print(f"{len(checks)} checks, {len(na)} not applicable")
