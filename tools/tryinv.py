#!/venv/bin/python
"""tryinv.py COMMIT [PROP...] - run checks against a scratch copy with a /repo fix commit reverted."""
import subprocess, sys, tempfile, shutil, pathlib
commit = sys.argv[1]
props = sys.argv[2:]
diff = subprocess.run(["git", "-C", "/repo", "show", commit], capture_output=True, text=True).stdout
tmp = pathlib.Path(tempfile.mkdtemp(prefix="inv-", dir="/tmp"))
try:
    shutil.copytree("/repo/src", tmp / "src")
    r = subprocess.run(["patch", "-R", "-p1", "-s"], input=diff, text=True, cwd=tmp, capture_output=True)
    if r.returncode:
        print("revert failed", r.stdout, r.stderr); sys.exit(2)
    if not props:
        props = sorted(p.stem.upper() for p in pathlib.Path("/verif/rules").glob("c[0-9][0-9].py"))
    caught = []
    for p in props:
        r = subprocess.run(["/venv/bin/python", "/verif/check.py", p, "--src", str(tmp / "src" / "physt"), "--no-evidence"], capture_output=True, text=True)
        if r.returncode == 1:
            caught.append(p)
            for l in r.stdout.splitlines():
                if l.strip().startswith("instance:"):
                    print("   ", p, l.strip()[:200])
        elif r.returncode == 2:
            print("   ", p, "exit 2:", r.stdout.strip().splitlines()[-1][:200])
    print(commit, "reverted -> caught by", caught or "NONE")
finally:
    shutil.rmtree(tmp, ignore_errors=True)
