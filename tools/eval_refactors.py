#!/venv/bin/python
"""Confirm behaviour-preserving refactorings written by independent agents and run every check on them.

For each <SRC>/CNN/patch<k>.diff (k = 1..3): in a scratch worktree of /repo (under /tmp, removed afterwards)
  1. the agent's equivalence digest equiv<k>.py gives byte-identical output on the clean and the refactored tree,
  2. the unedited suite passes with the patch;
then all 20 checks are run on a scratch copy with the patch: every check must stay silent (exit 0).
Confirmed refactorings are filed under /verif/refactors/<CNN>-<k>/ (patch.diff, equiv.py, meta.json incl. which checks fired).
"""
import json
import os
import shutil
import subprocess
import sys
import tempfile
from concurrent.futures import ThreadPoolExecutor
from pathlib import Path

SRC = Path(os.environ.get("REF_SRC", "/tmp/mut/outR1"))
OUT = Path("/verif/refactors")
ALL = [f"C{i:02d}" for i in range(1, 21)]


def sh(cmd, cwd=None, env=None, timeout=1200):
    return subprocess.run(cmd, shell=True, cwd=cwd, env=env, capture_output=True, text=True, timeout=timeout)


def one(job):
    pid, k = job
    d = SRC / pid
    patch, equiv, meta = d / f"patch{k}.diff", d / f"equiv{k}.py", d / f"meta{k}.json"
    if not (patch.exists() and equiv.exists()):
        return pid, k, "missing files", {}
    wt = Path(f"/tmp/refcheck/{pid}-{k}")
    if wt.exists():
        sh(f"git -C /repo worktree remove --force {wt}")
    wt.parent.mkdir(parents=True, exist_ok=True)
    if sh(f"git -C /repo worktree add --detach {wt} HEAD -q").returncode:
        return pid, k, "worktree failed", {}
    env = dict(os.environ, PYTHONPATH=str(wt / "src"), HYPOTHESIS_STORAGE_DIRECTORY=f"/tmp/refcheck/hyp-{pid}-{k}", MPLBACKEND="Agg")
    try:
        clean = sh(f"/venv/bin/python {equiv}", cwd=d, env=env)
        if sh(f"git apply {patch}", cwd=wt).returncode:
            return pid, k, "patch does not apply", {}
        ref = sh(f"/venv/bin/python {equiv}", cwd=d, env=env)
        same = clean.returncode == ref.returncode and clean.stdout == ref.stdout and len(clean.stdout) > 0
        ok_tests = False
        for _ in range(2):
            t = sh("/venv/bin/python -m pytest -p no:cacheprovider -q -x 2>&1 | tail -3", cwd=wt, env=env)
            summ = [l for l in t.stdout.splitlines() if "passed" in l or "failed" in l]
            ok_tests = bool(summ) and "failed" not in summ[-1] and "passed" in summ[-1]
            if ok_tests:
                break
            shutil.rmtree(f"/tmp/refcheck/hyp-{pid}-{k}", ignore_errors=True)
        if not (same and ok_tests):
            return pid, k, f"NOT CONFIRMED equiv_identical={same} tests={'ok' if ok_tests else (summ[-1] if summ else '?')}", {}
        fired = {}
        for p in ALL:
            r = subprocess.run(["/venv/bin/python", "/verif/check.py", p, "--src", str(wt / "src" / "physt"), "--no-evidence"],
                               capture_output=True, text=True, cwd="/verif")
            if r.returncode != 0:
                inst = [l.strip()[10:] for l in r.stdout.splitlines() if l.strip().startswith("instance:")]
                err = [l for l in r.stdout.splitlines() if "ANALYSIS-ERROR" in l]
                fired[p] = inst or err[:1]
        dd = OUT / f"{os.environ.get('REF_TAG', '')}{pid}-{k}"
        dd.mkdir(parents=True, exist_ok=True)
        shutil.copy(patch, dd / "patch.diff")
        shutil.copy(equiv, dd / "equiv.py")
        for extra in d.glob("*.py"):
            if extra.name not in (f"equiv{j}.py" for j in (1, 2, 3)) and not (dd / extra.name).exists():
                shutil.copy(extra, dd / extra.name)
        m = json.loads(meta.read_text()) if meta.exists() else {}
        m.update(property=pid, confirmed=dict(equiv_identical=True, tests=summ[-1], base_commit=sh("git -C /repo rev-parse --short HEAD").stdout.strip()),
                 checks_fired_at_first_contact=fired)
        (dd / "meta.json").write_text(json.dumps(m, indent=1))
        return pid, k, "CONFIRMED", fired
    finally:
        sh(f"git -C /repo worktree remove --force {wt}")
        shutil.rmtree(f"/tmp/refcheck/hyp-{pid}-{k}", ignore_errors=True)


if __name__ == "__main__":
    jobs = [(f"C{i:02d}", k) for i in range(1, 21) for k in (1, 2, 3)]
    if len(sys.argv) > 1:
        jobs = [(a.split("-")[0], int(a.split("-")[1])) for a in sys.argv[1:]]
    n = silent = 0
    with ThreadPoolExecutor(6) as ex:
        for pid, k, msg, fired in ex.map(one, jobs):
            if msg == "CONFIRMED":
                n += 1
                silent += not fired
            print(pid, k, msg, json.dumps(fired)[:300], flush=True)
    print(f"{n} confirmed refactorings, {silent} with every check silent, {n - silent} with at least one false alarm")
