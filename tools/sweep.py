#!/venv/bin/python
"""Systematic single-site mutation sweep: which syntactic changes of the anchored sources does NO check notice?

Not a check and not registered: a development aid that lists blind spots of the rule set.  Every mutant is written to a
scratch copy (outside /repo and /verif, removed afterwards) and all 20 rule modules are run on it in-process; a mutant
counts as noticed when any property reports a violation that the unmodified tree does not report, or the analysis
refuses the tree (vanished anchor / floor).  The survivors are printed for reading - most are equivalent or harmless,
the rest become rules.

usage: sweep.py [--files a.py,b.py] [--ops cmp,arith,...] [--out FILE] [--jobs N] [--limit N]
"""
from __future__ import annotations

import argparse
import ast
import copy
import importlib
import json
import os
import shutil
import sys
import tempfile
from multiprocessing import Pool
from pathlib import Path

VERIF = Path(__file__).resolve().parent.parent
sys.path.insert(0, str(VERIF))
SRC = Path("/repo/src/physt")
ALL = [f"C{i:02d}" for i in range(1, 21)]
FILES = ["_bin_utils.py", "_construction.py", "_facade.py", "binnings.py", "config.py", "histogram1d.py", "histogram_base.py",
         "histogram_collection.py", "histogram_nd.py", "special_histograms.py", "statistics.py", "io/__init__.py", "io/json.py", "io/util.py",
         "io/version.py", "compat/pandas.py", "compat/polars.py", "compat/dask.py", "compat/xarray.py", "compat/geant4.py",
         "plotting/__init__.py", "plotting/common.py", "plotting/matplotlib.py", "plotting/plotly.py", "plotting/ascii.py", "_util.py"]
SKIP_FUNCS = {"__repr__", "__rich_repr__", "__dir__", "deprecation_alias"}
ATTR_SWAP = {"frequencies": "errors2", "errors2": "frequencies", "_frequencies": "_errors2", "_errors2": "_frequencies",
             "underflow": "overflow", "overflow": "underflow", "min": "max", "max": "min", "bin_left_edges": "bin_right_edges",
             "bin_right_edges": "bin_left_edges", "floor": "ceil", "ceil": "floor", "first_edge": "last_edge", "last_edge": "first_edge"}
CMP_SWAP = {ast.Lt: ast.LtE, ast.LtE: ast.Lt, ast.Gt: ast.GtE, ast.GtE: ast.Gt, ast.Eq: ast.NotEq, ast.NotEq: ast.Eq,
            ast.Is: ast.IsNot, ast.IsNot: ast.Is, ast.In: ast.NotIn, ast.NotIn: ast.In}
BIN_SWAP = {ast.Add: ast.Sub, ast.Sub: ast.Add, ast.Mult: ast.Div, ast.Div: ast.Mult, ast.FloorDiv: ast.Div, ast.Mod: ast.FloorDiv}


def sites(tree):
    """Yield (op-kind, path-to-node as list of (field, index), description)."""
    out = []

    def walk(node, path, func):
        if isinstance(node, (ast.FunctionDef, ast.AsyncFunctionDef)):
            if node.name in SKIP_FUNCS:
                return
            func = node.name
        if isinstance(node, ast.If) and ast.unparse(node.test) in ("TYPE_CHECKING", "typing.TYPE_CHECKING"):
            return
        if func is not None:
            if isinstance(node, ast.Compare) and len(node.ops) == 1 and type(node.ops[0]) in CMP_SWAP:
                out.append(("cmp", path, func))
            if isinstance(node, ast.BinOp) and type(node.op) in BIN_SWAP and not isinstance(node.left, ast.Constant) | isinstance(node.left, ast.JoinedStr):
                out.append(("arith", path, func))
            if isinstance(node, ast.Constant) and not isinstance(node.value, str) and (node.value is True or node.value is False or (
                    isinstance(node.value, int) and 0 <= node.value <= 3)):
                out.append(("const", path, func))
            if isinstance(node, (ast.Assign, ast.AugAssign, ast.Raise)) or (isinstance(node, ast.Expr) and isinstance(node.value, ast.Call)):
                out.append(("del", path, func))
            if isinstance(node, (ast.If, ast.IfExp, ast.While)):
                out.append(("neg", path, func))
            if isinstance(node, ast.Call) and len(node.args) >= 2 and not any(isinstance(a, ast.Starred) for a in node.args[:2]) \
                    and ast.unparse(node.args[0]) != ast.unparse(node.args[1]):
                out.append(("swapargs", path, func))
            if isinstance(node, ast.Attribute) and node.attr in ATTR_SWAP:
                out.append(("attr", path, func))
            if isinstance(node, ast.BoolOp):
                out.append(("bool", path, func))
            if isinstance(node, ast.Subscript) and isinstance(node.slice, ast.Tuple) and len(node.slice.elts) == 2 and \
                    isinstance(node.slice.elts[1], ast.Constant) and node.slice.elts[1].value in (0, 1):
                out.append(("col", path, func))
            if isinstance(node, ast.keyword) and node.arg is not None and isinstance(getattr(node, "value", None), ast.Name) \
                    and node.value.id == node.arg:
                out.append(("dropkw", path, func))
        for field, value in ast.iter_fields(node):
            if isinstance(value, list):
                for i, v in enumerate(value):
                    if isinstance(v, ast.AST):
                        if field == "body" and i == 0 and isinstance(v, ast.Expr) and isinstance(v.value, ast.Constant) and isinstance(v.value.value, str):
                            continue
                        walk(v, path + [(field, i)], func)
            elif isinstance(value, ast.AST):
                if field in ("annotation", "returns"):
                    continue
                walk(value, path + [(field, None)], func)
    walk(tree, [], None)
    return out


def locate(tree, path):
    node = tree
    parent = None
    last = None
    for field, idx in path:
        parent, last = node, (field, idx)
        node = getattr(node, field)
        if idx is not None:
            node = node[idx]
    return parent, last, node


def apply(tree, kind, path):
    t = copy.deepcopy(tree)
    parent, (field, idx), node = locate(t, path)

    def put(new):
        if idx is None:
            setattr(parent, field, new)
        else:
            getattr(parent, field)[idx] = new
    before = ast.unparse(node)[:90]
    if kind == "cmp":
        node.ops[0] = CMP_SWAP[type(node.ops[0])]()
    elif kind == "arith":
        node.op = BIN_SWAP[type(node.op)]()
    elif kind == "const":
        if node.value is True or node.value is False:
            node.value = not node.value
        else:
            node.value = node.value + 1
    elif kind == "del":
        put(ast.Pass())
    elif kind == "neg":
        node.test = ast.UnaryOp(op=ast.Not(), operand=node.test)
    elif kind == "swapargs":
        node.args[0], node.args[1] = node.args[1], node.args[0]
    elif kind == "attr":
        node.attr = ATTR_SWAP[node.attr]
    elif kind == "bool":
        node.op = ast.Or() if isinstance(node.op, ast.And) else ast.And()
    elif kind == "col":
        node.slice.elts[1].value = 1 - node.slice.elts[1].value
    elif kind == "dropkw":
        getattr(parent, field).pop(idx)
    ast.fix_missing_locations(t)
    after = "<deleted>" if kind in ("del", "dropkw") else ast.unparse(locate(t, path)[2])[:90]
    return t, before, after


_W = {}


def _init(base_viol):
    d = Path(tempfile.mkdtemp(prefix="physt-sweep-"))
    shutil.copytree(SRC, d / "physt")
    _W["dir"] = d / "physt"
    _W["base"] = base_viol
    import atexit
    atexit.register(lambda: shutil.rmtree(d, ignore_errors=True))


def run_all(src):
    from sa.model import AnalysisError, Model
    from sa.report import Ctx
    os.environ["PHYST_SRC"] = str(src)
    fired = {}
    try:
        model = Model(Path(src))
    except Exception as exc:  # noqa
        return {"*": [f"model: {type(exc).__name__}"]}
    for p in ALL:
        try:
            ctx = Ctx(model, p, "quick")
            mod = importlib.import_module(f"rules.{p.lower()}")
            mod.run(ctx)
            from sa import contract
            ctx.rule(f"{p}.api", "API census", 0)
            contract.check(ctx, p, f"{p}.api", floor=0)
            contract.check_overrides(ctx, f"{p}.api")
            ctx.verify_floors()
            keys = sorted({f"{r['rule']}|{r['key']}" for r in ctx.violations()})
        except AnalysisError as exc:
            keys = [f"analysis-error: {str(exc)[:60]}"]
        except Exception as exc:  # noqa
            keys = [f"internal: {type(exc).__name__}: {str(exc)[:60]}"]
        if keys:
            fired[p] = keys
    return fired


def _task(job):
    rel, kind, path, func = job
    f = _W["dir"] / rel
    orig = (SRC / rel).read_text()
    tree = ast.parse(orig)
    try:
        t, before, after = apply(tree, kind, path)
        text = ast.unparse(t)
        ast.parse(text)
    except Exception as exc:  # noqa
        return dict(file=rel, kind=kind, func=func, skipped=str(exc)[:80])
    line = getattr(locate(tree, path)[2], "lineno", None) or getattr(locate(tree, path)[0], "lineno", 0)
    f.write_text(text)
    try:
        fired = run_all(_W["dir"])
    finally:
        f.write_text(orig)
    new = {p: [k for k in ks if k not in _W["base"].get(p, [])] for p, ks in fired.items()}
    new = {p: ks for p, ks in new.items() if ks}
    return dict(file=rel, line=line, func=func, kind=kind, before=before, after=after, caught_by=sorted(new), n=sum(len(v) for v in new.values()))


def main():
    ap = argparse.ArgumentParser()
    ap.add_argument("--files", default=",".join(FILES))
    ap.add_argument("--ops", default="")
    ap.add_argument("--out", default="/tmp/sweep/results.jsonl")
    ap.add_argument("--jobs", type=int, default=16)
    ap.add_argument("--limit", type=int, default=0)
    ap.add_argument("--recheck", default="", help="jsonl of earlier results: re-run only the mutants listed there with tests_green (or not caught)")
    a = ap.parse_args()
    jobs = []
    want = None
    if a.recheck:
        want = set()
        for l in open(a.recheck):
            r = json.loads(l)
            if r.get("tests_green", True) and not r.get("caught_by"):
                want.add((r["file"], r["kind"], r["line"], r["before"], r["after"]))
    for rel in a.files.split(","):
        tree = ast.parse((SRC / rel).read_text())
        for kind, path, func in sites(tree):
            if a.ops and kind not in a.ops.split(","):
                continue
            if want is not None:
                try:
                    _, before, after = apply(tree, kind, path)
                except Exception:  # noqa
                    continue
                node = locate(tree, path)
                line = getattr(node[2], "lineno", None) or getattr(node[0], "lineno", 0)
                if (rel, kind, line, before, after) not in want:
                    continue
            jobs.append((rel, kind, path, func))
    if a.limit:
        import random
        random.Random(1).shuffle(jobs)
        jobs = jobs[: a.limit]
    print(f"{len(jobs)} mutants", flush=True)
    base = run_all(SRC)
    Path(a.out).parent.mkdir(parents=True, exist_ok=True)
    n = surv = 0
    with Pool(a.jobs, initializer=_init, initargs=(base,)) as pool, open(a.out, "w") as out:
        for r in pool.imap_unordered(_task, jobs, chunksize=4):
            n += 1
            if "skipped" in r:
                continue
            out.write(json.dumps(r) + "\n")
            if not r["caught_by"]:
                surv += 1
            if n % 200 == 0:
                print(f"{n}/{len(jobs)} done, {surv} survivors", flush=True)
    print(f"done: {n} mutants, {surv} not noticed by any check -> {a.out}")


if __name__ == "__main__":
    main()
