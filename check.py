#!/venv/bin/python
"""Static verification driver.

usage: check.py CNN [--tier quick|thorough] [--replay FILE] [--src DIR] [--no-evidence]

Exit 0: every rule instance holds (listed known findings are printed as
KNOWN-FINDING).  Exit 1: at least one unlisted violation; a line
`VIOLATION property=<id> replay=<path>` is printed per violation.  Exit 2:
ANALYSIS-ERROR (anchor vanished, floor not met, parse failure).
"""
from __future__ import annotations

import argparse
import hashlib
import importlib
import json
import os
import sys
import time
import traceback
from pathlib import Path

VERIF = Path(__file__).resolve().parent
sys.path.insert(0, str(VERIF))

from sa.model import AnalysisError, Model  # noqa: E402
from sa.report import Ctx, load_known  # noqa: E402

TRUSTED = [
    "CPython ast module (parsing of the sources as the interpreter would)",
    "numpy semantics of the operations named in the rule texts (searchsorted sides, slicing "
    "views, elementwise arithmetic, histogramdd closing its last edge)",
    "python semantics of contextvars / MRO / properties",
]


def run_property(prop: str, src: str | None, tier: str):
    if src:
        os.environ["PHYST_SRC"] = src
    model = Model(Path(src) if src else None)
    ctx = Ctx(model, prop, tier)
    mod = importlib.import_module(f"rules.{prop.lower()}")
    mod.run(ctx)
    # API census shared by all properties: defaults and refusals of the functions this property is anchored in
    from sa import contract
    tab = contract.load()
    if tab is None:
        raise AnalysisError("sa/contract.json is missing")
    owned = sum(1 for v in tab["functions"].values() if prop in v["owners"])
    ctx.rule(f"{prop}.api", "every option default and every refusal (guard -> exception) of the functions this property is anchored in "
             "is as confirmed when the census sa/contract.json was taken", owned)
    contract.check(ctx, prop, f"{prop}.api", floor=owned)
    contract.check_overrides(ctx, f"{prop}.api")
    ctx.verify_floors()
    return model, ctx, mod


def finding_id(prop: str, r: dict) -> str:
    return hashlib.sha1(f"{prop}|{r['rule']}|{r['key']}".encode()).hexdigest()[:10]


def main(argv=None) -> int:
    ap = argparse.ArgumentParser()
    ap.add_argument("prop")
    ap.add_argument("--tier", default=os.environ.get("VERIF_TIER", "quick"))
    ap.add_argument("--replay")
    ap.add_argument("--src")
    ap.add_argument("--no-evidence", action="store_true")
    ap.add_argument("--json", action="store_true", help="print all instances as json (debug)")
    a = ap.parse_args(argv)
    prop = a.prop.upper()
    tier = a.tier if a.tier in ("quick", "thorough") else "quick"
    seed = int(os.environ.get("VERIF_SEED", "0") or 0)
    t0 = time.time()
    try:
        model, ctx, mod = run_property(prop, a.src, tier)
        extra = {}
        if tier == "thorough" and not a.replay and not a.src:
            from sa import thorough

            extra = thorough.run(prop, ctx)
    except AnalysisError as exc:
        print(f"ANALYSIS-ERROR property={prop} {exc}")
        return 2
    except Exception:  # noqa
        print(f"ANALYSIS-ERROR property={prop} internal error in the checker:")
        traceback.print_exc()
        return 2

    if a.json:
        print(json.dumps(ctx.results, indent=1))

    known = load_known(prop)
    open_known = {(k["rule"], k["key"]): k for k in known if k.get("status") == "open"}
    viol = ctx.violations()
    listed, unlisted = [], []
    for r in viol:
        (listed if (r["rule"], r["key"]) in open_known else unlisted).append(r)

    if a.replay:
        want = json.loads(Path(a.replay).read_text())
        hit = [r for r in viol if r["rule"] == want["rule"] and r["key"] == want["key"]]
        if hit:
            r = hit[0]
            print(f"replay: still violated: {r['rule']} {r['key']}\n  {r['where']}\n  {r['detail']}")
            print(f"VIOLATION property={prop} replay={a.replay}")
            return 1
        print(f"replay: instance {want['rule']} {want['key']} holds on the current tree")
        return 0

    for r in listed:
        k = open_known[(r["rule"], r["key"])]
        print(f"KNOWN-FINDING: property={prop} rule={r['rule']} {r['key']} - {k.get('what', r['detail'])}")
    stale = [k for key, k in open_known.items() if key not in {(r["rule"], r["key"]) for r in viol}]
    for k in stale:
        print(f"note: listed finding no longer reported (repaired?): {k['rule']} {k['key']}")

    replay_dir = VERIF / "evidence" / "replay"
    if a.src:
        # a scratch tree (self-test variants, development tools): its reports do not belong to the evidence of /repo
        import tempfile
        replay_dir = Path(tempfile.gettempdir()) / "physt-verif-replay"
    rc = 0
    extra_viol = extra.get("violations", []) if extra else []
    for r in unlisted + extra_viol:
        rc = 1
        replay_dir.mkdir(parents=True, exist_ok=True)
        rp = replay_dir / f"{prop}-{finding_id(prop, r)}.json"
        rp.write_text(json.dumps(dict(property=prop, **r), indent=1))
        print(f"{r['rule']} VIOLATED at {r['where']}\n    instance: {r['key']}\n    {r['detail']}")
        print(f"VIOLATION property={prop} replay={rp.relative_to(VERIF) if not a.src else rp}")

    if not a.no_evidence and not a.src:
        write_evidence(prop, tier, seed, ctx, mod, listed, unlisted, extra, time.time() - t0)
    n = len(ctx.results)
    log = _canon_log()
    if log:
        print(f"note: {len(log)} function(s) differ from the pinned tree only by restructuring and were analysed in normal form: "
              + ", ".join(sorted({f'{m_.split(".", 1)[-1]}:{f_}' for m_, f_, _ in log})[:12]) + (" ..." if len(log) > 12 else ""))
    print(
        f"{prop} [{tier}] {n} rule instances over {len(ctx.analysed_functions)} functions: "
        f"{n - len(viol)} hold, {len(listed)} known findings, {len(unlisted) + len(extra_viol)} new violations "
        f"({time.time() - t0:.2f}s)"
    )
    return rc


def _canon_log():
    from sa import canon
    return list(canon.LOG)


def write_evidence(prop, tier, seed, ctx, mod, listed, unlisted, extra, wall):
    per_rule = {}
    for r in ctx.results:
        d = per_rule.setdefault(r["rule"], dict(instances=0, hold=0, floor=ctx.floors.get(r["rule"], 0),
                                                rule=ctx.rule_doc.get(r["rule"], "")))
        d["instances"] += 1
        d["hold"] += r["verdict"] == "holds"
    distinct = len({(r["rule"], r["key"]) for r in ctx.results if r["detail"]})
    samples = []
    seen_rules = set()
    for r in ctx.results:
        if r["rule"] not in seen_rules or r["verdict"] != "holds":
            seen_rules.add(r["rule"])
            samples.append({k: r[k] for k in ("rule", "key", "verdict", "detail", "where")})
    ev = dict(
        property_id=prop,
        tier=tier,
        seed=seed,
        level="other",
        wall_s=round(wall, 3),
        violations=len(unlisted) + len(extra.get("violations", []) if extra else []),
        coverage=dict(
            explanation=getattr(mod, "EXPLANATION", "") + " Rule .api: option defaults and refusals of the anchored functions equal the "
                        "census sa/contract.json." + " Decided by static analysis of every structural path "
            "of the anchored functions in the current /repo/src/physt; physt is never imported or run.",
            not_decided=getattr(mod, "NOT_DECIDED", ""),
            obligations=len(ctx.results),
            discharged=len(ctx.results) - len(unlisted),
            known_findings=len(listed),
            evaluations=len(ctx.results),
            distinct_nontrivial=distinct,
            rule="one case = one (rule, instance key) pair: a function, call site, path, (class, entry, flag) "
                 "combination or writer/reader key the rule applies to; non-trivial = the analysed construct "
                 "was found and produced a non-empty derivation (detail text); distinct by (rule, key)",
            samples=samples[:40],
            per_rule=per_rule,
            exhaustive_rules=ctx.exhaustive_rules,
            exhaustive=False,
            modules_parsed=len(ctx.model.modules),
            functions_analysed=sorted(ctx.analysed_functions),
            normalised=[dict(module=m_, function=f_, what=w_) for m_, f_, w_ in _canon_log()][:200],
            checker_cmd=f"/venv/bin/python check.py {prop} --tier {tier}",
            trusted_base=TRUSTED + list(getattr(mod, "TRUSTED", [])),
            thorough=extra or None,
        ),
        assumptions=TRUSTED + list(getattr(mod, "TRUSTED", [])),
    )
    d = VERIF / "evidence"
    d.mkdir(exist_ok=True)
    (d / f"{prop}.json").write_text(json.dumps(ev, indent=1, default=str))


if __name__ == "__main__":
    try:
        rc = main()
    except SystemExit:
        raise
    except Exception:  # noqa
        print("ANALYSIS-ERROR internal error in the checker:")
        traceback.print_exc()
        rc = 2
    sys.stdout.flush()
    sys.exit(rc)
