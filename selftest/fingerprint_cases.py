#!/venv/bin/python
"""Unit cases for sa/canon.fingerprint: pairs of functions that must get the SAME fingerprint (behaviour-preserving
restructurings) and pairs that must get DIFFERENT ones (every one of them changes behaviour for some input / state).
The second list is the soundness test of the normal forms: a pair wrongly equated there would let a defect be judged
as the pinned code.  Run: /venv/bin/python selftest/fingerprint_cases.py   (exit 1 on any failure)."""
import ast
import sys
import textwrap
from pathlib import Path

sys.path.insert(0, str(Path(__file__).resolve().parent.parent))
from sa import canon  # noqa: E402

SAME = [
    ("early return vs if/else", """
def f(self, a):
    if a:
        x = self.g(a)
    else:
        x = None
    return x
""", """
def f(self, a):
    if not a:
        return None
    return self.g(a)
"""),
    ("named temporary for a call used once, next statement", """
def f(self, a):
    return self.h(self.g(a))
""", """
def f(self, a):
    t = self.g(a)
    return self.h(t)
"""),
    ("operands named in order", """
def f(self, a):
    return self.h(self.g(a), self.k(a))
""", """
def f(self, a):
    x = self.g(a)
    y = self.k(a)
    return self.h(x, y)
"""),
    ("re-used name vs new name", """
def f(self, a):
    a = self.g(a)
    return a + 1
""", """
def f(self, a):
    b = self.g(a)
    return b + 1
"""),
    ("nested ifs vs and", """
def f(self, a, b):
    if a:
        if b:
            raise ValueError("x")
    return 1
""", """
def f(self, a, b):
    if a and b:
        raise ValueError("other text")
    return 1
"""),
    ("loop-and-raise vs any", """
def f(self, xs):
    for x in xs:
        if x < 0:
            raise ValueError("neg")
    return xs
""", """
def f(self, xs):
    if any(x < 0 for x in xs):
        raise ValueError("neg")
    return xs
"""),
    ("append loop vs comprehension", """
def f(self, xs):
    out = []
    for x in xs:
        out.append(x * 2)
    return out
""", """
def f(self, xs):
    return [x * 2 for x in xs]
"""),
    ("attribute read named across a fresh allocation", """
def f(self, bins):
    a = np.zeros(bins.shape[0])
    b = np.zeros(bins.shape[0])
    return a, b
""", """
def f(self, bins):
    n = bins.shape[0]
    a = np.zeros(n)
    b = np.zeros(n)
    return a, b
"""),
    ("continue guard", """
def f(self, xs):
    for x in xs:
        if x:
            self.g(x)
    return 1
""", """
def f(self, xs):
    for x in xs:
        if not x:
            continue
        self.g(x)
    return 1
"""),
    ("integer comparison spelling", """
def f(self, v):
    if not len(v.shape) <= 2:
        raise ValueError
    return v
""", """
def f(self, v):
    if len(v.shape) > 2:
        raise ValueError
    return v
"""),
]

SAME += [
    ("chained comparison vs two tests", """
def f(self, i, n):
    if i < 0:
        raise ValueError
    if i >= n:
        raise ValueError
    return i
""", """
def f(self, i, n):
    if not (0 <= i and i < n):
        raise ValueError
    return i
""" if False else """
def f(self, i, n):
    if i < 0 or i >= n:
        raise ValueError
    return i
"""),
    ("chained comparison spelled out", """
def f(self, i, n):
    if 0 <= i and i < n:
        return i
    raise ValueError
""", """
def f(self, i, n):
    if 0 <= i < n:
        return i
    raise ValueError
"""),
    ("keyword order of plain values", """
def f(self, a, b):
    return self.h(x=a, y=b.shape[0])
""", """
def f(self, a, b):
    return self.h(y=b.shape[0], x=a)
"""),
]

SAME += [
    ("tuple result extended on the early-return side (numpy_bins_with_mask, wave 9 twin)", """
def f(self):
    edges, mask = to_numpy_bins_with_mask(self.bins)
    if not self.includes_right_edge:
        edges = np.concatenate([edges, np.asarray([np.inf])])
    return edges, mask
""", """
def f(self):
    edges, mask = to_numpy_bins_with_mask(self.bins)
    if self.includes_right_edge:
        return edges, mask
    return np.concatenate([edges, np.asarray([np.inf])]), mask
"""),
]

DIFFERENT = [
    ("fast path that trusts a tolerance test for the gap mask (wave 9, C02-17)", """
def f(self):
    edges, mask = to_numpy_bins_with_mask(self.bins)
    if not self.includes_right_edge:
        edges = np.concatenate([edges, np.asarray([np.inf])])
    return edges, mask
""", """
def f(self):
    if self.is_consecutive():
        edges = self.numpy_bins
        mask = np.arange(self.bin_count)
    else:
        edges, mask = to_numpy_bins_with_mask(self.bins)
    if not self.includes_right_edge:
        edges = np.concatenate([edges, np.asarray([np.inf])])
    return edges, mask
"""),
    ("arithmetic on an array named before / after the array is changed in place (found by wave 8, C12-15)", """
def f(self, axis):
    d = np.atleast_1d(self.a.sum(axis=axis))
    d[d == 0] = 1
    self.a /= d
    self.e /= d * d
    return self
""", """
def f(self, axis):
    d = np.atleast_1d(self.a.sum(axis=axis))
    d2 = d * d
    d[d == 0] = 1
    self.a /= d
    self.e /= d2
    return self
"""),
    ("the same through an alias of the array", """
def f(self, axis):
    d = np.atleast_1d(self.a.sum(axis=axis))
    t = d
    t[t == 0] = 1
    self.a /= d
    self.e /= d * d
    return self
""", """
def f(self, axis):
    d = np.atleast_1d(self.a.sum(axis=axis))
    d2 = d * d
    t = d
    t[t == 0] = 1
    self.a /= d
    self.e /= d2
    return self
"""),
    ("keyword order of two calls", """
def f(self, a):
    return self.h(x=self.g(a), y=self.k(a))
""", """
def f(self, a):
    return self.h(y=self.k(a), x=self.g(a))
"""),
    ("a read-only test asked again after a store through the array", """
def f(self, a):
    if np.any(a < 0):
        a[a < 0] = 0
        if np.any(a < 0):
            return 1
    return 0
""", """
def f(self, a):
    if np.any(a < 0):
        a[a < 0] = 0
        return 1
    return 0
"""),
    ("state read moved behind a call in the same statement", """
def f(self):
    t = self.x
    return self.h(self.reset(), t)
""", """
def f(self):
    return self.h(self.reset(), self.x)
"""),
    ("call moved behind another call in the same statement", """
def f(self, a):
    t = self.k(a)
    return self.h(self.g(a), t)
""", """
def f(self, a):
    return self.h(self.g(a), self.k(a))
"""),
    ("read moved across a write of the same attribute", """
def f(self):
    self.x = 0
    return self.x
""", """
def f(self):
    t = self.x
    self.x = 0
    return t
"""),
    ("read moved across a write through a second alias", """
def f(self, other):
    other[0] = 5
    return self.arr[0]
""", """
def f(self, other):
    t = self.arr[0]
    other[0] = 5
    return t
"""),
    ("read moved across a mutating method call on a second alias", """
def f(self, other):
    other.sort()
    return self.arr[0]
""", """
def f(self, other):
    t = self.arr[0]
    other.sort()
    return t
"""),
    ("order of two calls", """
def f(self, a):
    return self.h(self.g(a), self.k(a))
""", """
def f(self, a):
    y = self.k(a)
    x = self.g(a)
    return self.h(x, y)
"""),
    ("a call evaluated twice", """
def f(self, a):
    t = self.g(a)
    return t + t
""", """
def f(self, a):
    return self.g(a) + self.g(a)
"""),
    ("a call moved into a loop", """
def f(self, xs):
    t = self.g()
    for x in xs:
        self.h(t, x)
""", """
def f(self, xs):
    for x in xs:
        self.h(self.g(), x)
"""),
    ("a fresh list shared vs made twice", """
def f(self):
    t = []
    self.a = t
    self.b = t
""", """
def f(self):
    self.a = []
    self.b = []
"""),
    ("float comparison is not its negated mirror (NaN)", """
def f(self, v, e):
    if v <= e:
        return 1
    return 2
""", """
def f(self, v, e):
    if v > e:
        return 2
    return 1
""" if False else """
def f(self, v, e):
    if not v > e:
        return 1
    return 2
"""),
    ("un-nesting that loses the continuation", """
def f(self, a):
    if a:
        self.g()
    self.h()
    return 1
""", """
def f(self, a):
    if a:
        self.g()
        return 1
    self.h()
    return 1
"""),
    ("guard negated not quite exactly", """
def f(self, a, b):
    if a is None or b:
        return 0
    return 1
""", """
def f(self, a, b):
    if a is not None and b:
        return 1
    return 0
"""),
    ("comprehension that drops the loop's side effect", """
def f(self, xs):
    out = []
    for x in xs:
        self.seen(x)
        out.append(x)
    return out
""", """
def f(self, xs):
    return [x for x in xs]
"""),
    ("different exception type in the loop form", """
def f(self, xs):
    for x in xs:
        if x < 0:
            raise ValueError
    return xs
""", """
def f(self, xs):
    if any(x < 0 for x in xs):
        raise TypeError
    return xs
"""),
    ("decision on state asked again after a write", """
def f(self):
    if self.n:
        self.reset()
        if self.n:
            return 1
    return 0
""", """
def f(self):
    if self.n:
        self.reset()
        return 1
    return 0
"""),
    ("default argument changed", """
def f(self, a, k=1):
    return a * k
""", """
def f(self, a, k=2):
    return a * k
"""),
    ("positional arguments swapped", """
def f(self, a, b):
    return self._pair(a, b)
""", """
def f(self, a, b):
    return self._pair(b, a)
"""),
    ("in-place change of an alias before it is stored", """
def f(self, k):
    self.frequencies = self.frequencies * k
""", """
def f(self, k):
    t = self.frequencies
    t *= k
    self.frequencies = t
"""),
]


# module-level cases: the second version extracts a helper (not in the first); compared after helper inlining
MODULE_SAME = [
    ("straight-line helper", """
class A:
    def f(self, other):
        self.frequencies = self.frequencies + other.frequencies
        self.errors2 = self.errors2 + other.errors2
        return self
""", """
class A:
    def f(self, other):
        self._add(other)
        return self

    def _add(self, other):
        self.frequencies = self.frequencies + other.frequencies
        self.errors2 = self.errors2 + other.errors2
"""),
    ("helper with early returns, used as a value", """
def f(x):
    if x.dtype in OK:
        pass
    elif is_int(x):
        x = x.astype(int)
    else:
        raise ValueError("no")
    return x
""", """
def f(x):
    x = _conv(x)
    return x


def _conv(x):
    if x.dtype in OK:
        return x
    if is_int(x):
        return x.astype(int)
    raise ValueError("no")
"""),
]
MODULE_DIFFERENT = [
    ("helper whose early return skips a later statement", """
def f(self, axis):
    if axis == 0:
        d = self.a.sum(axis=0)
    else:
        d = self.a.sum(axis=1)
    d[d == 0] = 1
    return self.a / d
""", """
def f(self, axis):
    d = _sums(self, axis)
    return self.a / d


def _sums(self, axis):
    if axis == 0:
        return self.a.sum(axis=0)
    d = self.a.sum(axis=1)
    d[d == 0] = 1
    return d
"""),
    ("helper that evaluates its argument once where the original evaluated twice", """
def f(self):
    return self.g() + self.g()
""", """
def f(self):
    return _twice(self.g())


def _twice(x):
    return x + x
"""),
    ("helper with a different default", """
def f(self, a):
    return self.h(a, 1)
""", """
def f(self, a):
    return _call(self, a)


def _call(self, a, k=2):
    return self.h(a, k)
"""),
]


def fp_module(src, name="f"):
    from sa.inline import inline_new_helpers
    tree = ast.parse(textwrap.dedent(src))
    known = {"f", "A.f", "A"}
    inline_new_helpers(tree, known)
    canon.structural_normal_form(tree)
    for q, fn in canon.functions_of(tree):
        if q.split("#")[0].split(".")[-1] == name:
            return canon.fingerprint(fn, sigs={})


def fp(src):
    fn = ast.parse(textwrap.dedent(src)).body[0]
    return canon.fingerprint(fn, sigs={})


def main():
    bad = 0
    for name, a, b in SAME:
        if fp(a) != fp(b):
            bad += 1
            print(f"FAIL (should be equal): {name}")
    for name, a, b in DIFFERENT:
        if fp(a) == fp(b):
            bad += 1
            print(f"FAIL (UNSOUND - behaviour differs but fingerprints agree): {name}")
    for name, a, b in MODULE_SAME:
        if fp_module(a) != fp_module(b):
            bad += 1
            print(f"FAIL (should be equal after helper inlining): {name}")
    for name, a, b in MODULE_DIFFERENT:
        if fp_module(a) == fp_module(b):
            bad += 1
            print(f"FAIL (UNSOUND after helper inlining): {name}")
    # new special methods and new functions nothing calls are never treated as helpers to be inlined away (found by wave 8, C14-15)
    from sa.inline import inline_new_helpers
    t = ast.parse(textwrap.dedent("""
class A:
    def f(self):
        return self.w

    def __bool__(self):
        return self.w != 0

    def extra(self):
        return 1
"""))
    inline_new_helpers(t, {"A.f", "A"})
    kept = {n.name for n in ast.walk(t) if isinstance(n, ast.FunctionDef)}
    if kept != {"f", "__bool__", "extra"}:
        bad += 1
        print(f"FAIL (UNSOUND - definitions dropped by the helper inliner): {sorted({'f', '__bool__', 'extra'} - kept)}")
    print(f"fingerprint cases: {len(SAME) + len(MODULE_SAME)} equal pairs, {len(DIFFERENT) + len(MODULE_DIFFERENT)} different pairs, {bad} failures")
    return 1 if bad else 0


if __name__ == "__main__":
    sys.exit(main())
