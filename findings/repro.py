"""Dynamic reproductions of the defects the static rules report on the pinned tree.

NOT a check and not registered in MANIFEST.json: it exists only to document
that each finding is a genuine defect of physt (failing call against the real
code), as required before a `fix:` commit or a known-findings entry.

Usage: /venv/bin/python findings/repro.py [name ...]
Prints one line per case: name, OK (property holds) or DEFECT (+ what was seen).
"""
import sys
import warnings

import numpy as np

warnings.simplefilter("ignore")

import physt
from physt import h1, h2, h
from physt.binnings import (
    ExponentialBinning,
    FixedWidthBinning,
    StaticBinning,
    NumpyBinning,
    fixed_width_binning,
)
from physt.histogram_nd import Histogram2D, HistogramND
from physt.histogram1d import Histogram1D
from physt.io import parse_json

CASES = {}


def case(f):
    CASES[f.__name__] = f
    return f


@case
def c03a_fill1d_keep_missed_off():
    a = h1([1, 2, 3], [0, 1, 2, 3, 4], keep_missed=False)
    before = a.frequencies.copy()
    a.fill(-5)
    assert (a.frequencies == before).all(), f"fill(-5) changed {before}->{a.frequencies}"
    a.fill(50)
    assert (a.frequencies == before).all()


@case
def c03a_fillnd_keep_missed_off():
    a = Histogram2D([[0, 1, 2], [0, 1, 2]], keep_missed=False)
    a.fill([50, 50])
    assert a.frequencies.sum() == 0, a.frequencies
    assert a.missed == 0


@case
def c03b_fillnd_n_keep_missed_off():
    a = Histogram2D([[0, 1, 2], [0, 1, 2]], keep_missed=False)
    a.fill_n([[50, 50]])
    assert a.missed == 0, a.missed


@case
def c03c_nd_find_bin_last_edge():
    b = [fixed_width_binning(bin_width=2, range=(0, 4)) for _ in range(2)]
    b = [FixedWidthBinning(bin_width=2, bin_count=2, min=0) for _ in range(2)]
    a = Histogram2D([x.copy() for x in b])
    c = Histogram2D([x.copy() for x in b])
    a.fill([4, 4])
    c.fill_n([[4, 4]])
    assert a.total == c.total and a.missed == c.missed, (a.total, a.missed, c.total, c.missed)


@case
def c03f_fillnd_n_nan_weights():
    a = Histogram2D([[0, 1, 2], [0, 1, 2]])
    a.fill_n([[0.5, 0.5], [np.nan, 1], [1.5, 1.5]], weights=[1.0, 2.0, 4.0])
    assert a.total == 5.0, a.total


@case
def c02a_missing_dropped():
    a = h2([1, 2, 3, 9], [1, 2, 3, 9], [[0, 2, 4]] * 2)
    assert a.missed == 1, a.missed


@case
def c02f_h_swallows_dtype():
    a = h(np.array([[1.0, 1.0], [2.0, 3.0]]), 2, dtype=float)
    assert a.dtype == np.dtype(float), a.dtype
    b = h(np.array([[1.0, 1.0], [2.0, 3.0]]), 2, keep_missed=False)
    assert b.keep_missed is False


@case
def c06a_stats_mul():
    a = h1([1, 2, 3, 4])
    v = a.statistics.variance()
    assert abs((a * 2).statistics.variance() - v) < 1e-12, ((a * 2).statistics.variance(), v)


@case
def c07c_is_regular():
    assert not StaticBinning([0, 1, 2, 10]).is_regular()
    assert StaticBinning([0, 1, 2, 3]).is_regular()


@case
def c07c_as_fixed_width():
    f = StaticBinning([0, 1, 2, 3]).as_fixed_width()
    assert f.bin_width == 1 and f.bin_count == 3
    g = StaticBinning([[0, 2]]).as_fixed_width()
    assert g.bin_width == 2 and g.bin_count == 1


@case
def c07a_exponential_log_width():
    try:
        e = ExponentialBinning(0, -1, 3)
    except ValueError:
        return
    raise AssertionError(f"falling bins accepted: {e.numpy_bins}")


@case
def c08a_json_missed_1d():
    a = h1([-1, 1, 2, 3, 9, 9], [0, 1, 2, 3, 4])
    b = parse_json(a.to_json())
    assert (b.underflow, b.overflow) == (a.underflow, a.overflow), (b.underflow, b.overflow)
    assert "missed" not in b.meta_data


@case
def c08a_json_keep_missed():
    a = h1([1, 2, 3], [0, 1, 2, 3, 4], keep_missed=False)
    b = parse_json(a.to_json())
    assert b.keep_missed is False


@case
def c08c_json_missed_nd():
    a = HistogramND([[0, 1, 2], [0, 1, 2]], missed=3)
    b = parse_json(a.to_json())
    assert b._missed.shape == a._missed.shape and b.missed == 3, (b._missed.shape, b.missed)


@case
def c08b_json_includes_right_edge():
    a = Histogram1D(StaticBinning([0, 1, 2], includes_right_edge=False))
    b = parse_json(a.to_json())
    assert b.binning.includes_right_edge is False
    f = Histogram1D(FixedWidthBinning(bin_width=1, bin_count=2, min=0, align=False))
    g = parse_json(f.to_json())
    assert g.binning._align is False


@case
def c15b_cyl_surface_transform():
    from physt.special_histograms import CylindricalSurfaceHistogram as C

    t = C.transform([1, 0, 3])
    assert t.shape == (2,) and t[1] == 3
    t = C.transform([[1, 0, 3], [0, 1, 2]])
    assert t.shape == (2, 2)
    assert len(C.default_axis_names) == 2


@case
def c12a_getitem_views():
    a = h1([0.5, 1.5, 2.5, 3.5], [0, 1, 2, 3, 4])
    y = a[1:3]
    y.fill(1.5)
    assert a.frequencies.tolist() == [1, 1, 1, 1], a.frequencies


@case
def c12a_projection_shares_binnings():
    a = h2([1, 2, 3], [1, 2, 3], "fixed_width", bin_width=1, adaptive=True)
    p = a.projection(0)
    a.fill([10, 10])
    assert p.bin_count == len(p.frequencies), (p.bin_count, len(p.frequencies))


@case
def c12a_radd_returns_self():
    a = h1([1, 2, 3], 3)
    assert sum([a]) is not a


@case
def c12b_copy_stats():
    a = h1([1, 2, 3], 3)
    c = a.copy(include_frequencies=False)
    assert c.statistics.weight == 0


@case
def c13a_isub_dtype():
    a = h1([1, 2, 3], [0, 1, 2, 3, 4])
    b = h1([1, 2], [0, 1, 2, 3, 4], weights=[0.5, 0.5])
    before = a.frequencies.copy()
    try:
        a -= b
    except Exception as e:
        assert (a.frequencies == before).all(), f"raised {e!r} with contents replaced"
        raise AssertionError(f"raised {e!r}")
    assert a.dtype == a.frequencies.dtype == a.errors2.dtype == a._missed.dtype, (
        a.dtype, a.frequencies.dtype)


@case
def c14a_normalize_bins_stats():
    from physt.histogram_collection import HistogramCollection

    a = h1([1, 2, 3], [0, 1, 2, 3, 4]); b = h1([1, 1, 3], [0, 1, 2, 3, 4])
    c = HistogramCollection(a, b).normalize_bins()
    assert np.isnan(c[0].statistics.weight), c[0].statistics


@case
def c15a_double_transform():
    from physt import polar, radial

    p = polar([1, 2, 3], [1, 2, 3], radial_bins=[0, 2, 4, 6], phi_bins=4)
    want = p.find_bin([1, 1])
    before = p.frequencies.copy()
    got = p.fill([1, 1])
    assert got == want, (got, want)
    assert p.frequencies[want] == before[want] + 1
    r = radial([1, 2, 3], [1, 2, 3], bins=[0, 2, 4, 6])
    assert r.fill([1, 1]) == r.find_bin([1, 1])


@case
def c15c_facade_weights_polar():
    from physt import polar

    p = polar([1, np.nan, 3], [1, 2, 3], radial_bins=[0, 2, 4, 6], phi_bins=4, dropna=True,
              weights=[1.0, 2.0, 4.0])
    assert p.total == 5.0


@case
def c15c_facade_weights_spherical():
    from physt import spherical

    p = spherical([[1, 1, 1], [np.nan, 1, 1], [2, 2, 2]], radial_bins=[0, 2, 4, 6],
                  weights=[1.0, 2.0, 4.0])
    assert p.total == 5.0


@case
def c15c_facade_weights_azimuthal():
    from physt import azimuthal

    p = azimuthal([1, np.nan, 3], [1, 2, 3], dropna=True, weights=[1.0, 2.0, 4.0])
    assert p.total == 5.0


@case
def c15c_aliases():
    from physt import special_histograms as s

    assert s.spherical_histogram.__wrapped__ is s.spherical
    assert s.spherical_surface_histogram.__wrapped__ is s.spherical_surface


@case
def c15c_cylindrical_surface():
    from physt import cylindrical_surface, cylindrical

    data = np.array([[1.0, 0.0, 0.5], [0.0, 1.0, 1.5], [-1.0, 0.0, 2.5]])
    a = cylindrical_surface(data, phi_bins=4, z_bins=[0, 1, 2, 3])
    assert a.total == 3 and a.shape == (4, 3)
    assert a.find_bin(data[0]) == (0, 0)


@case
def c17b_pandas_nd_mask():
    import pandas as pd

    df = pd.DataFrame({"a": [1.0, 2.0, np.nan, 4.0], "b": [1.0, 2.0, 3.0, 4.0]})
    a = h(df, 2, weights=[1.0, 2.0, 4.0, 8.0])
    assert a.total + a.missed == 11.0, (a.total, a.missed)


@case
def c18a_merge_bins_partial():
    a = HistogramND([StaticBinning([0, 1, 2, 3, 4]), StaticBinning([[0, 1], [2, 3], [3, 4], [4, 5]])],
                    frequencies=np.arange(16).reshape(4, 4))
    before = (a.shape, a.frequencies.copy())
    try:
        a.merge_bins(2, inplace=True)
    except ValueError:
        assert a.shape == before[0], f"partial merge kept: shape {before[0]} -> {a.shape}"
        return
    raise AssertionError("no refusal")


@case
def c20c_ascii_hbar_ndim():
    a = h2([1, 2, 3], [1, 2, 3], 2)
    try:
        a.plot("hbar", backend="ascii")
    except TypeError:
        return
    except Exception as e:
        raise AssertionError(f"not refused with TypeError: {e!r}")
    raise AssertionError("2D histogram accepted by hbar")


@case
def c04_rounding_known_outside_static_reach():
    a = h1(None, "fixed_width", bin_width=0.1, adaptive=True)
    a.fill(1.7)
    assert a.total == 1 and a.underflow == 0, (a.total, a.underflow)


def main(names):
    bad = 0
    for name in names or CASES:
        try:
            CASES[name]()
            print(f"{name}: OK")
        except AssertionError as e:
            bad += 1
            print(f"{name}: DEFECT {e}")
        except Exception as e:  # noqa
            bad += 1
            print(f"{name}: DEFECT raised {type(e).__name__}: {e}")
    return bad


if __name__ == "__main__":
    sys.exit(1 if main(sys.argv[1:]) else 0)
