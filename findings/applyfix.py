"""Helper used while preparing fix: commits (not part of any check).

usage: applyfix.py <file> <<< "OLD\n=====\nNEW"  — exact replacement, must match once.
"""
import sys

path = sys.argv[1]
text = sys.stdin.read()
old, new = text.split("\n=====\n")
new = new.rstrip("\n") + "\n" if old.endswith("\n") or True else new
old = old.rstrip("\n") + "\n"
s = open(path).read()
n = s.count(old)
if n != 1:
    sys.exit(f"pattern matches {n} times in {path}")
open(path, "w").write(s.replace(old, new))
print("patched", path)
