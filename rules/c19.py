"""C19 - free-arithmetics switch is scoped, restored and isolated per context."""
from __future__ import annotations

import ast

from sa.model import AnalysisError, calls_in, walk_no_nested
from sa.paths import function_paths, index_of, end_kind
from sa.util import U, attr_chain, is_config_flag, cond_mentions_flag, writes_of, envs_along, call_is

EXPLANATION = (
    "C19: the switch is stored only in a contextvars.ContextVar (no attribute, global or import-time cache), "
    "the context manager resets the token in a finally that encloses the yield, every user of it is a with "
    "statement, and every branch of an arithmetic operator / the frequencies setter that accepts an "
    "array-like operand or negative contents lies under a true test of config.free_arithmetics evaluated "
    "in that call; per-thread / per-task isolation then follows from contextvars itself."
)
NOT_DECIDED = "Nothing behavioural beyond the trusted semantics of contextvars (thread/task context copies, token reset)."
TRUSTED = ["contextvars.ContextVar: new threads start from the default, asyncio tasks run in a copy of the "
           "creator's context, reset(token) restores the value before the matching set"]

FLAG = "_free_arithmetics"
STATE_ATTRS = {"_frequencies", "_errors2", "_missed", "_stats", "frequencies", "errors2"}


def _is_contextvar_ctor(module, call: ast.Call) -> bool:
    f = call.func
    if isinstance(f, ast.Attribute) and f.attr == "ContextVar" and isinstance(f.value, ast.Name):
        return module.imports.get(f.value.id, (None, None))[0] == "contextvars"
    if isinstance(f, ast.Name):
        return module.imports.get(f.id) == ("contextvars", "ContextVar")
    return False


def _is_var_expr(env, node) -> bool:
    """node denotes the stored ContextVar object: getattr(self, name) / self._free_arithmetics / local of those."""
    node = env.resolve(node)
    if isinstance(node, ast.Call) and U(node.func) == "getattr" and len(node.args) == 2 and U(node.args[0]) == "self":
        return True
    if isinstance(node, ast.Attribute) and U(node.value) == "self" and node.attr == FLAG:
        return True
    return False


def check_scope_restore(ctx, rule, m):
    """set / reset pairing of the context manager on all exits."""
    cfg = m.module("config")
    C = cfg.classes.get("_Config")
    if C is None:
        raise AnalysisError("class _Config not found in physt/config.py")
    init = C.methods.get("__init__")
    flag_names = {U(c.args[0]) for c in calls_in(init.node) if isinstance(c.func, ast.Attribute) and c.func.attr == "_make_var" and len(c.args) == 2} if init else set()
    cv = C.methods.get("_change_value")
    if cv is None:
        raise AnalysisError("_Config._change_value not found")
    ctx.saw(cv)
    ctx.check(any(d.endswith("contextmanager") for d in cv.decorator_names()), rule, "decorator:_change_value",
              "is a contextlib.contextmanager", "_change_value is not decorated with contextmanager", cv.where)
    body = cv.node.body
    body = [b for b in body if not (isinstance(b, ast.Expr) and isinstance(b.value, ast.Constant))]
    ok = False
    why = "no `token = <var>.set(value)` directly followed by try/finally found"
    for i, st in enumerate(body):
        if (isinstance(st, ast.Assign) and len(st.targets) == 1 and isinstance(st.targets[0], ast.Name)
                and isinstance(st.value, ast.Call) and isinstance(st.value.func, ast.Attribute)
                and st.value.func.attr == "set"):
            tok = st.targets[0].id
            recv = U(st.value.func.value)
            nxt = body[i + 1] if i + 1 < len(body) else None
            if not isinstance(nxt, ast.Try):
                why = "the statement after `.set(...)` is not the try/finally - an exception in between leaks the value"
                continue
            yields_in_body = any(isinstance(n, (ast.Yield, ast.YieldFrom)) for b in nxt.body for n in ast.walk(b))
            yields_elsewhere = any(isinstance(n, (ast.Yield, ast.YieldFrom)) for n in ast.walk(cv.node)) and not yields_in_body
            resets = [c for b in nxt.finalbody for c in calls_in(b)
                      if isinstance(c.func, ast.Attribute) and c.func.attr == "reset"
                      and len(c.args) == 1 and U(c.args[0]) == tok and U(c.func.value) == recv]
            # reset must be unconditional in the finally block
            uncond = any(isinstance(b, ast.Expr) and any(c is b.value for c in resets) for b in nxt.finalbody)
            handlers_swallow = False
            if not yields_in_body or yields_elsewhere:
                why = "the yield is not inside the try body protected by the finally"
            elif not resets or not uncond:
                why = f"finally does not unconditionally call {recv}.reset({tok})"
            elif i + 2 < len(body) and any(isinstance(n, (ast.Yield, ast.YieldFrom)) for b in body[i + 2:] for n in ast.walk(b)):
                why = "a second yield after the try"
            else:
                ok = True
                why = f"{tok} = {recv}.set(..); try: yield; finally: {recv}.reset({tok})"
    ctx.check(ok, rule, "pairing:_change_value", why, why, cv.where)
    # all paths of _change_value that pass the set also pass the reset (path engine cross-check)
    npaths = 0
    allreset = True
    for path in function_paths(cv.node):
        seen_set = seen_reset = False
        for step in path:
            if step[0] == "stmt":
                for c in calls_in(step[1]):
                    if isinstance(c.func, ast.Attribute) and c.func.attr == "set":
                        seen_set = True
                    if isinstance(c.func, ast.Attribute) and c.func.attr == "reset" and seen_set:
                        seen_reset = True
        npaths += 1
        if seen_set and not seen_reset:
            allreset = False
    ctx.check(allreset and npaths > 0, rule, "paths:_change_value", f"all {npaths} structural paths reset after set",
              "a structural path through _change_value sets the variable and never resets it", cv.where)
    ef = C.methods.get("enable_free_arithmetics")
    if ef is None:
        raise AnalysisError("_Config.enable_free_arithmetics not found")
    ctx.saw(ef)
    good = False
    for st in ast.walk(ef.node):
        if isinstance(st, ast.With):
            for it in st.items:
                c = it.context_expr
                if (isinstance(c, ast.Call) and U(c.func) == "self._change_value" and len(c.args) == 2
                        and U(c.args[0]) in flag_names
                        and U(c.args[1]) in [p for p in ef.params()]):
                    if any(isinstance(n, ast.Yield) for b in st.body for n in ast.walk(b)):
                        good = True
    outside = [n for n in ast.walk(ef.node) if isinstance(n, ast.Yield)]
    ctx.check(good and len(outside) == 1 and any(d.endswith("contextmanager") for d in ef.decorator_names()),
              rule, "wrapper:enable_free_arithmetics",
              "contextmanager yielding once inside `with self._change_value(<flag>, value)`",
              "enable_free_arithmetics does not yield exactly once inside `with self._change_value(<flag>, value)`",
              ef.where)



def run(ctx):
    m = ctx.model
    cfg = m.module("config")
    C = cfg.classes.get("_Config")
    if C is None:
        raise AnalysisError("class _Config not found in physt/config.py")

    # ---- C19.a storage --------------------------------------------------------------
    ctx.rule("C19.a", "the switch lives only in a ContextVar: created by contextvars.ContextVar, read via .get(), "
             "written via .set()/.reset(); no attribute/global/default-argument cache of the value anywhere", 6)
    ctors = []
    for fi in list(C.methods.values()) + list(C.getters.values()) + list(C.setters.values()):
        ctx.saw(fi)
        for path in function_paths(fi.node):
            for i, step, env in envs_along(path):
                if step[0] != "stmt":
                    continue
                for c in calls_in(step[1]):
                    if _is_contextvar_ctor(cfg, c):
                        ctors.append((fi, c))
                for w in writes_of(step[1]):
                    if w.root != "self" and not (w.how == "setattr" and w.root == "self"):
                        continue
                    if w.root == "self" and fi.name == "__new__":
                        continue
                    val = env.resolve(w.value) if w.value is not None else None
                    good = isinstance(val, ast.Call) and _is_contextvar_ctor(cfg, val)
                    ctx.check(good, "C19.a", f"store:{fi.qualname}:{U(w.target)[:50]}",
                              "instance attribute receives a ContextVar object",
                              f"_Config.{fi.name} stores `{U(w.value)}` on the instance - the option value must "
                              "live in a ContextVar only, not in an attribute shared by all threads/tasks",
                              fi.where)
    ctx.check(len({id(c) for _, c in ctors}) >= 1, "C19.a", "ctor:contextvars.ContextVar",
              f"{len(ctors)} creation site(s)", "no contextvars.ContextVar(...) creation in _Config", C.where)
    for fi, c in {id(c): (f, c) for f, c in ctors}.values():
        ctx.check(any(k.arg == "default" for k in c.keywords) or len(c.args) >= 2, "C19.a",
                  f"ctor-default:{fi.qualname}", "ContextVar created with a default (new contexts start from it)",
                  "ContextVar created without default", fi.where)

    def returns_get(fi, depth=3) -> bool:
        ok_all = True
        n = 0
        for path in function_paths(fi.node):
            if end_kind(path) != "return":
                if end_kind(path) == "fall":
                    ok_all = False
                continue
            ret = path[-1][2]
            env = None
            for i, step, e in envs_along(path):
                env = e.copy()
            val = ret.value
            n += 1
            if val is None:
                ok_all = False
                continue
            val = env.resolve(val)
            if (isinstance(val, ast.Call) and isinstance(val.func, ast.Attribute) and val.func.attr == "get"
                    and not val.args and _is_var_expr(env, val.func.value)):
                continue
            if (depth > 0 and isinstance(val, ast.Call) and isinstance(val.func, ast.Attribute)
                    and U(val.func.value) == "self" and val.func.attr in C.methods):
                if returns_get(C.methods[val.func.attr], depth - 1):
                    continue
            ok_all = False
        return ok_all and n > 0

    g = C.getters.get("free_arithmetics")
    if g is None:
        raise AnalysisError("_Config.free_arithmetics property not found")
    ctx.check(returns_get(g), "C19.a", "getter:free_arithmetics",
              "every return is <ContextVar>.get() (through self-method delegation)",
              "the free_arithmetics getter does not return <ContextVar>.get() on every path", g.where)

    def does_set(fi, param, depth=3) -> bool:
        for c in calls_in(fi.node):
            if isinstance(c.func, ast.Attribute) and c.func.attr == "set" and len(c.args) == 1:
                # receiver must be the var object
                for path in function_paths(fi.node):
                    for i, step, env in envs_along(path):
                        if step[0] == "stmt" and any(n is c for n in ast.walk(step[1])):
                            if _is_var_expr(env, c.func.value) and U(c.args[0]) == param:
                                return True
            if (depth > 0 and isinstance(c.func, ast.Attribute) and U(c.func.value) == "self"
                    and c.func.attr in C.methods and c.args):
                callee = C.methods[c.func.attr]
                pnames = [p for p in callee.params() if p != "self"]
                for idx, a in enumerate(c.args):
                    if U(a) == param and idx < len(pnames) and does_set(callee, pnames[idx], depth - 1):
                        return True
        return False

    s = C.setters.get("free_arithmetics")
    if s is None:
        raise AnalysisError("_Config.free_arithmetics setter not found")
    sparam = [p for p in s.params() if p != "self"][0]
    ctx.check(does_set(s, sparam), "C19.a", "setter:free_arithmetics",
              "assignment reaches <ContextVar>.set(value)", "the setter does not reach <ContextVar>.set(value)", s.where)

    # default from the environment
    init = C.methods.get("__init__")
    default_ok = False
    flag_names = set()
    if init is not None:
        for c in calls_in(init.node):
            if isinstance(c.func, ast.Attribute) and c.func.attr == "_make_var" and len(c.args) == 2:
                flag_names.add(U(c.args[0]))
                d = c.args[1]
                if (isinstance(d, ast.Compare) and len(d.ops) == 1 and isinstance(d.ops[0], ast.Eq)
                        and isinstance(d.left, ast.Call) and U(d.left.func).endswith("environ.get")
                        and d.left.args and getattr(d.left.args[0], "value", None) == "PHYST_FREE_ARITHMETICS"
                        and getattr(d.comparators[0], "value", None) == "1"
                        and (len(d.left.args) < 2 or getattr(d.left.args[1], "value", None) != "1")):
                    default_ok = True
    ctx.check(default_ok, "C19.a", "default:env",
              'default is os.environ.get("PHYST_FREE_ARITHMETICS", <not "1">) == "1"',
              "the default of the switch is not the PHYST_FREE_ARITHMETICS == '1' test", C.where)

    # no caching of the value anywhere in physt
    n_reads = 0
    for mod in m.modules.values():
        fdefs = [n for n in ast.walk(mod.tree) if isinstance(n, (ast.FunctionDef, ast.AsyncFunctionDef, ast.Lambda))]
        inside = set()
        for f in fdefs:
            body = f.body if isinstance(f.body, list) else [f.body]
            for b in body:
                for n in ast.walk(b):
                    inside.add(id(n))
        for n in ast.walk(mod.tree):
            if is_config_flag(m, mod, n) and isinstance(n.ctx, ast.Load):
                n_reads += 1
                if id(n) not in inside:
                    ctx.bad("C19.a", f"cache:{mod.short}:{n.lineno}-module-level",
                            f"config.free_arithmetics is evaluated at import / definition time in {mod.relpath}:{n.lineno}"
                            " (module level, class body, decorator or default argument) - a cached value is not per-context",
                            f"{mod.relpath}:{n.lineno}")
        for st in ast.walk(mod.tree):
            if isinstance(st, (ast.Assign, ast.AnnAssign, ast.AugAssign)) and st.value is not None:
                if any(is_config_flag(m, mod, n) for n in ast.walk(st.value)):
                    targets = st.targets if isinstance(st, ast.Assign) else [st.target]
                    for t in targets:
                        if isinstance(t, (ast.Attribute, ast.Subscript)):
                            ctx.bad("C19.a", f"cache:{mod.short}:{U(t)}",
                                    f"value of config.free_arithmetics stored into `{U(t)}` ({mod.relpath}:{st.lineno})",
                                    f"{mod.relpath}:{st.lineno}")
            if isinstance(st, ast.Global):
                pass
    ctx.check(n_reads >= 5, "C19.a", "reads:config.free_arithmetics", f"{n_reads} reads, all inside function bodies",
              f"only {n_reads} reads of config.free_arithmetics found (expected the 5 guards)", cfg.relpath)
    inst = [c for mod in m.modules.values() for c in ast.walk(mod.tree)
            if isinstance(c, ast.Call) and U(c.func) in ("_Config", "config._Config")]
    ctx.check(len(inst) == 1, "C19.a", "singleton:_Config()", "instantiated exactly once",
              f"_Config instantiated {len(inst)} times", cfg.relpath)

    # ---- C19.b set/reset pairing ---------------------------------------------------------
    ctx.rule("C19.b", "token = var.set(v) immediately before a try whose body yields and whose finally calls "
             "var.reset(token); the public manager yields inside `with self._change_value(...)`", 4, exhaustive=True)
    check_scope_restore(ctx, "C19.b", m)

    # ---- C19.d users use `with` -------------------------------------------------------------
    ctx.rule("C19.d", "every call of enable_free_arithmetics is a with-item (the generator is always closed)", 1)
    for mod in m.modules.values():
        with_items = {id(it.context_expr) for n in ast.walk(mod.tree) if isinstance(n, (ast.With, ast.AsyncWith))
                      for it in n.items}
        for c in ast.walk(mod.tree):
            if isinstance(c, ast.Call) and isinstance(c.func, ast.Attribute) and c.func.attr == "enable_free_arithmetics":
                ctx.check(id(c) in with_items, "C19.d", f"use:{mod.short}:{U(c)}",
                          "used as a with item", "enable_free_arithmetics() called outside a with statement",
                          f"{mod.relpath}:{c.lineno}")
    if not any(r["rule"] == "C19.d" for r in ctx.results):
        ctx.ok("C19.d", "use:none", "no internal users")

    # ---- C19.c guards dominate acceptance ------------------------------------------------------
    ctx.rule("C19.c", "array-like operands / negative contents reach a contents store only under a true test of "
             "config.free_arithmetics on the same path; the false side raises", 5, exhaustive=True)
    hb = m.module("histogram_base")
    HB = m.cls("HistogramBase")
    ops = ["__iadd__", "__isub__", "__imul__", "__itruediv__"]
    for op in ops:
        fi = HB.methods.get(op)
        if fi is None:
            raise AnalysisError(f"HistogramBase.{op} not found")
        ctx.saw(fi)
        operand = [p for p in fi.params() if p != "self"][0]
        n_array_paths = 0
        guard_seen = False
        for path in function_paths(fi.node):
            hist = scalar = False
            flag_true = False
            flag_false = False
            verdict = None
            for i, step, env in envs_along(path):
                if step[0] == "cond":
                    t = step[1]
                    txt = U(t)
                    if isinstance(t, ast.Call) and U(t.func) == "isinstance" and U(t.args[0]) == operand \
                            and "HistogramBase" in U(t.args[1]):
                        if step[2]:
                            hist = True
                    elif isinstance(t, ast.Call) and call_is(t, "isscalar") and U(t.args[0]) == operand:
                        if step[2]:
                            scalar = True
                    elif cond_mentions_flag(m, hb, t):
                        guard_seen = True
                        if isinstance(t, ast.UnaryOp) and isinstance(t.op, ast.Not):
                            flag_true, flag_false = (not step[2]) or flag_true, step[2] or flag_false
                        elif is_config_flag(m, hb, t):
                            flag_true, flag_false = step[2] or flag_true, (not step[2]) or flag_false
                        else:
                            verdict = ("unknown", f"guard expression `{txt}` not understood")
                elif step[0] == "stmt" and not (hist or scalar):
                    st = step[1]
                    ws = [w for w in writes_of(st) if w.root == "self" and w.attr in STATE_ATTRS]
                    if ws and not flag_true and verdict is None:
                        verdict = ("bad", f"`{U(st)[:70]}` executes for a non-histogram, non-scalar operand without "
                                          "a preceding true test of config.free_arithmetics")
            if hist or scalar:
                continue
            n_array_paths += 1
            ek = end_kind(path)
            key = f"{fi.qualname}:array-path:" + ";".join(f"{c}={v}" for c, v in
                                                              [(U(s[1])[:40], s[2]) for s in path if s[0] == "cond"])
            if verdict and verdict[0] in ("bad", "unknown"):
                ctx.bad("C19.c", key, verdict[1], fi.where)
            elif flag_true:
                ctx.ok("C19.c", key, "array operand branch lies under config.free_arithmetics == True", fi.where)
            elif ek == "raise":
                exc = path[-1][2]
                ok_t = isinstance(exc, ast.Raise) and exc.exc is not None and "TypeError" in U(exc.exc)
                ctx.check(ok_t, "C19.c", key, "array operand refused with TypeError",
                          f"array operand refused with `{U(exc)[:60]}`, not TypeError", fi.where)
            else:
                # no store on this path: must delegate to a checked operator on self
                deleg = False
                for st in [s[1] for s in path if s[0] == "stmt"]:
                    for c in calls_in(st):
                        if isinstance(c.func, ast.Attribute) and U(c.func.value) == "self" and c.func.attr in ops:
                            deleg = True
                    if isinstance(st, ast.AugAssign) and U(st.target) == "self":
                        deleg = True
                ctx.check(deleg, "C19.c", key, "delegates to a guarded in-place operator of self",
                          "array-like operand accepted (path returns normally) without a free-arithmetics guard "
                          "and without delegating to a guarded operator", fi.where)
        ctx.check(n_array_paths >= 1, "C19.c", f"{fi.qualname}:has-array-paths",
                  f"{n_array_paths} array-operand paths analysed", "no array-operand path found", fi.where)
    # the sign guard lives in the `frequencies` setter: operators must not bypass it
    for op in ops + ["__iadd__"]:
        fi = HB.methods[op]
        direct = [w for st in ast.walk(fi.node) if isinstance(st, ast.stmt) for w in writes_of(st)
                  if w.root == "self" and w.attr == "_frequencies" and w.how in ("store", "aug")]
        ctx.check(not direct, "C19.c", f"{fi.qualname}:contents-through-setter",
                  "contents are stored through the validating `frequencies` setter only",
                  f"`{U(direct[0].stmt)[:80]}` writes self._frequencies directly, bypassing the negative-contents "
                  "guard of the setter (a negative factor / operand is then accepted without free arithmetics)"
                  if direct else "", fi.where)
    from rules import c13
    c13.check_init_through_setter(ctx, "C19.c", m)
    writers_ = []
    for fi_ in m.all_funcs():
        if fi_.module.short == "config":
            continue
        for st in ast.walk(fi_.node):
            if isinstance(st, (ast.Assign, ast.AugAssign, ast.AnnAssign)):
                tg = st.targets if isinstance(st, ast.Assign) else [st.target]
                if any(isinstance(t_, ast.Attribute) and t_.attr == "free_arithmetics" for t_ in tg):
                    writers_.append(f"{fi_.qualname}: `{U(st)[:50]}`")
            if isinstance(st, ast.Call) and U(st.func).endswith("_free_arithmetics.set"):
                writers_.append(f"{fi_.qualname}: `{U(st)[:50]}`")
    ctx.check(not writers_, "C19.c", "library-never-assigns-the-option", "outside config.py the option is only entered through enable_free_arithmetics()",
              f"{writers_[:2]} assign the option directly: the previous value (of this context) is not restored", "src/physt")
    # frequencies setter: negative contents
    fs = HB.setters.get("frequencies")
    if fs is None:
        raise AnalysisError("HistogramBase.frequencies setter not found")
    ctx.saw(fs)
    neg_paths = 0
    for path in function_paths(fs.node):
        neg = False
        flag_true = False
        stored_before = False
        for step in path:
            if step[0] == "cond":
                txt = U(step[1])
                if "< 0" in txt.replace(" ", " ") and step[2] and not cond_mentions_flag(m, hb, step[1]):
                    neg = True
                if is_config_flag(m, hb, step[1]) and step[2]:
                    flag_true = True
                if isinstance(step[1], ast.UnaryOp) and isinstance(step[1].op, ast.Not) \
                        and is_config_flag(m, hb, step[1].operand) and not step[2]:
                    flag_true = True
        if not neg:
            continue
        neg_paths += 1
        key = f"{fs.qualname}:negative:" + ";".join(f"{U(s[1])[:30]}={s[2]}" for s in path if s[0] == "cond")
        stores = any(w.root == "self" and w.attr == "_frequencies" for s in path if s[0] == "stmt"
                     for w in writes_of(s[1]))
        if stores:
            ctx.check(flag_true, "C19.c", key, "negative contents stored only under free arithmetics",
                      "negative contents are stored although config.free_arithmetics was not tested true", fs.where)
        else:
            ek = end_kind(path)
            ctx.check(ek == "raise" and "ValueError" in U(path[-1][2]), "C19.c", key,
                      "negative contents refused with ValueError", "negative contents neither stored nor refused with ValueError",
                      fs.where)
    ctx.check(neg_paths >= 2, "C19.c", f"{fs.qualname}:has-negative-paths", f"{neg_paths} paths with a negative-content test",
              "the frequencies setter no longer tests for negative contents", fs.where)
    # every store to _frequencies in the setter is preceded by the sign test
    for path in function_paths(fs.node):
        for idx, step in enumerate(path):
            if step[0] == "stmt" and any(w.root == "self" and w.attr == "_frequencies" for w in writes_of(step[1])):
                tested = any(s[0] == "cond" and "< 0" in U(s[1]) for s in path[:idx])
                if not tested:
                    ctx.bad("C19.c", f"{fs.qualname}:store-without-sign-test",
                            "a path stores _frequencies without passing the negative-contents test", fs.where)
    # any other direct acceptance of negative contents: errors2 setter must refuse unconditionally
    es = HB.setters.get("errors2")
    if es is not None:
        ctx.saw(es)
        bad = False
        for path in function_paths(es.node):
            neg = any(s[0] == "cond" and "< 0" in U(s[1]) and s[2] for s in path)
            if neg and end_kind(path) != "raise":
                bad = True
        ctx.check(not bad, "C19.c", f"{es.qualname}:negative-refused", "negative squared errors always refused",
                  "negative squared errors accepted on some path", es.where)
    ctx.borrow("C05", ("HistogramBase.__sub__:every-path", "HistogramBase.__add__:every-path"), "C19.c", floor=2)
