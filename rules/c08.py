"""C08 - JSON round trip reproduces the histogram exactly."""
from __future__ import annotations

import ast

from sa.model import AnalysisError, calls_in
from sa.paths import function_paths, end_kind
from sa.schema import KwargsFlow, init_landing, written_keys
from sa.util import U, Env, const_value, writes_of

EXPLANATION = (
    "C08: writer/reader schema agreement. Every key HistogramBase.to_dict writes is written on every path from the "
    "attribute it names, is read back by the class's _kwargs_from_dict chain and lands on the named constructor "
    "parameter that restores that attribute (not in the **kwargs -> meta data sink), for all ten concrete histogram "
    "classes; every state-determining constructor parameter of every binning class is written by to_dict/_update_dict "
    "under a key the constructor accepts by name; the missed list is unpacked in the order the constructor stores it; "
    "class names are unique so find_subclass recovers the class; parse_json/load_json always pass through the version "
    "gate, which compares parsed Version objects and raises; save_json stamps the compatible version and writes the "
    "text it returns; collections serialise every member."
)
NOT_DECIDED = "bit-identity of floats through json (true for finite float64 by repr round-trip, not for float128), NaN tokens, allclose-based ==."
TRUSTED = ["json.dumps / json.loads round-trip of lists, dicts, strings, bools and finite floats", "packaging.version ordering"]

# writer key -> constructor parameter(s) that must receive it
EXPECT_1D = {"binnings": ["binning"], "frequencies": ["frequencies"], "errors2": ["errors2"], "dtype": ["dtype"],
             "missed": ["underflow", "overflow", "inner_missed"], "missed_keep": ["keep_missed"]}
EXPECT_ND = {"binnings": ["binnings"], "frequencies": ["frequencies"], "errors2": ["errors2"], "dtype": ["dtype"],
             "missed": ["missed"], "missed_keep": ["keep_missed"]}
SOURCE_ATTR = {"binnings": "_binnings", "frequencies": "frequencies", "errors2": "errors2", "dtype": "dtype",
               "missed": "_missed", "missed_keep": "keep_missed", "meta_data": "_meta_data", "histogram_type": "type(self).__name__"}
BINNING_EXCEPTIONS = {
    ("StaticBinning", "adaptive"): "StaticBinning.adaptive_allowed is False, so adaptive is always False and the ignored key loses nothing",
}
ALT_ENCODING = {("FixedWidthBinning", "min"): ("bin_times_min", "bin_shift"), ("BinningBase", "bins"): ("numpy_bins",),
                ("BinningBase", "numpy_bins"): ("bins",)}


# dictionary key -> attribute (with or without underscore) holding the constructor parameter of that key
BINNING_KEY_ATTR = {"bins": "bins", "numpy_bins": "numpy_bins", "bin_count": "bin_count", "bin_width": "bin_width", "bin_shift": "shift",
                    "bin_times_min": "times_min", "align": "align", "log_min": "log_min", "log_width": "log_width",
                    "adaptive": "adaptive", "includes_right_edge": "includes_right_edge"}


def _reads_attr(text: str, base: str) -> bool:
    t = text
    for w in ("float(", "int(", "bool("):
        if t.startswith(w) and t.endswith(")"):
            t = t[len(w):-1]
    if t.endswith(".tolist()"):
        t = t[:-len(".tolist()")]
    return t in (f"self.{base}", f"self._{base}")


def _all_returns(fi, accepted) -> bool:
    """Every return statement of the function returns one of the accepted expressions (no shortcut path returns anything else)."""
    rets = [U(n.value) if n.value is not None else "None" for n in ast.walk(fi.node) if isinstance(n, ast.Return)]
    return bool(rets) and all(r in accepted for r in rets)


def run(ctx):
    m = ctx.model
    HB, BB = m.cls("HistogramBase"), m.cls("BinningBase")
    td = HB.methods.get("to_dict")
    if td is None:
        raise AnalysisError("HistogramBase.to_dict not found")
    ctx.saw(td)
    wk = written_keys(td, {"result"})
    # find the dict variable name if it is not `result`
    if not wk:
        names = {U(n.targets[0]) for n in ast.walk(td.node) if isinstance(n, ast.Assign) and isinstance(n.value, ast.Dict)}
        wk = written_keys(td, names)
    ctx.rule("C08.a", "every key written by to_dict is written unconditionally from its attribute, read back, and lands on "
             "the named constructor parameter (not the meta-data sink) for each concrete histogram class", 60)
    for k, exp in SOURCE_ATTR.items():
        d = wk.get(k)
        if d is None:
            ctx.bad("C08.a", f"writer:{k}", f"to_dict no longer writes the key '{k}'", td.where)
            continue
        uncond = d["paths_with"] == d["paths_total"]
        src_ok = all(_reads_attr(v.replace("str(np.dtype(self.dtype))", "self.dtype"), exp.lstrip("_")) or v == exp
                     or (k == "binnings" and v == "[binning.to_dict() for binning in self._binnings]")
                     or (k == "frequencies" and v == "None") for v in d["values"])
        ctx.check(uncond and src_ok, "C08.a", f"writer:{k}", f"written on all {d['paths_total']} paths from {exp}",
                  (f"key '{k}' is written only on {d['paths_with']} of {d['paths_total']} paths (a conditional write makes the "
                   "reader fall back to a default that is not the stored value)" if not uncond else
                   f"key '{k}' is written from {sorted(d['values'])}, not from {exp}"), td.where)
    extra = sorted(set(wk) - set(SOURCE_ATTR))
    flow = KwargsFlow(m)
    classes = [c for c in m.subclasses(HB) if c.name != "HistogramBase"]
    ctx.check(len(classes) >= 10, "C08.a", "classes", f"{len(classes)} concrete histogram classes", "fewer than 10 histogram classes found", HB.where)
    for c in classes:
        r = m.resolve_method(c, "_kwargs_from_dict")
        if r is None:
            ctx.bad("C08.a", f"{c.name}:reader", "no _kwargs_from_dict", c.where)
            continue
        ctx.saw(r[1])
        kw = flow.run(r[1], c)
        is1d = m.is_subclass(c, "Histogram1D")
        expect = EXPECT_1D if is1d else EXPECT_ND
        for key, params in expect.items():
            got = sorted(k for k, v in kw.items() if v.get("from") == key)
            ikey = f"{c.name}:{key}"
            if not got:
                ctx.bad("C08.a", ikey, f"'{key}' is written by to_dict but the reader chain {r[1].qualname} never passes it to the constructor", r[1].where)
                continue
            if got != sorted(params):
                # maybe it goes under another kwargs key: see where that lands
                pass
            probs = []
            for kk in got:
                land = init_landing(m, c, kk)
                if land[0] != "param":
                    probs.append(f"'{key}' -> kwargs['{kk}'] ends in {land[0]} of {land[1].name if land[1] else None} ({land[2]})"
                                 + (" - i.e. in the meta data, not in the attribute it came from" if land[0] == "sink" else ""))
                elif kk not in params:
                    probs.append(f"'{key}' -> parameter '{kk}', expected {params}")
            missing = [p_ for p_ in params if p_ not in got]
            if missing and not probs:
                probs.append(f"'{key}' should reach parameter(s) {params}; reader provides {got}")
            ctx.check(not probs, "C08.a", ikey, f"'{key}' -> {', '.join(got)} (named parameter)", " ; ".join(probs), r[1].where)
        # meta data merged as **kwargs
        ctx.check(kw.get("**", {}).get("from") == "meta_data", "C08.a", f"{c.name}:meta_data", "meta data merged into the keyword arguments",
                  "meta_data is not merged back into the constructor keywords", r[1].where)
        for key in extra:
            got = [k for k, v in kw.items() if v.get("from") == key]
            ctx.check(bool(got) and all(init_landing(m, c, g)[0] == "param" for g in got), "C08.a", f"{c.name}:{key}",
                      f"additional key '{key}' restored", f"additional key '{key}' written by to_dict is not restored by the reader", r[1].where)
    # optional keys must be guarded by presence (`"k" in a_dict`), never by the truthiness of the stored value
    readers = {}
    for c in classes:
        rr = m.resolve_method(c, "_kwargs_from_dict")
        k_ = rr[0] if rr else None
        while rr is not None:
            readers[rr[1].qualname] = rr[1]
            rr = m.resolve_method(c, "_kwargs_from_dict", after=rr[0])
    for r_ in sorted(readers.values(), key=lambda f: f.qualname):
        src = [p_ for p_ in r_.params() if p_ not in ("cls", "self")][0]
        bad = []
        n = 0
        for node in ast.walk(r_.node):
            if isinstance(node, ast.If):
                t = node.test
                for x in ast.walk(t):
                    if isinstance(x, ast.Call) and U(x.func) == f"{src}.get" or (isinstance(x, ast.Subscript) and U(x.value) == src):
                        n += 1
                        par_ok = isinstance(t, ast.Compare) and any(isinstance(c_, ast.Constant) and c_.value is None for c_ in t.comparators)
                        if not par_ok:
                            bad.append(f"`if {U(t)}` tests the stored value, so a stored False / 0 / empty value is not restored")
                if isinstance(t, ast.Compare) and len(t.ops) == 1 and isinstance(t.ops[0], ast.In) and U(t.comparators[0]) == src:
                    n += 1
        # polarity: the stored value is read exactly on the paths where the key is present
        for path in function_paths(r_.node):
            pres = {}
            for s_ in path:
                if s_[0] == "cond" and isinstance(s_[1], ast.Compare) and len(s_[1].ops) == 1 and isinstance(s_[1].ops[0], (ast.In, ast.NotIn)) \
                        and U(s_[1].comparators[0]) == src and isinstance(s_[1].left, ast.Constant):
                    pres[s_[1].left.value] = (isinstance(s_[1].ops[0], ast.In) == s_[2])
            reads = {x.slice.value for s_ in path if s_[0] == "stmt" for x in ast.walk(s_[1])
                     if isinstance(x, ast.Subscript) and U(x.value) == src and isinstance(x.slice, ast.Constant)}
            for k_, present in pres.items():
                if present and k_ not in reads:
                    bad.append(f"'{k_}' is present but its value is not read on that path")
                if not present and k_ in reads:
                    bad.append(f"'{k_}' is read on the path where it is absent")
        bad = sorted(set(bad))
        ctx.check(not bad, "C08.a", f"{r_.qualname}:presence-guards", f"{n} optional-key guard(s), all presence tests", " ; ".join(bad), r_.where)

    # the subclass hook that adds keys is invoked on the dictionary that is returned
    for owner, td_ in (("HistogramBase", td), ("BinningBase", BB.methods["to_dict"])):
        rets_ = [U(n.value) for n in ast.walk(td_.node) if isinstance(n, ast.Return)]
        hook = [U(c.args[0]) for c in calls_in(td_.node) if U(c.func) == "self._update_dict" and c.args]
        ctx.check(len(rets_) == 1 and hook == rets_, "C08.a", f"{owner}.to_dict:hook", "self._update_dict(<the returned dict>) is called",
                  f"{owner}.to_dict returns {rets_} but calls the subclass hook on {hook} - keys added by subclasses are lost", td_.where)

    # the 1-D / N-D readers unpack the stored missed list exactly when it is there
    k1 = m.cls("Histogram1D").methods.get("_kwargs_from_dict")
    pol1 = {}
    for p_ in (function_paths(k1.node) if k1 is not None else []):
        cs_ = dict((U(s_[1]), s_[2]) for s_ in p_ if s_[0] == "cond")
        if "missed is not None" in cs_:
            pol1[cs_["missed is not None"]] = any(s_[0] == "stmt" and isinstance(s_[1], ast.Assign) and "kwargs['underflow']" in U(s_[1].targets[0]) for s_ in p_)
    ctx.check(pol1 == {True: True, False: False}, "C08.a", "Histogram1D._kwargs_from_dict:missed-unpacked",
              "underflow, overflow, inner_missed = missed exactly when a missed list was stored", f"unpacking per `missed is not None`: {pol1}", k1.where if k1 is not None else HB.where)
    kn = m.cls("HistogramND").methods.get("_kwargs_from_dict")
    poln = {}
    for p_ in (function_paths(kn.node) if kn is not None else []):
        cs_ = dict((U(s_[1]), s_[2]) for s_ in p_ if s_[0] == "cond")
        if "'missed' in kwargs" in cs_:
            poln[cs_["'missed' in kwargs"]] = any(s_[0] == "stmt" and isinstance(s_[1], ast.Assign) and "kwargs['missed']" in U(s_[1].targets[0]) for s_ in p_)
    ctx.check(poln == {True: True, False: False}, "C08.a", "HistogramND._kwargs_from_dict:missed-unpacked",
              "(missed,) = stored one-item list exactly when present", f"unpacking per `'missed' in kwargs`: {poln}" if kn is not None else
              "HistogramND has no reader of its own: the stored one-item missed list is handed to the constructor as it is", kn.where if kn is not None else HB.where)
    # the constructor honours an explicit dtype for given contents (the reader passes the stored dtype next to plain lists)
    hinit = HB.methods["__init__"]
    got_ = {}
    for p_ in function_paths(hinit.node):
        cs_ = dict((U(s_[1]), s_[2]) for s_ in p_ if s_[0] == "cond")
        if cs_.get("frequencies is None") is False and "dtype is not None" in cs_ and end_kind(p_) != "raise":
            conv = [U(s_[1].value) for s_ in p_ if s_[0] == "stmt" and isinstance(s_[1], ast.Assign) and U(s_[1].targets[0]) == "frequencies"]
            got_.setdefault(cs_["dtype is not None"], set()).add(conv[0] if conv else None)
    ctx.check(got_.get(True) == {"np.asarray(frequencies, dtype=dtype)"} and "np.asarray(frequencies)" in (got_.get(False) or set()), "C08.a",
              "HistogramBase.__init__:explicit-dtype", "given contents are converted to the requested dtype; without one their own type decides",
              f"conversion of given frequencies per `dtype is not None`: {got_}", hinit.where)
    from rules import c12
    c12.check_default_init_values(ctx, "C08.a", m)    # stored metadata win over class defaults when the histogram is rebuilt
    kf = HB.methods["_kwargs_from_dict"]
    dim_if = [n for n in ast.walk(kf.node) if isinstance(n, ast.If) and "dimension" in U(n)]
    okdim = len(dim_if) == 1 and U(dim_if[0].test) == "len(kwargs['binnings']) > 2" and [U(b) for b in dim_if[0].body] == ["kwargs['dimension'] = len(kwargs['binnings'])"]
    ctx.check(okdim, "C08.a", "HistogramBase._kwargs_from_dict:dimension", "`dimension` is passed for more than two axes only (the 1-D / 2-D constructors fix it themselves)",
              f"dimension handling: {[U(n)[:90] for n in dim_if]}", kf.where)

    # from_dict is cls(**kwargs) of that chain
    fd = HB.methods.get("from_dict")
    ctx.saw(fd)
    okfd = _all_returns(fd, ("cls(**kwargs)",)) and \
        any(isinstance(n, ast.Assign) and U(n.value) == "cls._kwargs_from_dict(a_dict)" for n in ast.walk(fd.node))
    ctx.check(okfd, "C08.a", "HistogramBase.from_dict", "cls(**cls._kwargs_from_dict(a_dict))", "from_dict is not cls(**cls._kwargs_from_dict(a_dict))", fd.where)

    # ---- C08.c kinds / order of the missed list -------------------------------------------------------------
    ctx.rule("C08.c", "the missed list is unpacked in the order Histogram1D stores it; ND takes its single element", 3)
    H1, HN = m.cls("Histogram1D"), m.cls("HistogramND")
    init1 = H1.methods["__init__"]
    order = None
    for n in ast.walk(init1.node):
        if isinstance(n, ast.Assign) and U(n.targets[0]) == "missed" and isinstance(n.value, ast.List):
            order = [U(e) for e in n.value.elts]
    ctx.check(order == ["underflow", "overflow", "inner_missed"], "C08.c", "Histogram1D.__init__:order",
              "missed = [underflow, overflow, inner_missed]", f"constructor stores missed as {order}", init1.where)
    idx = {}
    for name in ("underflow", "overflow", "inner_missed"):
        g, s = H1.getters.get(name), H1.setters.get(name)
        gi = [U(n.slice) for n in ast.walk(g.node) if isinstance(n, ast.Subscript) and U(n.value) == "self._missed"] if g else []
        si = [U(n.slice) for n in ast.walk(s.node) if isinstance(n, ast.Subscript) and U(n.value) == "self._missed"] if s else []
        idx[name] = (gi, si)
    okidx = all(idx[n] == ([str(i)], [str(i)]) for i, n in enumerate(["underflow", "overflow", "inner_missed"]))
    ctx.check(okidx, "C08.c", "Histogram1D:slots", "underflow/overflow/inner_missed read and write _missed[0/1/2]",
              f"property slots disagree with the storage order: {idx}", H1.where)
    r1 = m.resolve_method(H1, "_kwargs_from_dict")[1]
    kw1 = flow.run(r1, H1)
    hows = {k: kw1.get(k, {}).get("how", "") for k in ("underflow", "overflow", "inner_missed")}
    ctx.check(all(hows[n].endswith(f"[{i}/3]") for i, n in enumerate(["underflow", "overflow", "inner_missed"])), "C08.c",
              "Histogram1D._kwargs_from_dict:unpack-order", "missed[0], [1], [2] -> underflow, overflow, inner_missed",
              f"the reader unpacks the missed list as {hows}", r1.where)
    rn = m.resolve_method(HN, "_kwargs_from_dict")[1]
    kwn = flow.run(rn, HN)
    ctx.check(kwn.get("missed", {}).get("how", "").endswith("[0/1]") or kwn.get("missed", {}).get("how", "") in ("[0]",), "C08.c",
              "HistogramND._kwargs_from_dict:unwrap", "the one-item missed list is unwrapped to its scalar",
              f"ND reader passes missed as `{kwn.get('missed')}` (a list would become a (1,1) array)", rn.where)

    # ---- C08.b binnings ---------------------------------------------------------------------------------------
    ctx.rule("C08.b", "every state-determining constructor parameter of each binning class is written under a key its "
             "constructor takes by name; every written key is accepted", 20)
    btd = BB.methods["to_dict"]
    base_keys = written_keys(btd, {U(n.targets[0]) if isinstance(n, ast.Assign) else U(n.target) for n in ast.walk(btd.node)
                                   if isinstance(n, (ast.Assign, ast.AnnAssign)) and isinstance(n.value, ast.Dict)})
    bfd = BB.methods["from_dict"]
    popped = {const_value(c.args[0]) for c in calls_in(bfd.node) if isinstance(c.func, ast.Attribute) and c.func.attr == "pop" and c.args}
    okb = _all_returns(bfd, ("klass(**a_dict)",)) and \
        any(U(c.func) == "find_subclass" and U(c.args[0]) == "BinningBase" for c in calls_in(bfd.node))
    ctx.check(okb and popped == {"binning_type"}, "C08.b", "BinningBase.from_dict", "pops binning_type, finds the subclass, klass(**a_dict)",
              "BinningBase.from_dict no longer builds klass(**a_dict) from the named subclass", bfd.where)
    for c in m.subclasses(BB):
        ud = m.resolve_method(c, "_update_dict")
        if ud is None or ud[0].name == "BinningBase":
            ctx.bad("C08.b", f"{c.name}:_update_dict", "binning class without its own _update_dict (to_dict raises NotImplementedError)", c.where)
            continue
        ctx.saw(ud[1])
        dparam = [p for p in ud[1].params() if p != "self"][0]
        keys = dict(base_keys)
        keys.update(written_keys(ud[1], {dparam}))
        keys.pop("binning_type", None)
        for k, d in keys.items():
            land = init_landing(m, c, k)
            ikey = f"{c.name}:key:{k}"
            base = BINNING_KEY_ATTR.get(k)
            ok_src = base is None or all(_reads_attr(v, base) for v in d["values"])
            if d["paths_with"] != d["paths_total"]:
                ctx.bad("C08.b", ikey, f"key '{k}' is written conditionally", ud[1].where)
            elif not ok_src:
                ctx.bad("C08.b", ikey, f"key '{k}' is written from {sorted(d['values'])}, not (only) from the attribute `{base}` the constructor "
                        "parameter of that name is stored in - another representation need not carry the same numbers "
                        "(e.g. edges instead of (left, right) pairs)", ud[1].where)
            elif land[0] == "param" or (c.name, k) in BINNING_EXCEPTIONS:
                ctx.ok("C08.b", ikey, f"'{k}' accepted by {land[1].name if land[1] else c.name}.__init__ ({land[0]})"
                       + (": " + BINNING_EXCEPTIONS[(c.name, k)] if (c.name, k) in BINNING_EXCEPTIONS and land[0] != "param" else ""), ud[1].where)
            else:
                ctx.bad("C08.b", ikey, f"key '{k}' written for {c.name} is swallowed by **kwargs of {land[1].name if land[1] else '?'}.__init__ "
                        "and ignored - the value does not survive the round trip", ud[1].where)
        # state-determining parameters
        for k_ in m.mro(c):
            init = k_.methods.get("__init__")
            if init is None:
                continue
            a = init.node.args
            params = [x.arg for x in a.posonlyargs + a.args + a.kwonlyargs if x.arg != "self"]
            stored = set()
            for st in ast.walk(init.node):
                if isinstance(st, ast.Assign):
                    for w in writes_of(st):
                        if w.root == "self":
                            stored |= {n.id for n in ast.walk(st.value) if isinstance(n, ast.Name)}
                if isinstance(st, ast.Call) and isinstance(st.func, ast.Attribute) and st.func.attr == "__init__":
                    for kwd in st.keywords:
                        if kwd.arg:
                            stored |= {n.id for n in ast.walk(kwd.value) if isinstance(n, ast.Name)}
            # parameters that only pass through to a parent by name are judged at the parent
            for p in params:
                if p not in stored:
                    continue
                if k_ is not c and init_landing(m, c, p)[0] != "param":
                    continue
                alt = ALT_ENCODING.get((k_.name, p))
                okp = p in keys or (alt is not None and all(x in keys for x in alt))
                # a parent parameter may be fixed by the subclass (not forwarded): then it is not state of c
                if k_ is not c:
                    sub_init = m.resolve_method(c, "__init__")[1]
                    forwards = any(isinstance(cc.func, ast.Attribute) and cc.func.attr == "__init__" and
                                   (any(kwd.arg == p for kwd in cc.keywords) or any(kwd.arg is None for kwd in cc.keywords))
                                   for cc in calls_in(sub_init.node))
                    if not forwards:
                        continue
                    named = any(isinstance(cc.func, ast.Attribute) and cc.func.attr == "__init__" and any(kwd.arg == p for kwd in cc.keywords)
                                for cc in calls_in(sub_init.node))
                    if named:
                        # forwarded from an expression of the subclass' own parameters: judged there
                        continue
                ctx.check(okp, "C08.b", f"{c.name}:state:{k_.name}.{p}", f"constructor state `{p}` is written"
                          + (f" (as {alt})" if alt and p not in keys else ""),
                          f"{k_.name}.__init__ stores parameter `{p}` in the instance but {c.name}'s dictionary has no key for it "
                          f"(keys: {sorted(keys)}) - the value is lost in JSON", ud[1].where)

    from rules import wiring as _w
    _w.params_used(ctx, "C08.a", _w.funcs_of(m, "io.json", "io.util", "io.version", "io"), "io:options-read")
    _w.same_name_forwarding(ctx, "C08.a", m, _w.funcs_of(m, "io.json", "io.util", "io.version", "io"), "io:options-forwarded")

    # ---- C08.d class recovery ---------------------------------------------------------------------------------------
    ctx.rule("C08.d", "types are written as type(self).__name__ and class names are unique among the subclasses", 3)
    dups = {n: [c.module.short for c in cs] for n, cs in m.duplicate_classes.items()
            if any(m.is_subclass(c, "HistogramBase") or m.is_subclass(c, "BinningBase") for c in cs)}
    ctx.check(not dups, "C08.d", "unique-class-names", "no two histogram / binning classes share a name", f"duplicate class names {dups}: find_subclass cannot choose", HB.where)
    ctx.check(any("type(self).__name__" in v for v in base_keys.get("binning_type", {"values": []})["values"]), "C08.d", "binning_type",
              "binning_type = type(self).__name__", "binning_type is not the class name", btd.where)
    cfd = m.func("io.util", "create_from_dict")
    ctx.saw(cfd)
    ok = any(U(c.func) == "find_subclass" and U(c.args[0]) == "HistogramBase" for c in calls_in(cfd.node)) and \
        _all_returns(cfd, ("klass.from_dict(data)", "HistogramCollection.from_dict(data)"))
    ctx.check(ok, "C08.d", "create_from_dict:class-lookup", "find_subclass(HistogramBase, histogram_type).from_dict(data)",
              "create_from_dict does not build the named subclass from the dictionary", cfd.where)

    # ---- C08.e version gate -----------------------------------------------------------------------------------------
    ctx.rule("C08.e", "parse_json / load_json always reach the version gate; it compares parsed versions and raises", 6)
    bad_paths = 0
    n = 0
    for path in function_paths(cfd.node):
        if end_kind(path) != "return":
            continue
        n += 1
        checked = any(s[0] == "stmt" and any(U(c.func) == "require_compatible_version" and U(c.args[0]) in ("compatible_version", "data['physt_compatible']")
                                              for c in calls_in(s[1])) for s in path)
        skipped = any(s[0] == "cond" and U(s[1]) == "check_version" and not s[2] for s in path)
        if not checked and not skipped:
            bad_paths += 1
    cv = [n_ for n_ in ast.walk(cfd.node) if isinstance(n_, ast.Assign) and U(n_.targets[0]) == "compatible_version"]
    ctx.check(bad_paths == 0 and n >= 2 and (not cv or U(cv[0].value) == "data['physt_compatible']"), "C08.e", "create_from_dict:gate",
              "every constructing path with check_version passes require_compatible_version(data['physt_compatible'])",
              "a path builds a histogram without the compatible-version check", cfd.where)
    d = cfd.param_default("check_version")
    ctx.check(isinstance(d, ast.Constant) and d.value is True, "C08.e", "create_from_dict:default", "check_version defaults to True",
              "check_version no longer defaults to True", cfd.where)
    pj = m.func("io.json", "parse_json")
    lj = m.func("io.json", "load_json")
    sj = m.func("io.json", "save_json")
    for f in (pj, lj, sj):
        ctx.saw(f)
    cc = [c for c in calls_in(pj.node) if U(c.func) == "create_from_dict"]
    okp = len(cc) == 1 and not any(k.arg == "check_version" for k in cc[0].keywords) and len(cc[0].args) < 3 and \
        any(isinstance(n_, ast.Assign) and U(n_.value) == "json.loads(text)" for n_ in ast.walk(pj.node))
    ctx.check(okp, "C08.e", "parse_json", "json.loads(text) -> create_from_dict(data, ...) with the version check on",
              "parse_json bypasses or disables the version check", pj.where)
    okl = any(U(c.func) == "parse_json" and U(c.args[0]) == "text" for c in calls_in(lj.node)) and \
        any(isinstance(n_, ast.Assign) and U(n_.targets[0]) == "text" and U(n_.value) == "f.read()" for n_ in ast.walk(lj.node))
    ctx.check(okl, "C08.e", "load_json", "reads the file and hands the whole text to parse_json", "load_json does not parse the file's text with parse_json", lj.where)
    rv = m.func("io.version", "require_compatible_version")
    ctx.saw(rv)
    okv = False
    why = "no comparison of parsed versions followed by raise VersionError found"
    for path in function_paths(rv.node):
        env = Env()
        for i, step in enumerate(path):
            if step[0] == "cond" and isinstance(step[1], ast.Compare) and len(step[1].ops) == 1 and step[2] and end_kind(path) == "raise":
                l, r_ = step[1].left, step[1].comparators[0]
                op = step[1].ops[0]

                def parsed(x):
                    dd = env.resolve(x)
                    if isinstance(dd, ast.Call) and U(dd.func) in ("parse", "Version", "version.parse"):
                        return True
                    # narrowed by isinstance(x, Version) on this path
                    return any(s[0] == "cond" and ((U(s[1]) == f"not isinstance({U(x)}, Version)" and not s[2]) or (U(s[1]) == f"isinstance({U(x)}, Version)" and s[2]))
                               for s in path[:i])
                names = {U(l), U(r_)}
                if "VersionError" in U(path[-1][2]):
                    if parsed(l) and parsed(r_) and ((isinstance(op, ast.Lt) and "current" in U(l)) or (isinstance(op, ast.Gt) and "current" in U(r_))):
                        okv = True
                    else:
                        why = f"`{U(step[1])}` does not compare two parsed Version objects as current < required"
            env.step(step)
    ctx.check(okv, "C08.e", "require_compatible_version", "parse(CURRENT_VERSION) < parse(required) -> VersionError", why, rv.where)
    stamps = 0
    for path in function_paths(sj.node):
        if end_kind(path) == "raise":
            continue
        if any(s[0] == "stmt" and isinstance(s[1], ast.Assign) and U(s[1].targets[0]) == "data['physt_compatible']" for s in path):
            stamps += 1
        else:
            stamps = -100
    ctx.check(stamps > 0, "C08.e", "save_json:stamp", "every non-raising path stamps physt_compatible", "a path of save_json writes no physt_compatible", sj.where)
    txt_ok = any(isinstance(n_, ast.Assign) and U(n_.targets[0]) == "text" and U(n_.value).startswith("json.dumps(data") for n_ in ast.walk(sj.node)) and \
        any(U(c.func) == "f.write" and U(c.args[0]) == "text" for c in calls_in(sj.node)) and \
        all(U(n_.value) == "text" for n_ in ast.walk(sj.node) if isinstance(n_, ast.Return))
    ctx.check(txt_ok, "C08.e", "save_json:text", "writes and returns the same json.dumps(data) text", "save_json does not write exactly the text it returns", sj.where)

    # ---- C08.f collections ------------------------------------------------------------------------------------------------
    ctx.rule("C08.f", "collections serialise every member with to_dict and rebuild every member", 2)
    HC = m.cls("HistogramCollection")
    ctd, cfdm = HC.methods["to_dict"], HC.methods["from_dict"]
    ckeys = written_keys(ctd, set())
    okc = "histograms" in ckeys and any("h.to_dict() for h in self.histograms" in v for v in ckeys["histograms"]["values"]) and \
        ckeys.get("histogram_type", {"values": set()})["values"] == {"'histogram_collection'"}
    ctx.check(okc, "C08.f", "HistogramCollection.to_dict", "histograms = [h.to_dict() for h in self.histograms]", "collection to_dict does not serialise every member", ctd.where)
    gens = [n for n in ast.walk(cfdm.node) if isinstance(n, (ast.GeneratorExp, ast.ListComp))]
    okr = any("a_dict['histograms']" in U(g.generators[0].iter) and not g.generators[0].ifs and "create_from_dict(item" in U(g.elt) for g in gens) and \
        _all_returns(cfdm, ("HistogramCollection(*histograms)",))
    ctx.check(okr, "C08.f", "HistogramCollection.from_dict", "every item of a_dict['histograms'] is rebuilt", "collection from_dict does not rebuild every member", cfdm.where)
    # what the reader hands to the constructors is stored as given: the out-of-range counters of both histogram kinds (shared with C02.h)
    ctx.borrow("C02", ("Histogram1D.__init__:missed-dtype", "HistogramND.__init__:missed-dtype"), "C08.c", floor=2)
