"""C04 - adaptive fixed-width histograms never lose a value when bins grow."""
from __future__ import annotations

import ast

from sa.model import AnalysisError, calls_in, kwarg
from sa.paths import function_paths, end_kind, consistent
from sa.symbolic import Poly, to_poly
from sa.util import U, Env, call_is, const_value, writes_of

EXPLANATION = (
    "C04: the core clause (floor/ceil arithmetic puts every value inside an edge pair) is a statement about "
    "floating-point rounding and is NOT decided. Decided are the protocol obligations around it, each necessary for "
    "'nothing is lost': (a) cache coherence of FixedWidthBinning - every path that writes a grid field "
    "(_times_min, _bin_count, _bin_width, _shift) invalidates both edge caches afterwards unless the write is a "
    "provable no-op, and no cached edge array is read between a grid write and the invalidation; (b) every "
    "force_bin_existence call of a histogram is followed at once by _reshape_data with that binning's bin_count, the "
    "returned map and the axis of that binning; (c) the integer shift map returned on growth is the amount by which "
    "_times_min was lowered, batch growth takes the left-side result when there is one; growth amounts are "
    "ceil((first_edge - v)/w), ceil((v - last_edge)/w) (+1 on the open right edge) and the first bin floor((v - "
    "shift)/w); (e) the factories grow the binning to both ends of the range / data with right-edge inclusion forwarded."
)
NOT_DECIDED = ("that floor/ceil of the floating-point quotients yields a bin containing the value (e.g. width 0.1, value 1.7 "
               "is lost on the pinned tree: findings/repro.py c04_rounding_known_outside_static_reach) - no sound static "
               "bound on those roundings is in reach without a solver.")
TRUSTED = ["np.floor / np.ceil on exact quotients"]

GRID = {"_times_min", "_bin_count", "_bin_width", "_shift"}
CACHES = {"_bins", "_numpy_bins"}
CACHE_READS = {"self.numpy_bins", "self.bins", "self._numpy_bins", "self._bins"}


def check_cache_coherence(ctx, rule, m):
    FW = m.cls("FixedWidthBinning")
    writers = 0
    for fi in list(FW.methods.values()) + list(FW.getters.values()) + list(FW.setters.values()):
        has = any(w.root == "self" and w.attr in GRID for st in ast.walk(fi.node) if isinstance(st, ast.stmt) for w in writes_of(st))
        if not has:
            continue
        writers += 1
        ctx.saw(fi)
        problems = []
        npaths = 0
        for path in function_paths(fi.node):
            if end_kind(path) == "raise" or not consistent(path):
                continue
            gw = []   # (index, stmt)
            inval = {c: -1 for c in CACHES}
            bumped = set()
            stale = []
            dirty = False
            for i, step in enumerate(path):
                nodes = [step[1]] if step[0] in ("stmt", "cond") else []
                if dirty:
                    for nd in nodes:
                        for n in ast.walk(nd):
                            if isinstance(n, ast.Attribute) and U(n) in CACHE_READS and isinstance(n.ctx, ast.Load):
                                stale.append(f"`{U(nd)[:60]}` reads {U(n)} after a grid field changed and before the caches were reset")
                if step[0] == "stmt":
                    st = step[1]
                    for w in writes_of(st):
                        if w.root == "self" and w.attr in GRID:
                            gw.append((i, st))
                            dirty = True
                        if w.root == "self" and w.attr in CACHES and isinstance(st, ast.Assign) and U(st.value) == "None":
                            inval[w.attr] = i
                    if all(inval[c] > (gw[-1][0] if gw else -1) for c in CACHES):
                        dirty = False
                    if isinstance(st, ast.AugAssign) and isinstance(st.target, ast.Name) and isinstance(st.op, ast.Add) and isinstance(const_value(st.value), int) and const_value(st.value) > 0:
                        bumped.add(st.target.id)
            if not gw:
                continue
            npaths += 1
            last = gw[-1][0]
            if all(inval[c] > last for c in CACHES):
                problems += stale
                continue
            # guarded no-op?
            guards = [s for s in path if s[0] == "cond" and not s[2] and isinstance(s[1], ast.BoolOp) and isinstance(s[1].op, ast.Or)
                      and all(isinstance(v, ast.Name) for v in s[1].values)]
            if guards:
                names = {v.id for g in guards for v in g[1].values}
                if names & bumped:
                    continue  # infeasible: a guard variable was incremented by a positive constant on this path
                if all(isinstance(st, ast.AugAssign) and isinstance(st.value, ast.Name) and st.value.id in names for _, st in gw):
                    continue  # every write adds/subtracts a variable that the (false) guard shows to be zero
            missing = sorted(c for c in CACHES if inval[c] <= last)
            problems.append(f"`{U(gw[-1][1])[:50]}` changes the grid but {missing} is not reset to None afterwards on a path")
            problems += stale
        ctx.check(not problems and npaths > 0, rule, f"{fi.qualname}:cache-coherence", f"{npaths} grid-writing path(s), caches reset on each",
                  " ; ".join(sorted(set(problems))[:3]) or "no grid-writing path", fi.where)
    ctx.check(writers >= 3, rule, "FixedWidthBinning:writers", f"{writers} methods write grid fields", f"only {writers} grid writers found", FW.where)


def check_growth_reported(ctx, rule, m):
    """_force_bin_existence_single: a path that certainly enlarges the grid (constant increment / plain store of a grid field)
    returns a map, never None - otherwise the histogram keeps arrays of the old length over a longer binning."""
    FW = m.cls("FixedWidthBinning")
    fs = FW.methods.get("_force_bin_existence_single")
    if fs is None:
        raise AnalysisError("FixedWidthBinning._force_bin_existence_single not found")
    ctx.saw(fs)
    bad = []
    n = 0
    for path in function_paths(fs.node):
        if end_kind(path) != "return" or not consistent(path):
            continue
        certain = []
        for s in path:
            if s[0] == "stmt":
                st = s[1]
                for w in writes_of(st):
                    if w.root == "self" and w.attr in ("_bin_count", "_times_min"):
                        if isinstance(st, ast.AugAssign) and isinstance(const_value(st.value), (int, float)) and const_value(st.value) != 0:
                            certain.append(U(st))
                        elif isinstance(st, ast.Assign):
                            certain.append(U(st))
        if not certain:
            continue
        bumped = {s[1].target.id for s in path if s[0] == "stmt" and isinstance(s[1], ast.AugAssign) and isinstance(s[1].target, ast.Name)
                  and isinstance(s[1].op, ast.Add) and isinstance(const_value(s[1].value), int) and const_value(s[1].value) > 0}
        infeasible = any(s[0] == "cond" and not s[2] and isinstance(s[1], ast.BoolOp) and isinstance(s[1].op, ast.Or)
                         and any(isinstance(v, ast.Name) and v.id in bumped for v in s[1].values) for s in path)
        if infeasible:
            continue  # the growth counter was incremented on this path, so the `a or b` guard cannot be false
        n += 1
        rv = path[-1][2].value
        if rv is None or U(rv) == "None":
            bad.append(f"`{certain[0]}` enlarges the grid but the path returns None (no bin map)")
    ctx.check(n > 0 and not bad, rule, "_force_bin_existence_single:growth-reported", f"{n} certainly-growing path(s), each returns a map",
              " ; ".join(sorted(set(bad))) or "no certainly-growing path found", fs.where)


def check_batch_growth(ctx, rule, m):
    """_force_bin_existence(values): the left (min) result is returned whenever it is not None (0 is a map too: the bins
    grew on the right only), otherwise the right one; includes_right_edge reaches the growth for the maximum."""
    FW = m.cls("FixedWidthBinning")
    fb = FW.methods.get("_force_bin_existence")
    ctx.saw(fb)
    ok_batch = False
    for path in function_paths(fb.node):
        env = Env()
        for step in path:
            env.step(step)
        cs = [(U(s[1]), s[2]) for s in path if s[0] == "cond"]
        if end_kind(path) == "return" and ("np.isscalar(values)", False) in cs:
            ret = path[-1][2].value
            names = {}
            for k, d in env.defs.items():
                if isinstance(d, ast.Call) and U(d.func) == "self._force_bin_existence_single" and d.args:
                    names[k] = U(env.resolve(d.args[0]))
            left = [k for k, a in names.items() if "np.min(values)" in a or a == "min_"]
            right = [k for k, a in names.items() if "np.max(values)" in a or a == "max_"]
            if left and right:
                l, r_ = left[0], right[0]
                if (f"{l} is None", True) in cs and U(ret) == r_:
                    ok_batch = ok_batch or True
                if (f"{l} is None", False) in cs and U(ret) != l:
                    ok_batch = False
                    break
                if (f"{r_} is None", False) in cs and U(ret) == r_ and (f"{l} is None", True) not in cs:
                    ok_batch = False
                    break
    ctx.check(ok_batch, rule, "_force_bin_existence:batch-shift", "a batch returns the left-side (min) shift whenever there is one, else the right-side result",
              "when a batch grows the bins on both sides the left shift is not the one returned (old contents would stay at offset 0)", fb.where)
    calls = [c for c in calls_in(fb.node) if U(c.func) == "self._force_bin_existence_single"]
    ire = [c for c in calls if kwarg(c, "includes_right_edge") is not None]
    ctx.check(len(calls) >= 3 and all(U(kwarg(c, "includes_right_edge")) == "includes_right_edge" for c in ire) and len(ire) >= 2, rule,
              "_force_bin_existence:right-edge-forwarded", "includes_right_edge forwarded to the upper-end growth",
              "includes_right_edge is not forwarded to the growth for the maximum", fb.where)



def run(ctx):
    m = ctx.model
    FW = m.cls("FixedWidthBinning")

    # ---- C04.a cache coherence ---------------------------------------------------------------------------------
    ctx.rule("C04.a", "every grid-field write is followed by invalidation of both edge caches (or is a guarded no-op); no stale cache read in between", 3)
    check_cache_coherence(ctx, "C04.a", m)

    # ---- C04.b grow then reshape -----------------------------------------------------------------------------------
    ctx.rule("C04.b", "force_bin_existence is followed immediately by _reshape_data(<that binning>.bin_count, <returned map>, <its axis>)", 4)
    for cname, nd in (("Histogram1D", False), ("HistogramND", True)):
        c = m.cls(cname)
        for mname in ("fill", "fill_n"):
            fi = c.methods[mname]
            ctx.saw(fi)
            found = 0
            probs = []
            for path in function_paths(fi.node):
                if end_kind(path) == "raise":
                    continue
                sts = [s for s in path if s[0] in ("stmt", "for")]
                loopvar = None
                for j, s in enumerate(sts):
                    if s[0] == "for" and s[2] and isinstance(s[1], ast.For) and isinstance(s[1].target, ast.Tuple) and "enumerate(self._binnings)" in U(s[1].iter):
                        loopvar = (U(s[1].target.elts[0]), U(s[1].target.elts[1]))
                    if s[0] != "stmt":
                        continue
                    st = s[1]
                    if isinstance(st, ast.Assign) and isinstance(st.value, ast.Call) and isinstance(st.value.func, ast.Attribute) \
                            and st.value.func.attr == "force_bin_existence":
                        found += 1
                        mp = U(st.targets[0])
                        b = U(st.value.func.value)
                        # growth is attempted exactly for adaptive binnings: the innermost decision before it is `<b>.is_adaptive()` = True
                        idx_ = path.index(s)
                        pc = [(U(x[1]), x[2]) for x in path[:idx_] if x[0] == "cond"]
                        if not pc or pc[-1] not in ((f"{b}.is_adaptive()", True), ("self.is_adaptive()", True)):
                            probs.append(f"`{U(st)[:50]}` is not guarded by `{b}.is_adaptive()` being true (last decision: {pc[-1:] or None})")
                        nxt = next((x[1] for x in sts[j + 1:] if x[0] == "stmt"), None)
                        ok = False
                        if isinstance(nxt, ast.Expr) and isinstance(nxt.value, ast.Call) and U(nxt.value.func) == "self._reshape_data":
                            a = [U(x) for x in nxt.value.args]
                            if nd:
                                ok = loopvar is not None and b == loopvar[1] and a == [f"{b}.bin_count", mp, loopvar[0]]
                            else:
                                ok = a[:2] == [f"{b}.bin_count", mp] and b in ("self._binning", "self.binning") and len(a) == 2
                        if not ok:
                            probs.append(f"`{U(st)[:60]}` is not followed at once by self._reshape_data({b}.bin_count, {mp}"
                                         + (", <axis of that binning>)" if nd else ")") + f" (next statement: `{U(nxt)[:60] if nxt is not None else None}`)")
            for path in function_paths(fi.node):
                if end_kind(path) == "raise":
                    continue
                for k_, x in enumerate(path):
                    if x[0] == "cond" and U(x[1]).endswith(".is_adaptive()") and x[2]:
                        nxt_ = next((y for y in path[k_ + 1:] if y[0] == "stmt"), None)
                        if nxt_ is None or "force_bin_existence" not in U(nxt_[1]):
                            probs.append(f"an adaptive binning is not grown (after `{U(x[1])}` the next statement is "
                                         f"`{U(nxt_[1])[:50] if nxt_ else None}`)")
            ctx.check(found > 0 and not probs, "C04.b", f"{cname}.{mname}:grow-then-reshape", f"{found} growth site(s) on the paths, each reshaped at once on the right axis",
                      " ; ".join(sorted(set(probs))[:2]) or "no growth site found", fi.where)

    # what was recorded before the growth moves with its interval: contents AND squared errors, missed weights coerced like fills
    from rules import c10, c13
    c10.sibling_transfer(ctx, "C04.b", m.cls("HistogramBase").methods["_apply_bin_map"], "HistogramBase._apply_bin_map")
    c13.check_fill_coercion(ctx, "C04.b", m)

    # ---- C04.c the shift map is the growth; growth amounts -------------------------------------------------------------------
    ctx.rule("C04.c", "returned shift = amount _times_min was lowered; batch growth keeps the left-side shift; ceil/floor growth amounts", 7)
    fs = FW.methods.get("_force_bin_existence_single")
    if fs is None:
        raise AnalysisError("FixedWidthBinning._force_bin_existence_single not found")
    ctx.saw(fs)
    v = [p for p in fs.params() if p != "self"][0]
    ok_ret = True
    seen = 0
    why = []
    for path in function_paths(fs.node):
        if end_kind(path) != "return" or not consistent(path):
            continue
        sts = [U(s[1]) for s in path if s[0] == "stmt"]
        cs = [(U(s[1]), s[2]) for s in path if s[0] == "cond"]
        ret = U(path[-1][2].value) if path[-1][2].value is not None else "None"
        lowered = [t for t in sts if t.startswith("self._times_min -= ")]
        if ("self._bin_count == 0", True) in cs:
            continue
        if any(isinstance(s[1], ast.BoolOp) and isinstance(s[1].op, ast.Or) and not s[2] for s in path if s[0] == "cond"):
            continue  # `if add_left or add_right` false: nothing grew (increments were zero), None is returned
        if lowered:
            seen += 1
            amt = lowered[0].split("-= ")[1]
            if ret != amt or f"self._bin_count += {amt}" not in sts:
                ok_ret = False
                why.append(f"left growth lowers _times_min by {amt} but returns {ret} / does not add {amt} bins")
        elif any(t.startswith("self._bin_count += ") for t in sts):
            seen += 1
            # right growth only: shift must be 0 (the left-growth variable, untouched)
            if ret not in ("add_left", "0"):
                ok_ret = False
                why.append(f"right-only growth returns {ret} instead of a zero shift")
    ctx.check(ok_ret and seen >= 2, "C04.c", "_force_bin_existence_single:shift", "left growth returns the amount _times_min was lowered; right growth a zero shift",
              " ; ".join(why) or "growth paths not found", fs.where)

    def arg_poly(call, extra=None):
        def leaf(n):
            t = U(n)
            base = {v: Poly.sym("v"), "self.bin_width": Poly.sym("w"), "self._bin_width": Poly.sym("w"), "self._shift": Poly.sym("s"),
                    "self.numpy_bins[0]": Poly.sym("E0"), "self.first_edge": Poly.sym("E0"), "self.numpy_bins[-1]": Poly.sym("E1"),
                    "self.last_edge": Poly.sym("E1")}
            return base.get(t)
        return to_poly(call.args[0], leaf) if call.args else None
    vv, w, s_, E0, E1 = (Poly.sym(x) for x in ("v", "w", "s", "E0", "E1"))
    env_defs = {}
    for n in ast.walk(fs.node):
        if isinstance(n, ast.Assign) and isinstance(n.targets[0], ast.Name):
            env_defs.setdefault(n.targets[0].id, []).append(n.value)
    floors = [c for c in calls_in(fs.node) if call_is(c, "floor")]
    ceils = [c for c in calls_in(fs.node) if call_is(c, "ceil")]
    ok_first = any(arg_poly(c) == (vv - s_) * w.inv() for c in floors)
    ctx.check(ok_first, "C04.c", "_force_bin_existence_single:first-bin", "first bin index = floor((v - shift)/width)",
              "the first bin of an empty binning is not floor((value - shift)/width)", fs.where)
    # unaligned empty binning: the grid is anchored so that the first edge IS the value: shift = v - times_min * width,
    # with the times_min just computed
    ok_anchor, why_anchor, n_anchor = True, "", 0
    for path in function_paths(fs.node):
        if not consistent(path) or ("self._bin_count == 0", True) not in [(U(s_[1]), s_[2]) for s_ in path if s_[0] == "cond"]:
            continue
        if ("self._align", False) not in [(U(s_[1]), s_[2]) for s_ in path if s_[0] == "cond"]:
            continue
        n_anchor += 1
        t_seen = False
        got = None
        for s_ in path:
            if s_[0] == "stmt" and isinstance(s_[1], ast.Assign):
                tgt = U(s_[1].targets[0])
                if tgt == "self._times_min":
                    t_seen = True
                if tgt == "self._shift":
                    def leaf2(n):
                        return {v: Poly.sym("v"), "self.bin_width": Poly.sym("w"), "self._bin_width": Poly.sym("w"),
                                "self._times_min": Poly.sym("T")}.get(U(n))
                    got = (to_poly(s_[1].value, leaf2), t_seen, U(s_[1]))
        if got is None or got[0] != Poly.sym("v") - Poly.sym("T") * Poly.sym("w") or not got[1]:
            ok_anchor = False
            why_anchor = (f"`{got[2]}` does not anchor the grid at the value (shift = value - times_min * width, after times_min was set)"
                          if got else "the shift of an unaligned empty binning is not set")
    ctx.check(ok_anchor and n_anchor >= 1, "C04.c", "_force_bin_existence_single:first-bin-anchor",
              "unaligned empty binning: shift = value - times_min * width, so the first bin starts at the value",
              why_anchor or "empty / unaligned path not found", fs.where)
    polys = []
    for c in ceils:
        a = c.args[0]
        if isinstance(a, ast.Name) and a.id in env_defs:
            # add_right = (value - last)/w ; add_right = int(ceil(add_right))
            for d in env_defs[a.id]:
                def leaf(n):
                    return {v: vv, "self.bin_width": w, "self.numpy_bins[0]": E0, "self.numpy_bins[-1]": E1, "self.last_edge": E1, "self.first_edge": E0}.get(U(n))
                p = to_poly(d, leaf)
                if p is not None:
                    polys.append(p)
        else:
            p = arg_poly(c)
            if p is not None:
                polys.append(p)
    ctx.check((E0 - vv) * w.inv() in polys, "C04.c", "_force_bin_existence_single:left-amount", "bins added on the left = ceil((first_edge - v)/width)",
              f"left growth amount is not ceil((first_edge - value)/width): found {polys}", fs.where)
    ctx.check((vv - E1) * w.inv() in polys, "C04.c", "_force_bin_existence_single:right-amount", "bins added on the right = ceil((v - last_edge)/width)",
              f"right growth amount is not ceil((value - last_edge)/width): found {polys}", fs.where)
    conds = {U(n.test) for n in ast.walk(fs.node) if isinstance(n, ast.If)}
    ok_edge = any(("self.last_edge == " + v in c or v + " == self.last_edge" in c) and "not includes_right_edge" in c for c in conds)
    ctx.check(ok_edge, "C04.c", "_force_bin_existence_single:open-right-edge",
              "a value exactly on the (fresh) last edge of a right-open binning gets one more bin",
              "the extra bin for a value on the open right edge is not decided from the freshly computed last_edge and includes_right_edge", fs.where)
    ok_branch = f"{v} < self.numpy_bins[0]" in conds and f"{v} >= self.numpy_bins[-1]" in conds
    ctx.check(ok_branch, "C04.c", "_force_bin_existence_single:branches", "grow left iff v < first edge; right iff v >= last edge",
              f"growth conditions are {sorted(conds)}", fs.where)
    check_growth_reported(ctx, "C04.c", m)
    check_batch_growth(ctx, "C04.c", m)

    # ---- C04.e factories ---------------------------------------------------------------------------------------------------
    ctx.rule("C04.e", "fixed_width_binning grows to both ends of the range / data", 2)
    fw = m.func("binnings", "fixed_width_binning")
    ctx.saw(fw)
    calls = [U(c) for c in calls_in(fw.node) if isinstance(c.func, ast.Attribute) and c.func.attr == "_force_bin_existence"]
    okr = "result._force_bin_existence(range[0])" in calls and "result._force_bin_existence(range[1], includes_right_edge=True)" in calls
    okd = any("np.min(data)" in c and "np.max(data)" in c and "includes_right_edge=includes_right_edge" in c for c in calls)
    ctx.check(okr, "C04.e", "fixed_width_binning:range", "bins forced for range[0] and range[1] (right end inclusive)", f"range growth calls: {calls}", fw.where)
    ctx.check(okd, "C04.e", "fixed_width_binning:data", "bins forced for min(data) and max(data) with includes_right_edge forwarded", f"data growth calls: {calls}", fw.where)

    ctor_ = [c for c in calls_in(fw.node) if U(c.func) == "FixedWidthBinning"]
    ctx.check(len(ctor_) == 1 and U(kwarg(ctor_[0], "bin_width")) == "bin_width" and U(kwarg(ctor_[0], "includes_right_edge")) == "includes_right_edge"
              and any(k.arg is None for k in ctor_[0].keywords), "C04.e", "fixed_width_binning:constructor",
              "FixedWidthBinning(bin_width=bin_width, includes_right_edge=includes_right_edge, **kwargs)",
              f"the binning is constructed as {[U(c)[:80] for c in ctor_]}", fw.where)
    from rules import c07
    c07.check_pretty_factory(ctx, "C04.e", m)

    # ---- C04.f the edges tested by the growth code are the edges the lookup uses, bit for bit ---------------------
    ctx.rule("C04.f", "first_edge / last_edge (growth tests) are float-exact instances of the numpy_bins formula (lookup)", 5)
    c07.check_edge_formula(ctx, "C04.f", m)

    # ---- C04.g switching adaptivity on reaches every binning ---------------------------------------------------------
    ctx.rule("C04.g", "set_adaptive / the adaptive setter reach every axis' binning; is_adaptive asks all of them", 4)
    HBc, BBc = m.cls("HistogramBase"), m.cls("BinningBase")
    sa_ = HBc.methods["set_adaptive"]
    ctx.saw(sa_)
    vpar = [q for q in sa_.params() if q != "self"][0]
    loops_ = [n for n in ast.walk(sa_.node) if isinstance(n, ast.For) and U(n.iter) in ("self._binnings", "self.binnings")]
    oks = bool(loops_) and any(isinstance(b, ast.Expr) and U(b.value) == f"{U(loops_[0].target)}.set_adaptive({vpar})" for b in loops_[0].body)
    ctx.check(oks, "C04.g", "HistogramBase.set_adaptive", "every binning of the histogram gets set_adaptive(value)",
              "HistogramBase.set_adaptive no longer switches every axis' binning", sa_.where)
    ads = HBc.setters.get("adaptive")
    ctx.check(ads is not None and any(U(c) == f"self.set_adaptive({[q for q in ads.params() if q != 'self'][0]})" for c in calls_in(ads.node)), "C04.g",
              "HistogramBase.adaptive.setter", "h.adaptive = v is set_adaptive(v)", "the adaptive setter does not call set_adaptive(value)",
              ads.where if ads else HBc.where)
    ia_ = HBc.methods["is_adaptive"]
    rets_ = [U(n.value) for n in ast.walk(ia_.node) if isinstance(n, ast.Return)]
    ctx.check(rets_ in (["all((binning.is_adaptive() for binning in self._binnings))"], ["all((b.is_adaptive() for b in self._binnings))"]), "C04.g",
              "HistogramBase.is_adaptive", "adaptive iff every binning is", f"is_adaptive returns {rets_}", ia_.where)
    bsa = BBc.methods["set_adaptive"]
    bpar = [q for q in bsa.params() if q != "self"][0]
    stores_ = [U(n) for n in bsa.node.body if isinstance(n, ast.Assign)]
    bia = BBc.methods["is_adaptive"]
    ctx.check(stores_ == [f"self._adaptive = {bpar}"] and [U(n.value) for n in ast.walk(bia.node) if isinstance(n, ast.Return)] == ["self._adaptive"], "C04.g",
              "BinningBase.set_adaptive", "stores the flag that is_adaptive reports", f"set_adaptive stores {stores_}", bsa.where)

    # ---- C04.d the lookup that follows the growth uses the kernel's convention (shared with C03.c) -----------------
    ctx.rule("C04.d", "after growth fill() looks the value up with the same interval convention as the kernels", 8)
    from rules import conventions as conv
    conv.check_find_bin_1d(ctx, "C04.d", m.cls("Histogram1D").methods["find_bin"])
    conv.check_find_bin_nd(ctx, "C04.d", m.cls("HistogramND").methods["find_bin"])
    # growth re-allocates and transfers the old contents (shared with C10.a)
    ctx.borrow("C10", ("HistogramBase._reshape_data",), "C04.b", floor=2)
