"""C11 - indexing and slicing follow numpy semantics on the bin grid."""
from __future__ import annotations

import ast

from sa.model import AnalysisError, calls_in, kwarg
from sa.paths import function_paths, end_kind, consistent, must_raise
from sa.symbolic import Poly, to_poly
from sa.util import U, Env, call_is, const_value, writes_of
from rules import c12

EXPLANATION = (
    "C11: in every selecting branch the same index expression subscripts the binning, frequencies and errors2 (1D: the "
    "index itself; ND: the tuple with the index at the resolved axis and full slices elsewhere, and the binning of "
    "that axis), an integer ND index drops exactly that axis, chained selection addresses axis i minus the number of "
    "axes already dropped; a contiguous 1D slice adds frequencies[:start] to underflow exactly when start is neither "
    "None nor 0 (negative starts included) and frequencies[stop:] to overflow likewise, other selections leave NaN; "
    "stepped / reversed slices, wrongly sized masks, too many indices and other index types are refused before "
    "anything is built; the source is not modified and the result owns its data (ownership analysis); the all-integer "
    "case returns the edges and content of that one bin."
)
NOT_DECIDED = "numpy's own indexing semantics (trusted), ordering of fancy-index arrays, empty-slice corner cases."
TRUSTED = ["numpy basic / boolean / integer-array indexing", "a[0:k] and a[k:] partition a for every integer k"]


def _guard_truth(expr, attr):
    """Truth of a guard over slice bound `attr` for bound in {None, 0, +, -}; None if not understood."""
    out = {}
    for name, val in (("None", None), ("0", 0), ("pos", 3), ("neg", -3)):
        def ev(e):
            if isinstance(e, ast.BoolOp):
                vs = [ev(v) for v in e.values]
                if any(v == "?" for v in vs):
                    return "?"
                return all(vs) if isinstance(e.op, ast.And) else any(vs)
            if isinstance(e, ast.UnaryOp) and isinstance(e.op, ast.Not):
                v = ev(e.operand)
                return "?" if v == "?" else (not v)
            if U(e) == attr:
                return bool(val)
            if isinstance(e, ast.Compare) and len(e.ops) == 1 and U(e.left) == attr:
                c = e.comparators[0]
                op = e.ops[0]
                if isinstance(c, ast.Constant) and c.value is None:
                    if isinstance(op, (ast.Is, ast.Eq)):
                        return val is None
                    if isinstance(op, (ast.IsNot, ast.NotEq)):
                        return val is not None
                cv = const_value(c)
                if isinstance(cv, (int, float)):
                    if val is None:
                        if isinstance(op, ast.Eq):
                            return False
                        if isinstance(op, ast.NotEq):
                            return True
                        return "raise"
                    return {ast.Eq: val == cv, ast.NotEq: val != cv, ast.Lt: val < cv, ast.LtE: val <= cv, ast.Gt: val > cv,
                            ast.GtE: val >= cv}.get(type(op), "?")
            return "?"
        # short-circuit: `x is not None and x > 0` never compares None
        if isinstance(expr, ast.BoolOp) and isinstance(expr.op, ast.And):
            res = True
            for v in expr.values:
                r = ev(v)
                if r in ("?",):
                    res = "?"
                    break
                if r == "raise":
                    res = "raise"
                    break
                if not r:
                    res = False
                    break
            out[name] = res
        else:
            out[name] = ev(expr)
    return out


def run(ctx):
    m = ctx.model
    H1, HN = m.cls("Histogram1D"), m.cls("HistogramND")
    gi = H1.methods.get("__getitem__")
    if gi is None:
        raise AnalysisError("Histogram1D.__getitem__ not found")
    ctx.saw(gi)
    ix = [p for p in gi.params() if p != "self"][0]

    # ---- C11.a ----------------------------------------------------------------------------------------------------
    ctx.rule("C11.a", "one index for binning, frequencies and errors2; ND: index placed at the resolved axis; chained axis bookkeeping", 6)
    ctor = [c for c in calls_in(gi.node) if U(c.func) in ("self.__class__", "type(self)", "Histogram1D")]
    ok = False
    why = "constructor call not found"
    if ctor:
        c = ctor[-1]
        a = list(c.args) + [None] * 3
        b, f, e = a[0] or kwarg(c, "binning"), a[1] or kwarg(c, "frequencies"), a[2] or kwarg(c, "errors2")

        def subscripted(node, base_opts):
            n = node
            while isinstance(n, ast.Call) and isinstance(n.func, ast.Attribute) and n.func.attr in ("copy",):
                n = n.func.value
            return isinstance(n, ast.Subscript) and U(n.slice) == ix and U(n.value) in base_opts
        okb = b is not None and isinstance(b, ast.Subscript) and U(b.slice) == ix and U(b.value).startswith("self._binning")
        okf = f is not None and subscripted(f, ("self.frequencies", "self._frequencies"))
        oke = e is not None and subscripted(e, ("self.errors2", "self._errors2"))
        ok = okb and okf and oke
        why = f"binning={U(b) if b is not None else None}, frequencies={U(f) if f is not None else None}, errors2={U(e) if e is not None else None}"
    ctx.check(ok, "C11.a", "Histogram1D.__getitem__:same-index", f"bins, contents and errors all taken at [{ix}]",
              "the sub-histogram's binning, frequencies and errors2 are not all indexed with the same index: " + why, gi.where)
    sel = HN.methods.get("select")
    ctx.saw(sel)
    ts = U(sel.node)
    p_ax, p_ix = [p for p in sel.params() if p != "self"][:2]
    facts = {
        "axis resolved": f"axis_id = self._get_axis({p_ax})" in ts,
        "index placed at the axis": f"array_index[axis_id] = {p_ix}" in ts and "slice(None, None, None) for i in range(self.ndim)" in ts,
        "frequencies indexed": "frequencies = self._frequencies[tuple(array_index)].copy()" in ts,
        "errors2 indexed the same way": "errors2 = self._errors2[tuple(array_index)].copy()" in ts,
        "binning of that axis indexed": f"copy._binnings[axis_id] = self._binnings[axis_id][{p_ix}]" in ts,
        "integer index drops exactly that axis": "self._reduce_dimension([ax for ax in range(self.ndim) if ax != axis_id], frequencies, errors2)" in ts,
        "contents installed together": "copy._frequencies = frequencies" in ts and "copy._errors2 = errors2" in ts,
    }
    for k, v in facts.items():
        ctx.check(v, "C11.a", f"HistogramND.select:{k}", k, f"HistogramND.select: NOT({k})", sel.where)
    ng = HN.methods.get("__getitem__")
    ctx.saw(ng)
    loops = [n for n in ast.walk(ng.node) if isinstance(n, ast.For) and isinstance(n.iter, ast.Call) and U(n.iter.func) == "enumerate"]
    okax = False
    why = "chained selection loop not found"
    if loops:
        lp = loops[0]
        iv, sv = (U(e) for e in lp.target.elts)
        calls = [c for c in calls_in(lp) if isinstance(c.func, ast.Attribute) and c.func.attr == "select"]
        if calls:
            c = calls[0]
            cur = U(c.func.value)
            axis_expr = c.args[0]

            def leaf(n):
                t = U(n)
                return {iv: Poly.sym("i"), f"{cur}.ndim": Poly.sym("cur"), "self.ndim": Poly.sym("N")}.get(t)
            p = to_poly(axis_expr, leaf)
            if p == Poly.sym("i") + Poly.sym("cur") - Poly.sym("N") and U(c.args[1]) == sv:
                okax = True
                why = "axis = i + current.ndim - self.ndim (i minus the axes already dropped)"
            else:
                # counter form: i - offset, offset starts at 0 and is only `+= 1` for integer sub-indices
                def leaf2(n):
                    t = U(n)
                    if t == iv:
                        return Poly.sym("i")
                    if isinstance(n, ast.Name):
                        return Poly.sym("off:" + n.id)
                    return None
                p2 = to_poly(axis_expr, leaf2)
                offs = [s for s in (dict(k).keys() for k in (p2.t if p2 is not None else {})) for s in s if s.startswith("off:")]
                if p2 is not None and len(set(offs)) == 1 and p2 == Poly.sym("i") - Poly.sym(offs[0]):
                    off = offs[0][4:]
                    inits = [U(n.value) for n in ast.walk(ng.node) if isinstance(n, ast.Assign) and U(n.targets[0]) == off]
                    incs = [n for n in ast.walk(lp) if isinstance(n, ast.AugAssign) and U(n.target) == off]
                    guarded = all(isinstance(n.op, ast.Add) and U(n.value) == "1" for n in incs) and len(incs) == 1
                    under_int = any(isinstance(x, ast.If) and f"isinstance({sv}, int)" in U(x.test) and any(i_ in ast.walk(x) for i_ in incs) for x in ast.walk(lp))
                    after_call = True
                    okax = inits == ["0"] and guarded and under_int
                    why = f"offset counter `{off}`: init {inits}, increments {[U(n) for n in incs]}"
                else:
                    why = f"axis expression `{U(axis_expr)}` is not i minus the number of axes already dropped"
    ctx.check(okax, "C11.a", "HistogramND.__getitem__:axis-bookkeeping", why, "chained selection addresses the wrong axis: " + why, ng.where)
    # one implementation of a selection: __getitem__ installs no contents or binnings itself, every sub-index goes through select()
    # (which validates it: negative steps, unknown index kinds)
    own_writes = []
    for n in ast.walk(ng.node):
        tg = n.targets if isinstance(n, ast.Assign) else [n.target] if isinstance(n, (ast.AugAssign, ast.AnnAssign)) else []
        for t_ in tg:
            for x in ast.walk(t_):
                if isinstance(x, ast.Attribute) and isinstance(x.ctx, ast.Store) and x.attr in ("_frequencies", "_errors2", "frequencies", "errors2", "_binnings", "_missed"):
                    own_writes.append(U(n)[:70])
                if isinstance(x, ast.Subscript) and isinstance(x.ctx, ast.Store) and isinstance(x.value, ast.Attribute) and x.value.attr in ("_binnings", "_frequencies", "_errors2"):
                    own_writes.append(U(n)[:70])
    ctx.check(not own_writes and bool(loops), "C11.a", "HistogramND.__getitem__:through-select", "no contents / binnings installed outside select()",
              f"__getitem__ builds a selection itself ({own_writes[:2]}): the sub-indices then bypass select()'s validation and bookkeeping", ng.where)

    # ---- C11.b ------------------------------------------------------------------------------------------------------
    ctx.rule("C11.b", "contiguous slice: frequencies[:start] -> underflow iff start not in (None, 0); frequencies[stop:] -> overflow likewise; other selections NaN", 5)
    roles = {}
    for n in ast.walk(gi.node):
        if isinstance(n, ast.If):
            for st in n.body:
                if isinstance(st, ast.AugAssign) and isinstance(st.op, ast.Add) and U(st.target) in ("underflow", "overflow"):
                    roles[U(st.target)] = (n.test, st.value)
    for role, bound, want_slices in (("underflow", f"{ix}.start", (f"self.frequencies[0:{ix}.start].sum()", f"self.frequencies[:{ix}.start].sum()")),
                                     ("overflow", f"{ix}.stop", (f"self.frequencies[{ix}.stop:].sum()",))):
        r = roles.get(role)
        if r is None:
            ctx.bad("C11.b", f"Histogram1D.__getitem__:{role}", f"no guarded `{role} += <cut-off contents>` found", gi.where)
            continue
        guard, val = r
        tv = _guard_truth(guard, bound)
        want = {"None": False, "0": False, "pos": True, "neg": True}
        ctx.check(tv == want and U(val).replace("_frequencies", "frequencies") in want_slices, "C11.b", f"Histogram1D.__getitem__:{role}",
                  f"{role} += {want_slices[-1]} exactly when {bound} is neither None nor 0",
                  f"`if {U(guard)}: {role} += {U(val)}`: guard truth over {bound} in (None, 0, positive, negative) = {tv}, expected {want}; "
                  f"added value must be {want_slices[-1]} (negative bounds cut bins off too)", gi.where)
    # defaults and the slice-only carry-over
    t = U(gi.node)
    inits_ok = "underflow = np.nan" in t and "overflow = np.nan" in t and "keep_missed = False" in t
    ctx.check(inits_ok, "C11.b", "Histogram1D.__getitem__:defaults", "non-contiguous selections report under/overflow as NaN and do not keep missed",
              "the NaN / keep_missed=False defaults for non-slice selections are gone", gi.where)
    carried = False
    for path in function_paths(gi.node):
        cs = [(U(s[1]), s[2]) for s in path if s[0] == "cond"]
        sts = [U(s[1]) for s in path if s[0] == "stmt"]
        if (f"isinstance({ix}, slice)", True) in cs and "underflow = self.underflow" in sts and "overflow = self.overflow" in sts and "keep_missed = self.keep_missed" in sts:
            carried = True
        if (f"isinstance({ix}, slice)", True) not in cs and ("underflow = self.underflow" in sts or "keep_missed = self.keep_missed" in sts):
            carried = False
            break
    ctx.check(carried, "C11.b", "Histogram1D.__getitem__:slice-carries-missed", "only the slice branch starts from the parent's under/overflow",
              "under/overflow are carried over outside the contiguous-slice branch (or not inside it)", gi.where)
    if ctor:
        c = ctor[-1]
        ok = U(kwarg(c, "underflow")) == "underflow" and U(kwarg(c, "overflow")) == "overflow" and U(kwarg(c, "keep_missed")) == "keep_missed"
        ctx.check(ok, "C11.b", "Histogram1D.__getitem__:roles-not-crossed", "underflow=underflow, overflow=overflow, keep_missed=keep_missed",
                  "the computed under/overflow are passed to the wrong constructor parameters", gi.where)

    # ---- C11.c refusals --------------------------------------------------------------------------------------------------
    ctx.rule("C11.c", "stepped / reversed slices, wrongly sized masks, too many indices, other index types are refused before construction", 5)

    def refused(fi, cond_pred, exc):
        n_mr, off_mr = must_raise(fi.node, lambda e: cond_pred(U(e)), when=True, exc=exc)
        if n_mr < 1 or off_mr:
            return False
        for path in function_paths(fi.node):
            if end_kind(path) != "raise" or exc not in U(path[-1][2]):
                continue
            if any(s[0] == "cond" and s[2] and cond_pred(U(s[1])) for s in path):
                built = any(s[0] == "stmt" and any(U(c.func) in ("self.__class__", "self.copy", "self._reduce_dimension") for c in calls_in(s[1])) for s in path[:-2])
                if not built:
                    return True
        return False
    ctx.check(refused(gi, lambda t: t == f"{ix}.step", "IndexError"), "C11.c", "Histogram1D.__getitem__:step", "slice with a step -> IndexError",
              "a slice with a step is no longer refused", gi.where)
    ctx.check(refused(gi, lambda t: t == f"{ix}.shape != (self.bin_count,)", "IndexError"), "C11.c", "Histogram1D.__getitem__:mask-size",
              "boolean mask of the wrong extent -> IndexError", "a wrongly sized boolean mask is no longer refused", gi.where)
    ctx.check(refused(ng, lambda t: t == f"len({[p for p in ng.params() if p != 'self'][0]}) > self.ndim", "IndexError"), "C11.c",
              "HistogramND.__getitem__:too-many", "more indices than axes -> IndexError", "too many indices are no longer refused", ng.where)
    ctx.check(refused(sel, lambda t: "step is not None" in t and "step < 0" in t, "IndexError"), "C11.c", "HistogramND.select:reversed",
              "reversed slice -> IndexError", "reversed slices are no longer refused", sel.where)
    ixn_ = [p for p in ng.params() if p != "self"][0]
    rebinds = [U(n)[:60] for n in ast.walk(ng.node) if isinstance(n, (ast.Assign, ast.AugAssign))
               and any(isinstance(t_, ast.Name) and t_.id == ixn_ for t_ in (n.targets if isinstance(n, ast.Assign) else [n.target]))]
    ctx.check(not rebinds, "C11.c", "HistogramND.__getitem__:index-not-rewritten", "the refusals test the index exactly as the caller passed it",
              f"the index is re-bound ({rebinds[:1]}) before it is validated: an over-long or out-of-range index can be normalised into a valid one", ng.where)
    selp = [p for p in sel.params() if p != "self"]
    reb2 = [U(n)[:60] for n in ast.walk(sel.node) if isinstance(n, ast.AugAssign) and isinstance(n.target, ast.Name) and n.target.id == selp[1]] + \
           [U(n)[:60] for n in ast.walk(sel.node) if isinstance(n, ast.Assign) and any(isinstance(t_, ast.Name) and t_.id == selp[1] for t_ in n.targets)]
    ctx.check(not reb2, "C11.c", "HistogramND.select:index-not-rewritten", "an integer index reaches numpy as given (numpy refuses what is out of range)",
              f"select() rewrites its index ({reb2[:1]}): out-of-range negative indices wrap around instead of being refused", sel.where)
    last_raise = [U(s) for s in sel.node.body if isinstance(s, ast.Raise)]
    ctx.check(any("TypeError" in r for r in last_raise), "C11.c", "HistogramND.select:type", "neither int nor slice -> TypeError",
              "other index types are no longer refused with TypeError", sel.where)

    # ---- C11.d ownership ------------------------------------------------------------------------------------------------------
    ctx.rule("C11.d", "selection never modifies the source and the result owns its data (ownership analysis shared with C12)", 4)
    for spec in [s for s in c12.OPS if s[2] in ("__getitem__", "select")]:
        c12.check_op(ctx, m, "C11.d", "C11.d", *spec)

    # ---- C11.e scalar case -----------------------------------------------------------------------------------------------------
    ctx.rule("C11.e", "an all-integer index returns that bin's edges and content", 2)
    ok1 = any(end_kind(p) == "return" and (f"isinstance({ix}, int)", True) in [(U(s[1]), s[2]) for s in p if s[0] == "cond"]
              and U(p[-1][2].value) == f"(self.bins[{ix}], self.frequencies[{ix}])" for p in function_paths(gi.node))
    ctx.check(ok1, "C11.e", "Histogram1D.__getitem__:int", "(bins[i], frequencies[i])", "an integer index does not return (bins[i], frequencies[i])", gi.where)
    tn = U(ng.node)
    okn = "self.get_bin_left_edges(i)[j].item()" in tn and "self.get_bin_right_edges(i)[j].item()" in tn and "for i, j in enumerate(index)" in tn \
        and "self._frequencies[index].item()" in tn
    # ... returned exactly when every axis got an integer
    conds_n = [n for n in ast.walk(ng.node) if isinstance(n, ast.If) and any(isinstance(b, ast.Return) and isinstance(b.value, ast.Tuple) for b in n.body)]
    ixn = [p for p in ng.params() if p != "self"][0]
    okn = okn and len(conds_n) == 1 and U(conds_n[0].test) in (f"len({ixn}) == self.ndim and all((isinstance(i, int) for i in {ixn}))",
                                                                 f"all((isinstance(i, int) for i in {ixn})) and len({ixn}) == self.ndim")
    ctx.check(okn, "C11.e", "HistogramND.__getitem__:all-int", "edges (left_i[j], right_i[j]) per axis and the content at the index tuple",
              "the all-integer case does not return the per-axis edges at (i, j) and the content at that tuple", ng.where)

    # a sliced binning is a fresh StaticBinning whose only patched attribute is `_bins` (no stale cached representation)
    ctx.rule("C11.f", "sub-binnings are fresh copies with only `_bins` replaced", 4)
    from rules import c07
    c07.check_binning_copies(ctx, "C11.f", m)

    # shared with C09.a: integer indices reduce the dimension through _reduce_dimension (contents, errors2, binnings, names)
    ctx.borrow("C09", ("_reduce_dimension:",), "C11.a", floor=3)
