"""E7b - interval-convention derivation shared by C01, C02 and C03.

The bin-membership convention of physt is fixed by a handful of comparison
operators and `searchsorted` sides.  The helpers here *derive* the convention
from whatever expressions the code uses (locals are expanded through their
reaching definitions, boolean combinations are evaluated over the finite domain
v<E / v==E / v>E x flag) and compare it with the property statement:
interior bin L <= v < R; last bin also v == R (1D always, ND iff the binning
includes its right edge); underflow v < L0; overflow v > R_last.
"""
from __future__ import annotations

import ast
from typing import Optional

from sa.model import AnalysisError, calls_in, kwarg
from sa.paths import function_paths, end_kind, consistent
from sa.util import U, Env, TupleItem, IterItem, call_is, const_value


def edge_truth(expr: ast.AST, value: str, is_edge, pos: str, flag: Optional[bool], flag_pred=None) -> Optional[bool]:
    """Truth of `expr` when value is at `pos` (lt / eq / gt) relative to the edge E."""

    def ev(e):
        if isinstance(e, ast.BoolOp):
            vals = [ev(v) for v in e.values]
            if isinstance(e.op, ast.And):
                if any(v is False for v in vals):
                    return False
                return True if all(v is True for v in vals) else None
            if any(v is True for v in vals):
                return True
            return False if all(v is False for v in vals) else None
        if isinstance(e, ast.UnaryOp) and isinstance(e.op, ast.Not):
            v = ev(e.operand)
            return None if v is None else not v
        if flag_pred is not None and flag_pred(e):
            return flag
        if isinstance(e, ast.Compare) and len(e.ops) == 1:
            l, op, r = e.left, type(e.ops[0]), e.comparators[0]
            if U(l) == value and is_edge(r):
                pass
            elif U(r) == value and is_edge(l):
                op = {ast.Lt: ast.Gt, ast.LtE: ast.GtE, ast.Gt: ast.Lt, ast.GtE: ast.LtE}.get(op, op)
            else:
                return None
            table = {
                ast.Lt: dict(lt=True, eq=False, gt=False), ast.LtE: dict(lt=True, eq=True, gt=False),
                ast.Gt: dict(lt=False, eq=False, gt=True), ast.GtE: dict(lt=False, eq=True, gt=True),
                ast.Eq: dict(lt=False, eq=True, gt=False), ast.NotEq: dict(lt=True, eq=False, gt=True),
            }
            return table[op][pos] if op in table else None
        return None

    return ev(expr)


def _truth_vector(expr, value, is_edge, flag_pred=None):
    out = {}
    for pos in ("lt", "eq", "gt"):
        for flag in ((True, False) if flag_pred else (None,)):
            out[(pos, flag)] = edge_truth(expr, value, is_edge, pos, flag, flag_pred)
    return out


def _searchsorted_of(env: Env, node: ast.AST):
    """If node (after resolving locals / .item() / int()) is np.searchsorted(a, v, side=..) return (a, v, side)."""
    node = env.resolve(node)
    while True:
        if isinstance(node, ast.Call) and isinstance(node.func, ast.Attribute) and node.func.attr == "item" and not node.args:
            node = env.resolve(node.func.value)
        elif isinstance(node, ast.Call) and U(node.func) == "int" and len(node.args) == 1:
            node = env.resolve(node.args[0])
        else:
            break
    if isinstance(node, ast.Call) and call_is(node, "searchsorted") and len(node.args) >= 2:
        side = kwarg(node, "side")
        side = const_value(side) if side is not None else (const_value(node.args[2]) if len(node.args) > 2 else "left")
        return node.args[0], node.args[1], side
    return None


def _check_find_bin(ctx, rule, fi, dim):
    ctx.saw(fi)
    cls = fi.cls.name
    value = [p for p in fi.params() if p != "self"][0]
    left_ok = ("self.bin_left_edges",) if dim == 1 else ("self.get_bin_left_edges(axis)",)
    right_txt = "self.bin_right_edges" if dim == 1 else "self.get_bin_right_edges(axis)"
    counts = ("self.bin_count",) if dim == 1 else ("self.shape[axis]",)
    res = dict(lookup=[], under=[], last=[], interior=[])
    n_paths = 0
    for p in function_paths(fi.node):
        if end_kind(p) != "return" or not consistent(p):
            continue
        env = Env()
        ixvar = None
        ss = None
        for step in p:
            if step[0] == "stmt" and isinstance(step[1], ast.Assign) and isinstance(step[1].targets[0], ast.Name):
                got = _searchsorted_of(env, step[1].value)
                if got:
                    ixvar = step[1].targets[0].id
                    ss = got
            env.step(step)
        if ixvar is None:
            continue  # path not through the per-axis lookup (e.g. ND tuple branch)
        n_paths += 1
        a, v, side = ss
        vname = U(v)  # the value variable may be a cast alias of the parameter
        env = Env()
        decisions = []
        for step in p:
            if step[0] == "cond":
                decisions.append((env.expand(step[1], keep=(ixvar, vname, "axis", value)), step[2], step[1]))
            env.step(step)
        res["lookup"].append((U(env.expand(a)) in left_ok and side == "right", f"searchsorted({U(env.expand(a))}, {vname}, side={side!r})"))
        ret = p[-1][2].value
        rtxt = U(ret) if ret is not None else "None"

        def is_edge_last(n):
            return U(n) in (right_txt + "[-1]",)

        def is_edge_cur(n):
            return U(n) in (right_txt + f"[{ixvar} - 1]",)

        cls_ = None
        for exp, val, raw in decisions:
            t = U(raw)
            if t == f"{ixvar} == 0" and val:
                cls_ = "under"
                break
            if t in tuple(f"{ixvar} == {c}" for c in counts) and val:
                cls_ = "last"
                break
        if cls_ is None:
            cls_ = "interior"
        if cls_ == "under":
            want = "-1" if dim == 1 else "None"
            res["under"].append((rtxt == want, f"{ixvar} == 0 -> return {rtxt}"))
        elif cls_ == "last":
            edge_conds = [(e, val) for e, val, raw in decisions
                          if any(is_edge_last(n) for n in ast.walk(e)) and vname in U(e)]
            if not edge_conds:
                res["last"].append((False, f"last-bin branch returns {rtxt} without comparing the value with the last right edge"))
                continue
            fp = (lambda n: isinstance(n, ast.Attribute) and n.attr == "includes_right_edge") if dim != 1 else None
            if dim == 1:
                want_tv = {("lt", None): True, ("eq", None): True, ("gt", None): False}
            else:
                want_tv = {("lt", True): True, ("lt", False): True, ("eq", True): True, ("eq", False): False,
                           ("gt", True): False, ("gt", False): False}
            # the region of (value ? last edge, right-inclusion) in which ALL decisions of this path hold - computed from the
            # atomic decisions, so that one compound test, nested ifs or early returns describe the same regions
            atoms_ = [(e, val) for e, val, raw in decisions if not isinstance(e, ast.BoolOp) and (
                (any(is_edge_last(n) for n in ast.walk(e)) and vname in U(e)) or (fp is not None and any(fp(n) for n in ast.walk(e))))]
            tvs = [(_truth_vector(e, vname, is_edge_last, fp), val) for e, val in atoms_]
            region = [k for k in want_tv if all(tv_[k] == val for tv_, val in tvs)]
            inside = rtxt in (f"{ixvar} - 1", f"int({ixvar} - 1)")
            outside = rtxt == (counts[0] if dim == 1 else "None")
            conv_ok = bool(region) and all(want_tv[k] == inside for k in region) and (inside or outside)
            res["last"].append((conv_ok,
                                f"decisions {[(U(e), val) for e, val in atoms_]} -> return {rtxt}; they hold for (v?E, right-incl) in "
                                + ", ".join(f"{k[0]}{'' if k[1] is None else ('+' if k[1] else '-')}" for k in region)))
        else:
            edge_conds = [(e, val) for e, val, raw in decisions
                          if any(is_edge_cur(n) for n in ast.walk(e)) and vname in U(e)]
            if not edge_conds:
                # may be the fall-through after failed tests
                res["interior"].append((False, f"interior branch returns {rtxt} without comparing the value with its bin's right edge"))
                continue
            e, val = edge_conds[-1]
            tv = _truth_vector(e, vname, is_edge_cur)
            conv_ok = tv == {("lt", None): True, ("eq", None): False, ("gt", None): False}
            if val:
                ret_ok = rtxt in (f"{ixvar} - 1", f"int({ixvar} - 1)")
            else:
                ret_ok = rtxt == "None" or (rtxt == counts[0] and False)
                # after `value < right[ix-1]` is false the value lies in a gap (or beyond): None
                pos = [i for i, d in enumerate(decisions) if d[0] is e][0]
                later = [(U(raw), v_) for _, v_, raw in decisions[pos + 1:]]
                if rtxt != "None" and any(t.startswith(f"{ixvar} ==") and v_ for t, v_ in later):
                    # `if ixbin == count: return count` after the interior test: infeasible here
                    # (count case returned earlier), kept by the authors; not a convention
                    ret_ok = True
            res["interior"].append((conv_ok and ret_ok, f"`{U(e)}` = {val} -> return {rtxt}"))
    if n_paths == 0:
        raise AnalysisError(f"{cls}.find_bin: no per-axis searchsorted lookup found")
    for kind, floor in (("lookup", 1), ("under", 1), ("last", 2), ("interior", 2)):
        items = res[kind]
        key = f"{cls}.find_bin:{kind}"
        if len(items) < floor:
            ctx.bad(rule, key, f"expected at least {floor} {kind} path(s) in find_bin, derived {len(items)}", fi.where)
            continue
        bad = sorted({d for ok, d in items if not ok})
        good = sorted({d for ok, d in items if ok})
        if bad:
            ctx.bad(rule, key, "convention differs from the construction kernel / statement: " + " || ".join(bad), fi.where)
        else:
            ctx.ok(rule, key, " || ".join(good), fi.where)


def check_find_bin_1d(ctx, rule, fi):
    _check_find_bin(ctx, rule, fi, 1)


def check_find_bin_nd(ctx, rule, fi):
    _check_find_bin(ctx, rule, fi, 2)


def check_kernel_1d(ctx, rule, fi, prefix="kernel1d"):
    """Derive the membership predicates of calculate_1d_frequencies' per-bin sweep."""
    ctx.saw(fi)
    facts = dict(freq=[], err=[], under=[], over=[], nan=[], sorted=[])
    loop = None
    for n in ast.walk(fi.node):
        if isinstance(n, ast.For) and isinstance(n.iter, ast.Call) and U(n.iter.func) == "enumerate":
            loop = n
            break
    if loop is None or not (isinstance(loop.target, ast.Tuple) and len(loop.target.elts) == 2):
        raise AnalysisError("calculate_1d_frequencies: `for xbin, bin in enumerate(bins)` sweep not found")
    xbin, binv = U(loop.target.elts[0]), U(loop.target.elts[1])
    bins_name = U(loop.iter.args[0])

    def edge_col(node):
        t = U(node)
        if t == f"{binv}[0]":
            return 0
        if t == f"{binv}[1]":
            return 1
        return None

    def bound(env, node):
        got = _searchsorted_of(env, node)
        if not got:
            return None
        a, v, side = got
        return (U(a), edge_col(v), side)

    def slice_bounds(env, node):
        """for X[lo:hi] return (base, lo, hi) with lo/hi resolved to bounds or const."""
        if not isinstance(node, ast.Subscript) or not isinstance(node.slice, ast.Slice):
            return None
        sl = node.slice

        def one(x):
            if x is None:
                return None
            c = const_value(x)
            if c is not None:
                return c
            return bound(env, x)

        return U(node.value), one(sl.lower), one(sl.upper)

    for p in function_paths(fi.node):
        env = Env()
        in_loop = False
        first = last = None
        gap_branch = cons_branch = False
        for step in p:
            if step[0] == "for" and step[1] is loop:
                in_loop = step[2]
            if step[0] == "cond":
                t = U(step[1])
                if t == f"{xbin} == 0":
                    first = step[2]
                if t in (f"{xbin} == len({bins_name}) - 1", f"{xbin} == {bins_name}.shape[0] - 1"):
                    last = step[2]
                if "is_consecutive" in t:
                    facts["nan"].append(("cond", t, step[2]))
                    gap_branch = step[2] is False
                    cons_branch = step[2] is True
            if step[0] == "stmt" and isinstance(step[1], ast.Assign):
                st = step[1]
                tgt = U(st.targets[0])
                if in_loop and tgt in (f"frequencies[{xbin}]", f"errors2[{xbin}]"):
                    # value is <slice>.sum() or (<slice> ** 2).sum()
                    val = st.value
                    squared = False
                    core = val
                    if isinstance(core, ast.Call) and isinstance(core.func, ast.Attribute) and core.func.attr == "sum":
                        core = core.func.value
                    if isinstance(core, ast.BinOp) and isinstance(core.op, ast.Pow) and const_value(core.right) == 2:
                        squared = True
                        core = core.left
                    sb = slice_bounds(env, core)
                    kind = "err" if tgt.startswith("errors2") else "freq"
                    facts[kind].append((last, squared, sb, U(st)))
                if in_loop and tgt == "underflow":
                    core = st.value
                    if isinstance(core, ast.Call) and isinstance(core.func, ast.Attribute) and core.func.attr == "sum":
                        core = core.func.value
                    facts["under"].append((first, slice_bounds(env, core), U(st)))
                if in_loop and tgt == "overflow":
                    core = st.value
                    if isinstance(core, ast.Call) and isinstance(core.func, ast.Attribute) and core.func.attr == "sum":
                        core = core.func.value
                    facts["over"].append((last, slice_bounds(env, core), U(st)))
                if not in_loop and tgt in ("underflow", "overflow") and U(st.value) in ("np.nan", "numpy.nan"):
                    if gap_branch:
                        facts["nan"].append(("store", tgt, None))
                    if cons_branch:
                        facts["nan"].append(("wrong-branch", tgt, None))
            env.step(step)

        if end_kind(p) == "return" and not (gap_branch or cons_branch) and any(st_[0] == "for" and st_[1] is loop for st_ in p):
            facts["nan"].append(("skipped", "", None))
    # the per-bin results are final: outside the sweep the result arrays are only allocated (zeros), never replaced
    reassigned = []
    for n in ast.walk(fi.node):
        if isinstance(n, ast.Assign) and isinstance(n.targets[0], ast.Name) and n.targets[0].id in ("frequencies", "errors2"):
            v = n.value
            if not (isinstance(v, ast.Call) and call_is(v, "zeros", "zeros_like")):
                reassigned.append(U(n)[:70])
        if isinstance(n, ast.AugAssign) and isinstance(n.target, ast.Name) and n.target.id in ("frequencies", "errors2"):
            reassigned.append(U(n)[:70])
    ctx.check(not reassigned, rule, f"{prefix}:results-final", "frequencies / errors2 are only allocated and filled bin by bin",
              "a result array of the sweep is replaced after it was computed: " + "; ".join(reassigned), fi.where)
    W = None
    problems = {k: [] for k in ("interior", "last", "under", "over", "nan", "errors")}
    good = {k: [] for k in problems}
    for last, squared, sb, txt in facts["freq"]:
        if sb is None:
            problems["interior"].append(f"`{txt}` is not a slice of the sorted weights summed")
            continue
        base, lo, hi = sb
        W = base
        exp_hi = (lo[0] if lo else None, 1, "right" if last else "left")
        exp_lo = (lo[0] if lo else None, 0, "left")
        k = "last" if last else "interior"
        if squared:
            problems[k].append(f"`{txt}` sums squared weights into the frequencies")
        elif lo == exp_lo and hi == exp_hi:
            good[k].append(f"[{_b(lo)} : {_b(hi)}]")
        else:
            problems[k].append(f"`{txt}` counts [{_b(lo)} : {_b(hi)}], expected [#{{d<L}} : #{{d{'<=' if last else '<'}R}}]")
    for last, squared, sb, txt in facts["err"]:
        match = [f for f in facts["freq"] if f[0] == last]
        if sb is None or not squared:
            problems["errors"].append(f"`{txt}` is not the sum of the squared weights of a slice")
        elif match and all(m[2] is not None and m[2] != sb for m in match):
            problems["errors"].append(f"`{txt}` reduces a different slice than the frequencies of the same bin")
        else:
            good["errors"].append(f"errors2 = sum(w**2) over the bin's slice (last={last})")
    for first, sb, txt in facts["under"]:
        if not first:
            problems["under"].append(f"`{txt}` is not under `{xbin} == 0`")
        elif sb and sb[1] in (0, None) and isinstance(sb[2], tuple) and sb[2][1:] == (0, "left") and (W is None or sb[0] == W):
            good["under"].append(f"underflow = sum(w[:{_b(sb[2])}]) at the first bin")
        else:
            problems["under"].append(f"`{txt}`: underflow must be the weight of {{d < L_first}}")
    for last, sb, txt in facts["over"]:
        if not last:
            problems["over"].append(f"`{txt}` is not under the last-bin test")
        elif sb and sb[2] is None and isinstance(sb[1], tuple) and sb[1][1:] == (1, "right") and (W is None or sb[0] == W):
            good["over"].append(f"overflow = sum(w[{_b(sb[1])}:]) at the last bin")
        else:
            problems["over"].append(f"`{txt}`: overflow must be the weight of {{d > R_last}}")
    sums_with_args = [U(c)[:60] for c in calls_in(loop) if isinstance(c.func, ast.Attribute) and c.func.attr == "sum"
                      and (c.args or c.keywords) and "weights" in U(c.func.value)]
    if sums_with_args:
        problems["interior"].append(f"the weight reduction {sums_with_args[0]} takes arguments (dtype= / axis=): the per-bin sum must be accumulated "
                                    "in the weights' own precision and only then stored")
    nan_cond = [f for f in facts["nan"] if f[0] == "cond"]
    nan_store = {f[1] for f in facts["nan"] if f[0] == "store"}
    stale = [f[1] for f in nan_cond if f[1] not in (f"_bin_utils.is_consecutive({bins_name})", f"is_consecutive({bins_name})")]
    if stale:
        problems["nan"].append(f"the gap test is `{stale[0]}`, not is_consecutive of the very bins array that was swept "
                               "(a cached verdict of the binning object can be stale)")
    if any(f[0] == "skipped" for f in facts["nan"]):
        problems["nan"].append("a returning path never asks whether the bins are consecutive: with gapped bins it reports under/overflow as known")
    if not nan_cond or nan_store != {"underflow", "overflow"} or any(f[0] == "wrong-branch" for f in facts["nan"]):
        problems["nan"].append("under/overflow are not both reset to NaN under the not-is_consecutive test")
    else:
        good["nan"].append("underflow = overflow = nan when bins are not consecutive")
    floors = dict(interior=1, last=1, under=1, over=1, nan=1, errors=2)
    for k in problems:
        key = f"{prefix}:{k}"
        if problems[k]:
            ctx.bad(rule, key, " || ".join(sorted(set(problems[k]))), fi.where)
        elif len(good[k]) < floors[k]:
            ctx.bad(rule, key, f"construct not found in the sweep ({k})", fi.where)
        else:
            ctx.ok(rule, key, " || ".join(sorted(set(good[k]))), fi.where)


def _b(b):
    if b is None:
        return ""
    if isinstance(b, tuple):
        arr, col, side = b
        edge = {0: "L", 1: "R", None: "?"}[col]
        return f"#{{{arr}{'<' if side == 'left' else '<='}{edge}}}"
    return str(b)
