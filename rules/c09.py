"""C09 - projections are exact marginals."""
from __future__ import annotations

import ast

from sa.model import AnalysisError, calls_in, kwarg
from sa.paths import function_paths, end_kind, consistent
from sa.util import U, Env, call_is, TupleItem, const_value, writes_of

EXPLANATION = (
    "C09: projection() reduces frequencies and errors2 with the same .sum over the same axes variable, which is the "
    "complement (in range(ndim)) of the axes resolved through _get_axis; _reduce_dimension keeps axis names and "
    "binnings by the membership test over an enumeration of the parent's lists (original order, independent of the "
    "order the caller listed the axes); empty / duplicate / unknown / out-of-range / wrongly typed axes are refused "
    "before anything is built; T reverses binnings and axis names and transposes both arrays on a copy; accumulate "
    "is a cumsum along exactly the resolved axis on a copy; the projection class maps of the transformed classes are "
    "well-typed tables."
)
NOT_DECIDED = "equality with a directly built histogram (numerical; depends on C02)."
TRUSTED = ["ndarray.sum(axis=tuple) keeps the remaining axes in order", "np.cumsum along one axis"]


def _ndim_of(m, c):
    if m.is_subclass(c, "Histogram1D"):
        return 1
    names = m.resolve_attr(c, "default_axis_names")
    if names is not None and isinstance(names[1], (ast.List, ast.Tuple)):
        return len(names[1].elts)
    if c.name == "Histogram2D":
        return 2
    return None


def check_class_maps(ctx, rule, m):
    mix = m.cls("TransformedHistogramMixin")
    n = 0
    for c in m.subclasses(mix):
        mp = c.attrs.get("_projection_class_map")
        if mp is None:
            continue
        if not isinstance(mp, ast.Dict):
            ctx.bad(rule, f"{c.name}._projection_class_map", "not a dict literal", c.where)
            continue
        src_names = [const_value(e) for e in m.resolve_attr(c, "default_axis_names")[1].elts]
        nd = _ndim_of(m, c)
        for k, v in zip(mp.keys, mp.values):
            n += 1
            key = tuple(const_value(e) for e in k.elts) if isinstance(k, ast.Tuple) else None
            tgt = m.resolve_class_expr(c.module, v)
            ikey = f"{c.name}:{U(k)}->{U(v)}"
            if key is None or tgt is None:
                ctx.bad(rule, ikey, "entry not understood (key must be a tuple of ints, value a class)", c.where)
                continue
            probs = []
            if list(key) != sorted(set(key)) or any(not isinstance(a, int) or a < 0 or a >= nd for a in key):
                probs.append(f"key {key} is not a sorted tuple of distinct axes below {nd}")
            tn = _ndim_of(m, tgt)
            tnames = m.resolve_attr(tgt, "default_axis_names")
            tnames = [const_value(e) for e in tnames[1].elts] if tnames is not None and isinstance(tnames[1], (ast.List, ast.Tuple)) else None
            if tn != len(key):
                probs.append(f"{tgt.name} has {tn} axes but the key keeps {len(key)}")
            want = [src_names[a] for a in key if isinstance(a, int) and 0 <= a < len(src_names)]
            # rho (cylindrical) and r of a planar source are the same coordinate hypot(x, y)
            planar = {"rho": "r"}
            tsrc = m.resolve_attr(tgt, "source_ndim")
            tsrc = [const_value(e) for e in tsrc[1].elts] if tsrc and isinstance(tsrc[1], ast.Tuple) else ([const_value(tsrc[1])] if tsrc else [])
            norm = lambda ns: [planar.get(n_, n_) if 2 in tsrc else n_ for n_ in ns]
            if tnames is not None and norm(tnames) != norm(want):
                probs.append(f"{tgt.name} names its axes {tnames}; the kept axes of {c.name} are {want}")
            ctx.check(not probs, rule, ikey, f"axes {want} -> {tgt.name}{tnames}", " ; ".join(probs), c.where)
        if len(src_names) != nd:
            ctx.bad(rule, f"{c.name}:axis-name-count", f"{len(src_names)} default axis names for {nd} axes", c.where)
    pr = mix.methods.get("projection")
    if pr is None:
        raise AnalysisError("TransformedHistogramMixin.projection not found")
    ctx.saw(pr)
    # per returning path: the axes handed on are the resolved, sorted ones; a class is forced (type=) exactly on the paths that
    # found the sorted axes in the class map, and it is the map's entry for them - everything else is left to _reduce_dimension
    probs_, n_paths = [], 0
    for p_ in function_paths(pr.node):
        if end_kind(p_) != "return":
            continue
        n_paths += 1
        env = Env()
        member = None
        rets__ = [st_[1] for st_ in p_ if st_[0] == "stmt" and isinstance(st_[1], ast.Return)]
        for st_ in p_[:-1]:
            if st_[0] == "stmt" and isinstance(st_[1], ast.Return):
                break
            env.step(st_)
            if st_[0] == "cond" and "_projection_class_map" in U(st_[1]) and isinstance(st_[1], ast.Compare) and isinstance(st_[1].ops[0], (ast.In, ast.NotIn)):
                member = st_[2] if isinstance(st_[1].ops[0], ast.In) else not st_[2]
        ret = rets__[-1].value if rets__ else None
        if not (isinstance(ret, ast.Call) and U(ret.func) == "HistogramND.projection"):
            probs_.append(f"a path returns `{U(ret)[:60]}`")
            continue
        star = [a for a in ret.args if isinstance(a, ast.Starred)]
        # follow the handed-on name back along the path: ... = sorted(X) where X came out of _get_projection_axes
        chain, want_ = [], (U(star[0].value) if star and isinstance(star[0].value, ast.Name) else None)
        for st_ in reversed(p_):
            if want_ is None or st_[0] != "stmt" or not isinstance(st_[1], (ast.Assign, ast.AnnAssign)):
                continue
            tg_ = st_[1].targets[0] if isinstance(st_[1], ast.Assign) else st_[1].target
            names_ = [U(e) for e in tg_.elts] if isinstance(tg_, ast.Tuple) else [U(tg_)]
            if want_ in names_ and names_.index(want_) == 0:
                chain.append(U(st_[1].value))
                inner = [n.id for n in ast.walk(st_[1].value) if isinstance(n, ast.Name) and n.id not in ("tuple", "sorted", "self", "list")]
                want_ = inner[0] if inner and "_get_projection_axes" not in chain[-1] else None
        ax = " <- ".join(chain)
        if not (any("sorted(" in c_ for c_ in chain) and chain and "_get_projection_axes" in chain[-1]):
            probs_.append(f"the axes handed on are `{ax[:80]}`, not the resolved axes in sorted order")
        typ = [k for k in ret.keywords if k.arg == "type"]
        if member is True:
            tv = U(env.expand(typ[0].value)) if typ else None
            if tv is None or "_projection_class_map[" not in tv:
                probs_.append(f"axes found in the class map, but the class handed on is `{tv}`")
        elif typ:
            probs_.append(f"a class (`{U(env.expand(typ[0].value))[:60]}`) is forced although the path did not find the axes in the class map "
                          "(the default class for the remaining dimension is then not used)")
    ctx.check(not probs_ and n_paths >= 2, rule, "TransformedHistogramMixin.projection:lookup", "axes resolved, sorted, looked up; class passed as type= on the found path only",
              " ; ".join(sorted(set(probs_))[:3]) or f"only {n_paths} returning path(s): the class map is not consulted by a membership test", pr.where)
    cy = m.cls("CylindricalHistogram").methods.get("projection")
    if cy is not None:
        ctx.saw(cy)
        tt = U(cy.node)
        ctx.check("isinstance(result, CylindricalSurfaceHistogram)" in tt and "result.radius = self.get_bin_right_edges(0)[-1]" in tt, rule,
                  "CylindricalHistogram.projection:radius", "surface projection gets radius = last rho edge",
                  "the cylinder-surface projection no longer takes its radius from the last rho edge", cy.where)
    mixp = m.cls("TransformedHistogramMixin").methods["projection"]
    rets_ = [n.value for n in ast.walk(mixp.node) if isinstance(n, ast.Return)]
    okm_ = bool(rets_) and all(isinstance(v, ast.Call) and U(v.func) == "HistogramND.projection" and U(v.args[0]) == "self" for v in rets_)
    ctx.check(okm_, rule, "TransformedHistogramMixin.projection:returns-the-marginal", "every path returns HistogramND.projection(self, *axes, ...) unchanged",
              f"the mixin post-processes the projection it returns ({[U(v)[:50] for v in rets_]}): names / contents of the marginal are then not those of the kept axes",
              mixp.where)
    return n


def run(ctx):
    m = ctx.model
    HN, HB, H2 = m.cls("HistogramND"), m.cls("HistogramBase"), m.cls("Histogram2D")
    pj = HN.methods.get("projection")
    if pj is None:
        raise AnalysisError("HistogramND.projection not found")
    ctx.saw(pj)

    ctx.rule("C09.a", "frequencies and errors2 reduced by the same sum over the complement of the kept axes; names / binnings kept in original order", 5)
    # a projection stays the marginal of the data it was taken from only if it owns its binnings and arrays: a parent
    # (or sibling projection) that grows an adaptive axis later must not re-bin it (shared with C12.a)
    from rules import c12
    for spec in [s_ for s_ in c12.OPS if s_[2] == "projection"]:
        c12.check_op(ctx, m, "C09.a", "C09.a", *spec)
    got = {}
    for path in function_paths(pj.node):
        if end_kind(path) != "return":
            continue
        env = Env()
        for step in path:
            if step[0] == "stmt" and isinstance(step[1], ast.Assign) and isinstance(step[1].targets[0], ast.Name):
                t, v = step[1].targets[0].id, step[1].value
                if isinstance(v, ast.Call) and isinstance(v.func, ast.Attribute) and v.func.attr == "sum":
                    ax = kwarg(v, "axis") or (v.args[0] if v.args else None)
                    axd = env.resolve(ax) if ax is not None else None
                    plain = len(v.args) + len(v.keywords) == 1
                    got[t] = (U(v.func.value) if plain else U(v), isinstance(axd, TupleItem) and axd.index == 1 and isinstance(axd.value, ast.Call)
                              and U(axd.value.func) == "self._get_projection_axes", U(ax) if ax is not None else None)
            env.step(step)
        ret = path[-1][2].value
        okr = isinstance(ret, ast.Call) and U(ret.func) == "self._reduce_dimension" and len(ret.args) >= 3
        if okr:
            a0 = env.resolve(ret.args[0])
            got["_call"] = (isinstance(a0, TupleItem) and a0.index == 0, U(ret.args[1]), U(ret.args[2]), any(k.arg is None for k in ret.keywords))
    n_ret = bad_ret = 0
    for path in function_paths(pj.node):
        if end_kind(path) != "return":
            continue
        n_ret += 1
        env2 = Env()
        for step in path:
            env2.step(step)
        ret = path[-1][2].value
        if not (isinstance(ret, ast.Call) and U(ret.func) == "self._reduce_dimension" and len(ret.args) >= 3
                and U(env2.expand(ret.args[1])).startswith(("self.frequencies.sum(", "self._frequencies.sum("))
                and U(env2.expand(ret.args[2])).startswith(("self.errors2.sum(", "self._errors2.sum("))):
            bad_ret += 1
    ctx.check(n_ret >= 1 and bad_ret == 0, "C09.a", "projection:every-path-sums", f"all {n_ret} returning path(s) hand the summed contents and errors to _reduce_dimension",
              f"{bad_ret} of {n_ret} returning paths of projection() do not return _reduce_dimension(axes, <contents summed>, <errors2 summed>) "
              "(a shortcut path returns something that is not the marginal)", pj.where)
    f, e = got.get("frequencies"), got.get("errors2")
    ctx.check(bool(f and f[0] in ("self.frequencies", "self._frequencies") and f[1]), "C09.a", "projection:frequencies",
              "frequencies = self.frequencies.sum(axis=<dropped axes>)", f"frequencies reduced as {f}", pj.where)
    ctx.check(bool(e and e[0] in ("self.errors2", "self._errors2") and e[1] and f and e[2] == f[2]), "C09.a", "projection:errors2",
              "errors2 = self.errors2.sum over the same axes",
              f"squared errors are reduced from `{e[0] if e else None}` over `{e[2] if e else None}` (must be self.errors2 over the axes used for the frequencies)", pj.where)
    c = got.get("_call")
    ctx.check(bool(c and c[0] and c[1] == "frequencies" and c[2] == "errors2" and c[3]), "C09.a", "projection:reduce-call",
              "_reduce_dimension(<kept axes>, frequencies, errors2, **kwargs)", f"_reduce_dimension is called with {c}", pj.where)
    gpa = HN.methods.get("_get_projection_axes")
    ctx.saw(gpa)
    t = U(gpa.node)
    okc = "axes_: List[int] = [self._get_axis(ax) for ax in axes]" in t or "axes_ = [self._get_axis(ax) for ax in axes]" in t
    okinv = "invert = (i for i in range(self.ndim) if i not in axes_)" in t or "invert = [i for i in range(self.ndim) if i not in axes_]" in t
    okret = "return (tuple(axes_), tuple(invert))" in t
    ctx.check(okc and okinv and okret, "C09.a", "_get_projection_axes:complement",
              "kept = resolved axes; dropped = range(ndim) minus kept (from the resolved, not the raw, arguments)",
              "the dropped axes are not the complement of the resolved kept axes within range(ndim)", gpa.where)
    rdm = HN.methods.get("_reduce_dimension")
    ctx.saw(rdm)
    comps = {U(n.targets[0]): n.value for n in ast.walk(rdm.node) if isinstance(n, ast.Assign) and isinstance(n.value, ast.ListComp)}

    def member_filter(lc, source):
        g = lc.generators[0]
        return (isinstance(g.iter, ast.Call) and U(g.iter.func) == "enumerate" and U(g.iter.args[0]) == source
                and isinstance(g.target, ast.Tuple) and len(g.ifs) == 1 and U(g.ifs[0]) == f"{U(g.target.elts[0])} in axes")
    oknames = "axis_names" in comps and member_filter(comps["axis_names"], "self.axis_names") and U(comps["axis_names"].elt) == U(comps["axis_names"].generators[0].target.elts[1])
    okbins = "bins" in comps and member_filter(comps["bins"], "self._binnings")
    ctx.check(bool(oknames and okbins), "C09.a", "_reduce_dimension:original-order",
              "axis names and binnings kept by `i in axes` over enumerate(...) - the parent's order, like numpy's sum",
              "axis names / binnings are not selected by membership over the parent's own order (listing the axes in another "
              "order would then swap names and bins relative to the summed contents)", rdm.where)

    # sibling agreement of the 1-D / 2-D / N-D branches: each hands the summed contents AND their summed squared errors,
    # the kept binnings, the kept names and the name to the constructor
    rp = [q for q in rdm.params() if q != "self"]
    nret = 0
    for n in ast.walk(rdm.node):
        if not (isinstance(n, ast.Return) and isinstance(n.value, ast.Call)):
            continue
        nret += 1
        call = n.value
        kws = {k.arg: U(k.value) for k in call.keywords if k.arg}
        probs = []
        if kws.get("frequencies") != rp[1]:
            probs.append(f"frequencies={kws.get('frequencies')}")
        if kws.get("errors2") != rp[2]:
            probs.append(f"errors2={kws.get('errors2')} (without it the constructor takes errors2 = |frequencies|)")
        if not (kws.get("binning") == "bins[0]" or kws.get("binnings") == "bins"):
            probs.append("kept binnings not passed")
        if not (kws.get("axis_name") == "axis_names[0]" or kws.get("axis_names") == "axis_names"):
            probs.append("kept axis names not passed")
        if kws.get("name") != "name":
            probs.append("name not passed")
        dim = kws.get("dimension", "1" if "binning" in kws else "2")
        ctx.check(not probs, "C09.a", f"_reduce_dimension:branch:{dim}", "contents, errors2, binnings, axis names and name handed to the constructor",
                  f"`{U(call.func)}(...)` for {dim} kept axes: " + "; ".join(probs), rdm.where)
    ctx.check(nret >= 3, "C09.a", "_reduce_dimension:branches", f"{nret} constructing branches", f"only {nret} constructing branches found", rdm.where)

    ctx.rule("C09.b", "empty / duplicate axis lists, unknown names, out-of-range indices and other types are refused", 5)
    conds = set()
    for p in function_paths(gpa.node):
        if end_kind(p) == "raise":
            conds |= {U(s[1]) for s in p if s[0] == "cond" and s[2]}
            conds |= {"not " + U(s[1]) for s in p if s[0] == "cond" and not s[2]}
    ctx.check("not axes_" in conds, "C09.b", "_get_projection_axes:empty", "no axis -> ValueError", "an empty axis list is not refused", gpa.where)
    ctx.check("len(axes_) != len(set(axes_))" in conds, "C09.b", "_get_projection_axes:duplicates", "duplicate axes -> ValueError",
              "duplicate axes are not refused", gpa.where)
    ga = HB.methods.get("_get_axis")
    ctx.saw(ga)
    rc = {}
    for p in function_paths(ga.node):
        cs = [(U(s[1]), s[2]) for s in p if s[0] == "cond"]
        if end_kind(p) == "raise":
            rc[tuple(cs)] = U(p[-1][2])
    p_ = [x for x in ga.params() if x != "self"][0]
    ok_int = any((f"isinstance({p_}, int)", True) in k and (f"{p_} < 0 or {p_} >= self.ndim", True) in k for k in rc)
    ok_str = any((f"isinstance({p_}, str)", True) in k and (f"{p_} not in self.axis_names", True) in k for k in rc)
    ok_type = any((f"isinstance({p_}, int)", False) in k and (f"isinstance({p_}, str)", False) in k and "TypeError" in v for k, v in rc.items())
    ctx.check(ok_int, "C09.b", "_get_axis:int-range", "index outside [0, ndim) -> ValueError", "out-of-range axis indices are not refused", ga.where)
    ctx.check(ok_str, "C09.b", "_get_axis:unknown-name", "unknown axis name -> ValueError", "unknown axis names are not refused", ga.where)
    ctx.check(ok_type, "C09.b", "_get_axis:type", "neither int nor str -> TypeError", "other argument types are not refused with TypeError", ga.where)
    rets = [U(n.value) for n in ast.walk(ga.node) if isinstance(n, ast.Return)]
    ctx.check(sorted(rets) == sorted([p_, f"self.axis_names.index({p_})"]), "C09.b", "_get_axis:returns", "returns the index itself / the position of the name",
              f"_get_axis returns {rets}", ga.where)

    ctx.rule("C09.c", "Histogram2D.T reverses binnings and axis names and transposes frequencies and errors2, on a copy", 1)
    T = H2.getters.get("T")
    if T is None:
        raise AnalysisError("Histogram2D.T not found")
    ctx.saw(T)
    npaths = 0
    probs = []
    for path in function_paths(T.node):
        if end_kind(path) != "return":
            continue
        npaths += 1
        v = None
        done = set()
        for step in path:
            if step[0] == "stmt" and isinstance(step[1], ast.Assign):
                tt, vv = U(step[1].targets[0]), U(step[1].value)
                if vv == "self.copy()":
                    v = tt
                if v:
                    if tt == f"{v}._binnings" and vv in (f"list(reversed({v}._binnings))", f"{v}._binnings[::-1]"):
                        done.add("binnings")
                    if tt == f"{v}.axis_names" and vv in (f"tuple(reversed({v}.axis_names))", f"{v}.axis_names[::-1]"):
                        done.add("names")
                    if tt == f"{v}._frequencies" and vv == f"{v}._frequencies.T":
                        done.add("frequencies")
                    if tt == f"{v}._errors2" and vv == f"{v}._errors2.T":
                        done.add("errors2")
        missing = {"binnings", "names", "frequencies", "errors2"} - done
        none_guard = any(s_[0] == "cond" and not s_[2] and U(s_[1]).endswith("errors2 is not None") for s_ in path)
        if missing == {"errors2"} and none_guard:
            missing = set()
        if missing:
            conds = [f"{U(s_[1])}={s_[2]}" for s_ in path if s_[0] == "cond"]
            probs.append(f"on the path [{'; '.join(conds)}] T does not swap {sorted(missing)}")
        if U(path[-1][2].value) != v:
            probs.append("T does not return the permuted copy")
    ctx.check(npaths > 0 and not probs, "C09.c", "Histogram2D.T",
              "on every path: copy; reverse binnings and names; transpose frequencies and errors2", " ; ".join(sorted(set(probs))[:2]), T.where)

    ctx.rule("C09.d", "accumulate = cumsum of the copy's frequencies along exactly the resolved axis", 1)
    ac = HN.methods.get("accumulate")
    ctx.saw(ac)
    ta = U(ac.node)
    p_ = [x for x in ac.params() if x != "self"][0]
    okacc = False
    for path in function_paths(ac.node):
        env = Env()
        for step in path:
            if step[0] == "stmt" and isinstance(step[1], ast.Assign) and U(step[1].targets[0]).endswith("._frequencies"):
                v = step[1].value
                obj = U(step[1].targets[0])[:-len("._frequencies")]
                if isinstance(v, ast.Call) and call_is(v, "cumsum") and len(v.args) + len(v.keywords) == 2:
                    ax = v.args[1] if len(v.args) > 1 else kwarg(v, "axis")
                    axd = env.resolve(ax)
                    src = env.resolve(ast.Name(id=obj, ctx=ast.Load()))
                    okacc = U(v.args[0]) in (f"{obj}.frequencies", f"{obj}._frequencies") and U(axd) == f"self._get_axis({p_})" and U(src) == "self.copy()"
            env.step(step)
    ctx.check(okacc, "C09.d", "HistogramND.accumulate", "copy; frequencies = cumsum(copy.frequencies, self._get_axis(axis))",
              "accumulate is not a cumsum of a copy along the resolved axis", ac.where)

    from rules import wiring
    wiring.axis_resolved(ctx, "C09.d", ac)
    wiring.axis_resolved(ctx, "C09.d", HN.methods["select"])

    ctx.rule("C09.e", "projection class maps of the transformed classes are well typed", 8)
    check_class_maps(ctx, "C09.e", m)
    # the transpose and the cumulative form start from copy(): everything recorded travels with it (shared with C12.a)
    ctx.borrow("C12", ("HistogramBase.copy:with-contents", "HistogramBase.copy:"), "C09.c", floor=1)
