"""C16 - densities, bin geometry and cumulative values are consistent."""
from __future__ import annotations

import ast
from fractions import Fraction

from sa.model import AnalysisError, calls_in, kwarg
from sa.symbolic import Poly, to_poly
from sa.paths import function_paths, end_kind
from sa.util import U, call_is, const_value

EXPLANATION = (
    "C16: every bin_sizes body is evaluated symbolically into a tensor product of per-axis factors over the symbols "
    "L, R (left / right edge), cos L, cos R and pi and compared in normal form with the measure table selected by the "
    "class's axis names (width; (R^2-L^2)/2 * dphi; pi (R^2-L^2); (R^3-L^3)/3 * (cos L - cos R) * dphi; ...; ND = product "
    "of widths over all axes); densities is frequencies / bin_sizes and bin_sizes resolves through the MRO to that "
    "concrete definition for each of the ten classes; edges / centres / widths (1D and per-axis ND, mesh forms over "
    "all axes with ij indexing), total_width = sum of widths, total_size = sum of bin sizes, cumulative = cumsum, "
    "total = sum, errors = sqrt(errors2) are checked in the same normal form."
)
NOT_DECIDED = "floating-point identity densities * bin_sizes == frequencies; zero-measure bins; additivity and closed-form totals follow algebraically from the table (each factor is F(R) - F(L))."
TRUSTED = ["np.outer / np.multiply.outer / np.ix_ broadcasting build the tensor product of 1-D factors"]

L, R, cL, cR, PI = (Poly.sym(s) for s in ("L", "R", "cosL", "cosR", "pi"))
W = R - L
half = Poly.const(Fraction(1, 2))
third = Poly.const(Fraction(1, 3))
FACTORS = {
    "width": W, "r2d": (R * R - L * L) * half, "r3d": (R * R * R - L * L * L) * third, "theta": cL - cR,
    "radial": (R * R - L * L) * PI,
}
EXPECT = {
    "Histogram1D": ["width"], "AzimuthalHistogram": ["width"], "RadialHistogram": ["radial"],
    "PolarHistogram": ["r2d", "width"], "SphericalSurfaceHistogram": ["theta", "width"], "SphericalHistogram": ["r3d", "theta", "width"],
    "CylindricalSurfaceHistogram": ["width", "width"], "CylindricalHistogram": ["r2d", "width", "width"],
}
AXIS_NAMES = {
    "AzimuthalHistogram": ["phi"], "RadialHistogram": ["r"], "PolarHistogram": ["r", "phi"], "SphericalSurfaceHistogram": ["theta", "phi"],
    "SphericalHistogram": ["r", "theta", "phi"], "CylindricalSurfaceHistogram": ["phi", "z"], "CylindricalHistogram": ["rho", "phi", "z"],
}


class Tensor:
    """scalar coefficient polynomial x {axis: factor polynomial}"""

    def __init__(self, factors=None, scalar=None):
        self.f = dict(factors or {})
        self.s = scalar if scalar is not None else Poly.const(1)

    def single(self):
        return len(self.f) == 1


def ev(e, env, one_d):
    """Evaluate a bin_sizes expression to a Tensor (or None)."""
    if isinstance(e, ast.Name):
        return env.get(e.id)
    if isinstance(e, ast.Constant) and isinstance(e.value, (int, float)):
        return Tensor({}, Poly.const(Fraction(str(e.value))))
    t = U(e)
    if t in ("np.pi", "numpy.pi", "math.pi"):
        return Tensor({}, PI)
    if one_d:
        m = {"self.bin_right_edges": R, "self.bin_left_edges": L, "self.bin_widths": W}
        if t in m:
            return Tensor({0: m[t]})
    if isinstance(e, ast.Call):
        f = U(e.func)
        if f in ("self.get_bin_right_edges", "self.get_bin_left_edges", "self.get_bin_widths") and len(e.args) == 1:
            k = const_value(e.args[0])
            if isinstance(k, int):
                return Tensor({k: {"self.get_bin_right_edges": R, "self.get_bin_left_edges": L, "self.get_bin_widths": W}[f]})
            return None
        if call_is(e, "cos") and len(e.args) == 1:
            a = ev(e.args[0], env, one_d)
            if a is not None and a.single() and a.s == Poly.const(1):
                (k, p), = a.f.items()
                if p == L:
                    return Tensor({k: cL})
                if p == R:
                    return Tensor({k: cR})
            return None
        if f in ("np.outer", "np.multiply.outer") and len(e.args) == 2:
            a, b = ev(e.args[0], env, one_d), ev(e.args[1], env, one_d)
            return tensor_product([a, b])
        if f == "reduce" and len(e.args) == 2 and U(e.args[0]) == "np.multiply" and isinstance(e.args[1], ast.Call) and U(e.args[1].func) == "np.ix_":
            return tensor_product([ev(a, env, one_d) for a in e.args[1].args])
        return None
    if isinstance(e, ast.BinOp):
        a, b = ev(e.left, env, one_d), None
        if isinstance(e.op, ast.Pow):
            n = const_value(e.right)
            if a is None or not isinstance(n, int) or not a.single() or a.s != Poly.const(1):
                return None
            (k, p), = a.f.items()
            return Tensor({k: p.pow(n)})
        b = ev(e.right, env, one_d)
        if a is None or b is None:
            return None
        if isinstance(e.op, (ast.Add, ast.Sub)):
            if a.single() and b.single() and list(a.f) == list(b.f) and a.s == b.s == Poly.const(1):
                k = list(a.f)[0]
                return Tensor({k: a.f[k] + b.f[k] if isinstance(e.op, ast.Add) else a.f[k] - b.f[k]})
            return None
        def keep(t_new, src):
            if hasattr(src, "order"):
                t_new.order = src.order
            return t_new
        if isinstance(e.op, ast.Mult):
            if not a.f:
                return keep(Tensor(b.f, b.s * a.s), b)
            if not b.f:
                return keep(Tensor(a.f, a.s * b.s), a)
            return None  # elementwise product of two axis vectors is not a measure
        if isinstance(e.op, ast.Div):
            if not b.f:
                inv = b.s.inv()
                return None if inv is None else keep(Tensor(a.f, a.s * inv), a)
            return None
    return None


def tensor_product(parts):
    if any(p is None for p in parts):
        return None
    f = {}
    s = Poly.const(1)
    order = []
    for p in parts:
        for k, v in p.f.items():
            if k in f:
                return None
            f[k] = v
        order += getattr(p, "order", sorted(p.f))
        s = s * p.s
    t = Tensor(f, s)
    t.order = order      # the axes in the order the outer product lays them out (the result's array axes)
    return t


def eval_getter(fi, one_d):
    env = {}
    result = None
    for st in fi.node.body:
        if isinstance(st, ast.Assign) and isinstance(st.targets[0], ast.Name):
            env[st.targets[0].id] = ev(st.value, env, one_d)
        elif isinstance(st, ast.Return):
            result = ev(st.value, env, one_d)
        elif isinstance(st, ast.Expr) and isinstance(st.value, ast.Constant):
            continue
        else:
            return None
    return result


def run(ctx):
    m = ctx.model
    HB, H1, HN, OWB = m.cls("HistogramBase"), m.cls("Histogram1D"), m.cls("HistogramND"), m.cls("ObjectWithBinning")

    ctx.rule("C16.a", "bin_sizes of every class equals the measure table in normal form", 9)
    for cname, want in EXPECT.items():
        c = m.cls(cname)
        r = m.resolve_getter(c, "bin_sizes")
        if r is None:
            ctx.bad("C16.a", f"{cname}.bin_sizes", "bin_sizes does not resolve to a property", c.where)
            continue
        fi = r[1]
        ctx.saw(fi)
        one_d = m.is_subclass(c, "Histogram1D")
        if cname in AXIS_NAMES:
            names = m.resolve_attr(c, "default_axis_names")
            got_names = [const_value(e) for e in names[1].elts] if names else None
            if got_names != AXIS_NAMES[cname]:
                ctx.bad("C16.a", f"{cname}.bin_sizes", f"axis names {got_names} differ from {AXIS_NAMES[cname]}: the measure table cannot be selected", c.where)
                continue
        t = eval_getter(fi, one_d)
        if t is None:
            ctx.bad("C16.a", f"{cname}.bin_sizes", f"{fi.qualname} is not a tensor product of per-axis edge expressions (not understood)", fi.where)
            continue
        # fold the scalar into the first axis factor for comparison
        fac = dict(t.f)
        if sorted(fac) != list(range(len(want))):
            ctx.bad("C16.a", f"{cname}.bin_sizes", f"factors for axes {sorted(fac)}, expected axes {list(range(len(want)))} (an axis is missing or doubled)", fi.where)
            continue
        scal = t.s
        probs = []
        lay = getattr(t, "order", sorted(fac))
        if lay != sorted(lay):
            probs.append(f"the outer product lays the axes out as {lay}: bin_sizes is transposed relative to frequencies")
        for k, wn in enumerate(want):
            expect = FACTORS[wn]
            got = fac[k] * scal if k == 0 else fac[k]
            if got != expect:
                probs.append(f"axis {k}: {got} instead of {expect}")
        ctx.check(not probs, "C16.a", f"{cname}.bin_sizes", " x ".join(str(FACTORS[w]) for w in want), " ; ".join(probs), fi.where)
    # HistogramND: product of widths over all axes
    bs = HN.getters.get("bin_sizes")
    ctx.saw(bs)
    t = U(bs.node)
    loops = [n for n in ast.walk(bs.node) if isinstance(n, ast.For)]
    ok = False
    if len(loops) == 1:
        lp = loops[0]
        iv = U(lp.target)
        inits = [n for n in bs.node.body if isinstance(n, ast.Assign)]
        acc = U(inits[0].targets[0]) if inits else None
        ok = (inits and U(inits[0].value) == "self.get_bin_widths(0)" and U(lp.iter) == "range(1, self.ndim)"
              and len(lp.body) == 1 and U(lp.body[0]) in (f"{acc} = np.multiply.outer({acc}, self.get_bin_widths({iv}))", f"{acc} = np.outer({acc}, self.get_bin_widths({iv}))")
              and any(isinstance(n, ast.Return) and U(n.value) == acc for n in bs.node.body))
    ctx.check(ok, "C16.a", "HistogramND.bin_sizes", "widths(0) outer widths(1) ... outer widths(ndim-1)",
              "the ND bin size is not the outer product of the widths of all axes 0..ndim-1", bs.where)

    ctx.rule("C16.b", "densities = frequencies / bin_sizes, resolved to a concrete bin_sizes for every class", 11)
    d = HB.getters.get("densities")
    ctx.saw(d)
    rets = [U(n.value) for n in ast.walk(d.node) if isinstance(n, ast.Return)]
    ctx.check(rets in (["self._frequencies / self.bin_sizes"], ["self.frequencies / self.bin_sizes"]), "C16.b", "HistogramBase.densities",
              "frequencies / bin_sizes", f"densities returns {rets}", d.where)
    for c in m.subclasses(HB):
        r = m.resolve_getter(c, "bin_sizes")
        abstract = r is None or any("abstractmethod" in x for x in r[1].decorator_names())
        ctx.check(not abstract, "C16.b", f"{c.name}:bin_sizes-resolves", f"resolves to {r[1].qualname if r else None}",
                  f"{c.name}.bin_sizes resolves to an abstract / missing definition", c.where)

    ctx.rule("C16.c", "edge / centre / width algebra (1D, per-axis ND, mesh forms), total_width, total_size", 14)

    def getter_expr(cls, name):
        g = cls.getters.get(name)
        if g is None:
            raise AnalysisError(f"{cls.name}.{name} not found")
        ctx.saw(g)
        rets = [n.value for n in ast.walk(g.node) if isinstance(n, ast.Return)]
        return g, (rets[0] if len(rets) == 1 else None)

    def leaf1(n):
        return {"self.bin_left_edges": L, "self.bin_right_edges": R, "self.bin_widths": W}.get(U(n))
    for name, want in (("bin_left_edges", "self.bins[..., 0]"), ("bin_right_edges", "self.bins[..., 1]")):
        g, e = getter_expr(OWB, name)
        ctx.check(e is not None and U(e) in (want, want.replace("...", ":")), "C16.c", f"ObjectWithBinning.{name}", want, f"{name} = {U(e) if e is not None else None}", g.where)
    for name, want in (("bin_centers", (L + R) * half), ("bin_widths", W)):
        g, e = getter_expr(OWB, name)
        p = to_poly(e, leaf1) if e is not None else None
        ctx.check(p == want, "C16.c", f"ObjectWithBinning.{name}", str(want), f"{name} normalises to {p}, expected {want}", g.where)
    for name, want in (("min_edge", "self.bin_left_edges[0]"), ("max_edge", "self.bin_right_edges[-1]"), ("total_width", "self.bin_widths.sum().item()"),
                       ("bins", "self.binning.bins"), ("numpy_bins", "self.binning.numpy_bins")):
        g, e = getter_expr(OWB, name)
        ctx.check(e is not None and U(e) in (want, want.replace(".item()", ""), f"float({want.replace('.item()', '')})"), "C16.c", f"ObjectWithBinning.{name}", want,
                  f"{name} = `{U(e) if e is not None else None}`, expected `{want}`" + (" (the sum of the bin widths excludes gaps)" if name == "total_width" else ""), g.where)
    g, e = getter_expr(OWB, "bin_sizes")
    ctx.check(e is not None and U(e) == "self.bin_widths", "C16.c", "ObjectWithBinning.bin_sizes", "1D measure = width", f"bin_sizes = {U(e) if e is not None else None}", g.where)

    def nd_method(name):
        fi = HN.methods.get(name)
        if fi is None:
            raise AnalysisError(f"HistogramND.{name} not found")
        ctx.saw(fi)
        per_axis = mesh = None
        for n in ast.walk(fi.node):
            if isinstance(n, ast.If) and U(n.test) == "axis is not None":
                rets = [x for b in n.body for x in ast.walk(b) if isinstance(x, ast.Return)]
                per_axis = rets[0].value if rets else None
                resolved = any(isinstance(x, ast.Assign) and U(x) == "axis = self._get_axis(axis)" for b in n.body for x in ast.walk(b))
                per_axis = (per_axis, resolved)
        body_txt = U(fi.node)
        return fi, per_axis, body_txt

    def leafn(n):
        return {"self.get_bin_right_edges(axis)": R, "self.get_bin_left_edges(axis)": L}.get(U(n))
    for name, want_txt in (("get_bin_left_edges", "self.bins[axis][:, 0]"), ("get_bin_right_edges", "self.bins[axis][:, 1]")):
        fi, pa, txt = nd_method(name)
        ok = pa and pa[1] and U(pa[0]) == want_txt and f"[self.{name}(i) for i in range(self.ndim)]" in txt and "indexing='ij'" in txt
        ctx.check(bool(ok), "C16.c", f"HistogramND.{name}", f"{want_txt} on the resolved axis; mesh over all axes (ij)",
                  f"{name}: per-axis form `{U(pa[0]) if pa and pa[0] is not None else None}` / mesh form do not match", fi.where)
    for name, want in (("get_bin_widths", W), ("get_bin_centers", (L + R) * half)):
        fi, pa, txt = nd_method(name)
        p = to_poly(pa[0], leafn) if pa and pa[0] is not None else None
        ok = pa and pa[1] and p == want and f"self.{name}(i) for i in range(self.ndim)" in txt and "indexing='ij'" in txt
        ctx.check(bool(ok), "C16.c", f"HistogramND.{name}", f"{want} on the resolved axis; mesh over all axes (ij)",
                  f"{name}: per-axis form normalises to {p}, expected {want} (or the mesh form does not cover range(ndim) with ij indexing)", fi.where)
    g, e = getter_expr(HN, "total_size")
    ctx.check(e is not None and U(e) in ("float(np.sum(self.bin_sizes))", "float(self.bin_sizes.sum())", "self.bin_sizes.sum().item()"), "C16.c",
              "HistogramND.total_size", "sum of the bin sizes (the measure of the covered region in the histogram's own coordinates)",
              f"total_size = `{U(e) if e is not None else None}` is not the sum of bin_sizes (a product of widths is wrong for transformed coordinates)", g.where)
    g, e = getter_expr(HN, "bins")
    ctx.check(e is not None and U(e) == "[binning.bins for binning in self._binnings]", "C16.c", "HistogramND.bins", "per-axis bins in axis order",
              f"bins = {U(e) if e is not None else None}", g.where)

    ctx.rule("C16.d", "cumulative_frequencies = cumsum of the frequencies; total = their sum; errors = sqrt(errors2)", 3)
    g, e = getter_expr(H1, "cumulative_frequencies")
    ctx.check(e is not None and U(e) in ("self._frequencies.cumsum()", "np.cumsum(self._frequencies)", "self.frequencies.cumsum()"), "C16.d",
              "Histogram1D.cumulative_frequencies", "running sum of the frequencies", f"cumulative_frequencies = {U(e) if e is not None else None}", g.where)
    g, e = getter_expr(HB, "total")
    ctx.check(e is not None and U(e) in ("self._frequencies.sum().item()", "self.frequencies.sum().item()", "float(self._frequencies.sum())"), "C16.d",
              "HistogramBase.total", "sum of the frequencies", f"total = {U(e) if e is not None else None}", g.where)
    g, e = getter_expr(HB, "errors")
    ctx.check(e is not None and U(e) in ("np.sqrt(self.errors2)", "np.sqrt(self._errors2)"), "C16.d", "HistogramBase.errors", "sqrt(errors2)",
              f"errors = {U(e) if e is not None else None}", g.where)

    # 1-D per-axis accessors and the ND edge accessor (same algebra as the properties)
    OWB = m.cls("ObjectWithBinning")
    for nm, want in (("get_bin_left_edges", "self.bin_left_edges"), ("get_bin_right_edges", "self.bin_right_edges")):
        f_ = OWB.methods.get(nm)
        rets_ = [U(n.value) for n in ast.walk(f_.node) if isinstance(n, ast.Return)] if f_ else []
        ctx.check(rets_ == [want], "C16.c", f"ObjectWithBinning.{nm}", f"returns {want}", f"{nm} returns {rets_}", f_.where if f_ else OWB.where)
    for nm, want in (("bin_left_edges", "self.bins[..., 0]"), ("bin_right_edges", "self.bins[..., 1]"), ("min_edge", "self.bin_left_edges[0]"),
                     ("max_edge", "self.bin_right_edges[-1]")):
        g_ = OWB.getters.get(nm)
        rets_ = [U(n.value) for n in ast.walk(g_.node) if isinstance(n, ast.Return)] if g_ else []
        ctx.check(rets_ == [want], "C16.c", f"ObjectWithBinning.{nm}", f"= {want}", f"{nm} returns {rets_}", g_.where if g_ else OWB.where)
    gbe = HN.methods.get("get_bin_edges")
    tg_ = U(gbe.node)
    okgbe = "return self.edges[self._get_axis(axis)]" in tg_ and "edges = [self.get_bin_edges(i) for i in range(self.ndim)]" in tg_ \
        and "return np.meshgrid(*edges, indexing='ij')" in tg_
    pol_ = {}
    for p_ in function_paths(gbe.node):
        cs_ = dict((U(s_[1]), s_[2]) for s_ in p_ if s_[0] == "cond")
        if "axis is not None" in cs_ and end_kind(p_) == "return":
            pol_[cs_["axis is not None"]] = "meshgrid" in U(p_[-1][2].value)
    ctx.check(okgbe and pol_ == {True: False, False: True}, "C16.c", "HistogramND.get_bin_edges", "one axis: that axis' edges; no axis: the ij-mesh of all axes' edges",
              f"get_bin_edges wiring changed (mesh returned per `axis is not None` decision: {pol_})", gbe.where)

    # merged bins are unions of adjacent bins only: additivity of the measures under merge_bins (shared with C10.c)
    from rules import c10
    c10.check_merged_edges(ctx, "C16.c", m)

    # ---- C16.e the binning objects the measures are read from belong to one histogram ------------------------------
    # edges, widths, bin_sizes and densities are recomputed from the binning objects on every access; a derived histogram
    # sharing such an object with its parent changes the parent's measures (while its contents stay) as soon as it grows
    ctx.rule("C16.e", "derived histograms (copy, projection, selection) own their binning objects (shared with C12.a)", 6)
    from rules import c12
    for spec in [x for x in c12.OPS if x[2] in ("copy", "projection", "select", "__getitem__") and x[0] != "HistogramCollection"]:
        c12.check_op(ctx, m, "C16.e", "C16.e", *spec)

    # shared with C07.f: a sliced / copied binning carries no cached edge representation of its parent
    from rules import c07 as _c07
    _c07.check_binning_copies(ctx, "C16.c", m)
    # merging bins keeps the covered measure: one map per axis, built for that axis (shared with C10)
    ctx.borrow("C10", ("merge_bins:amount-map", "merge_bins:all-axes", "HistogramBase.merge_bins:axis-resolved"), "C16.c", floor=3)
    ctx.borrow("C04", ("FixedWidthBinning._force_bin_existence_single:cache-coherence",), "C16.c")
