"""Def-use wiring checks shared by C01, C02, C07, C15, C17 (mask sharing, tuple-result roles, swapped arguments)."""
from __future__ import annotations

import ast
from typing import Dict, List, Optional

from sa.model import AnalysisError, FuncInfo, calls_in, kwarg, arg_or_kw
from sa.paths import function_paths, end_kind, consistent
from sa.util import U, Env, TupleItem, call_is, const_value

NUMPY_SIGS = {
    "allclose": ["a", "b", "rtol", "atol", "equal_nan"], "isclose": ["a", "b", "rtol", "atol", "equal_nan"],
    "linspace": ["start", "stop", "num"], "searchsorted": ["a", "v", "side", "sorter"], "arange": ["start", "stop", "step"],
    "percentile": ["a", "q", "axis"], "clip": ["a", "a_min", "a_max"],
}


def swapped_arguments(ctx, rule, functions, model):
    """A positional argument that is a plain local named exactly like a *different* parameter of the callee."""
    n = 0
    for fi in functions:
        for c in calls_in(fi.node):
            sig = None
            f = c.func
            if isinstance(f, ast.Attribute) and isinstance(f.value, ast.Name) and f.value.id in ("np", "numpy") and f.attr in NUMPY_SIGS:
                sig = NUMPY_SIGS[f.attr]
                name = "np." + f.attr
            else:
                r = model.resolve_func_expr(fi.module, f) if isinstance(f, (ast.Name, ast.Attribute)) else None
                if isinstance(r, FuncInfo):
                    a = r.node.args
                    sig = [x.arg for x in a.posonlyargs + a.args]
                    name = r.qualname
            if not sig:
                continue
            n += 1
            for pos, arg in enumerate(c.args):
                if isinstance(arg, ast.Starred):
                    break
                if isinstance(arg, ast.Name) and arg.id in sig and pos < len(sig) and sig[pos] != arg.id:
                    # legitimate only if the name is not also passed in its own slot
                    ctx.bad(rule, f"{fi.qualname}:{name}:arg{pos}",
                            f"`{U(c)[:80]}`: local `{arg.id}` is passed in the position of parameter `{sig[pos]}` of {name} "
                            f"(which also has a parameter `{arg.id}`) - swapped arguments", fi.where)
    return n


def shared_mask(ctx, rule, fi: FuncInfo, extractor: str, mask_index: int, data_index: int, kernels, key: str):
    """In facade `fi`: the mask returned by `extractor(data...)` is the array_mask of extract_weights, and the kernel gets
    the extractor's array and those weights."""
    ctx.saw(fi)
    verdicts = []
    for path in function_paths(fi.node):
        if end_kind(path) == "raise" or not consistent(path):
            continue
        env = Env()
        seen_kernel = False
        for step in path:
            if step[0] == "stmt":
                for c in calls_in(step[1]):
                    if any(call_is(c, k) for k in kernels):
                        seen_kernel = True
                        w = kwarg(c, "weights")
                        if w is None and len(c.args) > 2:
                            w = c.args[2]
                        d = kwarg(c, "data") or (c.args[0] if c.args else None)
                        ok_d = ok_w = False
                        why = []
                        dd = env.resolve(d) if d is not None else None
                        if isinstance(dd, TupleItem) and dd.index == data_index and isinstance(dd.value, ast.Call) and call_is(dd.value, extractor):
                            ok_d = True
                            ext_call = dd.value
                        else:
                            why.append(f"the kernel's data `{U(d) if d is not None else None}` is not the array returned by {extractor}")
                            ext_call = None
                        ww = env.resolve(w) if w is not None else None
                        if isinstance(ww, ast.Call) and call_is(ww, "extract_weights"):
                            mk = kwarg(ww, "array_mask")
                            mm = env.resolve(mk) if mk is not None else None
                            if isinstance(mm, TupleItem) and mm.index == mask_index and isinstance(mm.value, ast.Call) and call_is(mm.value, extractor) \
                                    and (ext_call is None or mm.value is ext_call):
                                ok_w = True
                            else:
                                why.append("extract_weights is not given the mask returned by the same " + extractor + " call")
                        elif w is None:
                            why.append("the kernel is called without weights")
                        else:
                            why.append(f"weights `{U(w)}` do not pass through extract_weights(array_mask=<mask>)")
                        verdicts.append((ok_d and ok_w, "; ".join(why)))
            env.step(step)
    if not verdicts:
        ctx.bad(rule, key, f"no call of {kernels} found in {fi.qualname}", fi.where)
    else:
        bad = sorted({w for ok, w in verdicts if not ok})
        ctx.check(not bad, rule, key, f"{len(verdicts)} path(s): data and weights are filtered by the one mask of {extractor}",
                  " ; ".join(bad), fi.where)


def mask_definition(ctx, rule, fi: FuncInfo, key: str, rowwise: bool):
    """Extractor: under dropna the mask is ~isnan(array)[.any(axis=1)] and the array is array[mask]."""
    ctx.saw(fi)
    ok = False
    why = "no `mask = ~np.isnan(array)...; array = array[mask]` pair on the dropna path"
    for path in function_paths(fi.node):
        if not any(s[0] == "cond" and U(s[1]) == "dropna" and s[2] for s in path):
            continue
        env = Env()
        mask_name = None
        for step in path:
            if step[0] == "stmt" and isinstance(step[1], ast.Assign) and isinstance(step[1].targets[0], ast.Name):
                t, v = step[1].targets[0].id, step[1].value
                tv = U(v)
                if isinstance(v, ast.UnaryOp) and isinstance(v.op, ast.Invert) and "isnan(" in tv:
                    arr = [U(c.args[0]) for c in calls_in(v) if call_is(c, "isnan")][0]
                    rw = ".any(axis=1)" in tv
                    if rw == rowwise:
                        mask_name = (t, arr)
                    else:
                        why = f"mask `{tv}` is {'row-wise' if rw else 'element-wise'}, expected {'row-wise (.any(axis=1))' if rowwise else 'element-wise'}"
                if mask_name and isinstance(v, ast.Subscript) and U(v.slice) == mask_name[0] and U(v.value) == mask_name[1] and t == mask_name[1]:
                    ok = True
            env.step(step)
    ctx.check(ok, rule, key, "mask = ~isnan(array); array = array[mask] (same array, same mask)", why, fi.where)


def tuple_roles(ctx, rule, fi: FuncInfo, kernel: str, role_to_param: Dict[int, List[str]], ctor_pred, key: str, extra_forward=()):
    """Caller `fi` passes component #i of kernel(...)'s result to constructor parameter role_to_param[i]."""
    ctx.saw(fi)
    verdicts = []
    for path in function_paths(fi.node):
        if end_kind(path) != "return" or not consistent(path):
            continue
        env = Env()
        for step in path:
            env.step(step) if step[0] != "stmt" or not isinstance(step[1], ast.Return) else None
        ret = path[-1][2].value
        ctor = ret
        if not (isinstance(ctor, ast.Call) and ctor_pred(ctor)):
            continue
        used_kernel = False
        probs = []
        for idx, params in role_to_param.items():
            found = None
            for k in ctor.keywords:
                if k.arg is None:
                    continue
                d = env.resolve(k.value)
                if isinstance(d, TupleItem) and isinstance(d.value, ast.Call) and call_is(d.value, kernel):
                    used_kernel = True
                    if d.index == idx:
                        found = k.arg
            if found is None:
                # a missed-value result may be replaced by zero where keep_missed is off on this path
                zeroed = False
                for pn in params:
                    kv = kwarg(ctor, pn)
                    dv = env.resolve(kv) if kv is not None else None
                    if isinstance(dv, ast.Constant) and dv.value in (0, 0.0) and any(
                            s[0] == "cond" and "keep_missed" in U(s[1]) for s in path):
                        zeroed = True
                if not zeroed:
                    probs.append((idx, None))
            elif found not in params:
                probs.append((idx, found))
        if not used_kernel:
            continue
        for idx, found in probs:
            if found is None:
                verdicts.append((False, f"kernel result #{idx} ({'/'.join(role_to_param[idx])}) is not passed to the constructor"))
            else:
                verdicts.append((False, f"kernel result #{idx} is passed as `{found}=`, expected {role_to_param[idx]}"))
        if not probs:
            verdicts.append((True, ""))
        for name in extra_forward:
            kv = kwarg(ctor, name)
            if kv is None or U(kv) != name:
                if not any(k.arg is None for k in ctor.keywords):
                    verdicts.append((False, f"`{name}` is not forwarded to the constructor"))
                else:
                    verdicts.append((False, f"`{name}` is not forwarded by name to the constructor"))
    if not verdicts:
        ctx.bad(rule, key, f"{fi.qualname}: no constructing path that uses {kernel} found", fi.where)
        return
    bad = sorted({w for ok, w in verdicts if not ok})
    ctx.check(not bad, rule, key, "each kernel result reaches the constructor parameter of the same role", " ; ".join(bad), fi.where)


def mask_polarity(e):
    """(polarity KEEP/NA/?, axis 'elem'/'rows'/'cols'/?) of a mask expression."""
    if isinstance(e, ast.UnaryOp) and isinstance(e.op, ast.Invert):
        p, a = mask_polarity(e.operand)
        return ({"KEEP": "NA", "NA": "KEEP"}.get(p, "?"), a)
    if isinstance(e, ast.Attribute) and e.attr == "values":
        return mask_polarity(e.value)
    if isinstance(e, ast.Call) and isinstance(e.func, ast.Attribute):
        name = e.func.attr
        if name in ("notna", "notnull", "is_not_null"):
            return ("KEEP", "elem")
        if name in ("isna", "isnull", "is_null", "is_nan"):
            return ("NA", "elem")
        if name in ("any", "all"):
            p, a = mask_polarity(e.func.value)
            ax = kwarg(e, "axis") or (e.args[0] if e.args else None)
            axv = _cv(ax) if ax is not None else None
            # any over NA flags -> row is NA ; all over KEEP flags -> row is KEEP ; mixing changes the meaning
            if (name == "any" and p != "NA") or (name == "all" and p != "KEEP"):
                p = "?"
            return (p, "rows" if axv == 1 else "cols")
        if name in ("to_numpy", "astype"):
            return mask_polarity(e.func.value)
        if call_is(e, "isnan"):
            return ("NA", "elem")
    if isinstance(e, ast.Call) and call_is(e, "isnan"):
        return ("NA", "elem")
    return ("?", "?")




def _cv(node):
    from sa.util import const_value
    return const_value(node)


def axis_resolved(ctx, rule, fi, param="axis"):
    """Every use of the axis parameter as an index / comparison operand / argument is dominated by
    `axis = self._get_axis(axis)` (names must be resolved to positions; a bare `self._get_axis(axis)` only validates)."""
    ctx.saw(fi)
    bad = []
    uses = 0
    for path in function_paths(fi.node):
        resolved = False
        for step in path:
            nodes = [step[1]] if step[0] in ("stmt", "cond") else ([step[1].iter] if step[0] == "for" and isinstance(step[1], ast.For) else [])
            for nd in nodes:
                if isinstance(nd, ast.Assign) and len(nd.targets) == 1 and isinstance(nd.value, ast.Call) and U(nd.value.func) == "self._get_axis" \
                        and nd.value.args and U(nd.value.args[0]) == param:
                    if U(nd.targets[0]) == param:
                        resolved = True
                    continue
                for n in ast.walk(nd):
                    use = None
                    if isinstance(n, ast.Subscript) and any(isinstance(x, ast.Name) and x.id == param for x in ast.walk(n.slice)):
                        use = U(n)
                    elif isinstance(n, ast.Compare) and any(isinstance(x, ast.Name) and x.id == param for x in [n.left] + n.comparators) \
                            and not any(isinstance(c, ast.Constant) and c.value is None for c in n.comparators):
                        use = U(n)
                    elif isinstance(n, ast.Call) and U(n.func) != "self._get_axis" and any(isinstance(a, ast.Name) and a.id == param for a in n.args) \
                            and U(n.func).startswith("self.") and U(n.func) not in ("self.merge_bins",):
                        # passing the raw value on to a method that resolves it itself is fine
                        continue
                    if use is not None:
                        uses += 1
                        if not resolved:
                            bad.append(f"`{use[:60]}` uses the raw `{param}` argument (an axis *name* would be compared / indexed as given)")
    key = f"{fi.qualname}:axis-resolved"
    if uses == 0 and not bad:
        ctx.ok(rule, key, f"`{param}` is only passed on", fi.where)
    else:
        ctx.check(not bad, rule, key, f"{uses} use(s) of `{param}`, each after `{param} = self._get_axis({param})`", " ; ".join(sorted(set(bad))[:2]), fi.where)


def flatten_order(ctx, rule, m, key):
    """Every flatten / ravel / reshape of the generic extractors and of the 1-D kernel is in logical (C) order.

    Values and weights are flattened by different functions; pairing them by position is only right when both use the
    same, memory-layout independent, order."""
    con = m.module("_construction")
    bad_order = []
    n_flat = 0
    for fi in [con.functions[x] for x in ("extract_1d_array", "extract_weights", "extract_nd_array", "extract_and_concat_arrays")] + \
            [m.func("_construction", "calculate_1d_frequencies")]:
        ctx.saw(fi)
        for c in calls_in(fi.node):
            if isinstance(c.func, ast.Attribute) and c.func.attr in ("flatten", "ravel", "reshape"):
                n_flat += 1
                o = kwarg(c, "order") or (c.args[0] if c.func.attr in ("flatten", "ravel") and c.args else None)
                if o is not None and const_value(o) != "C":
                    bad_order.append(f"{fi.qualname}: `{U(c)}`")
    ctx.check(not bad_order and n_flat >= 3, rule, key, f"{n_flat} flatten / ravel calls, all in logical (C) order",
              "multi-dimensional inputs are flattened in memory order: " + "; ".join(bad_order) + " - values and weights of transposed / "
              "Fortran-ordered arrays are then paired differently than for the equivalent array", con.relpath)


EXTRACTORS = {"extract_1d_array": 1, "extract_nd_array": 2, "extract_and_concat_arrays": 1}   # name -> index of the mask result
WEIGHT_CONSUMERS = ("h", "h1", "h2", "h3", "calculate_1d_frequencies", "calculate_nd_frequencies", "from_calculate_frequencies",
                    "polar", "radial", "azimuthal", "cylindrical", "cylindrical_surface", "spherical", "spherical_surface")


DROP_WITHOUT_MASK_OK = {"PhystSeriesAccessor.cut": "only bin edges are computed from the filtered values; pd.cut bins the series itself"}


def discarded_mask(ctx, rule, m, only=None, floor=1):
    """A call that throws the extractor's NaN mask away must not drop anything (dropna=False) when the same function hands
    weights on (explicitly or through **kwargs): whoever drops entries later can then still drop their weights."""
    n = 0
    for fi in m.all_funcs():
        if only is not None and fi.qualname not in only:
            continue
        parents = {}
        for node in ast.walk(fi.node):
            for ch in ast.iter_child_nodes(node):
                parents[ch] = node
        for c in calls_in(fi.node):
            if not (isinstance(c.func, ast.Name) and c.func.id in EXTRACTORS):
                continue
            par = parents.get(c)
            mask_idx = EXTRACTORS[c.func.id]
            discarded = False
            if isinstance(par, ast.Subscript) and par.value is c:
                discarded = True
            if isinstance(par, ast.Call) and isinstance(parents.get(par), ast.Subscript) and U(par.func) == "cast":
                discarded = True
            if isinstance(par, ast.Assign) and par.value is c and isinstance(par.targets[0], ast.Tuple):
                elts = par.targets[0].elts
                if mask_idx < len(elts) and isinstance(elts[mask_idx], ast.Name) and elts[mask_idx].id == "_":
                    discarded = True
            if not discarded:
                continue
            n += 1
            dn = kwarg(c, "dropna")
            drops = dn is None or not (isinstance(dn, ast.Constant) and dn.value is False)
            hands_on = []
            for c2 in calls_in(fi.node):
                fn = U(c2.func).split(".")[-1]
                if fn in WEIGHT_CONSUMERS and (any(k.arg is None for k in c2.keywords) or kwarg(c2, "weights") is not None):
                    hands_on.append(U(c2.func))
            key = f"{fi.qualname}:{c.func.id}:mask-discarded"
            allowed = fi.qualname in DROP_WITHOUT_MASK_OK
            ctx.check(not (drops and (hands_on or not allowed)), rule, key,
                      "nothing is dropped here (dropna=False)" if not drops else "the function hands no weights on",
                      f"`{U(c)[:80]}` may drop NaN entries but its mask is thrown away while the function passes weights on to "
                      f"{sorted(set(hands_on))}: the weights can no longer be filtered with the values", fi.where)
    if n < floor:
        ctx.bad(rule, "mask-discarded:sites", f"expected at least {floor} extractor call(s) with a discarded mask, found {n} (anchor moved?)", "")


def lossy_preallocation(ctx, rule, funcs, key):
    """Coordinate columns are combined by promoting constructors (concatenate / stack); storing one input into an array
    pre-allocated with ANOTHER input's element type (`np.empty(..., dtype=x.dtype)`, `np.empty_like(x)`) silently casts it
    (float angles into an integer radius array)."""
    bad = []
    n = 0
    for fi in funcs:
        ctx.saw(fi)
        allocs = {}
        for st in ast.walk(fi.node):
            if isinstance(st, (ast.Assign, ast.AnnAssign)) and st.value is not None and isinstance(st.value, ast.Call):
                tgt = st.targets[0] if isinstance(st, ast.Assign) else st.target
                c = st.value
                if not isinstance(tgt, ast.Name):
                    continue
                fn = U(c.func).split(".")[-1]
                src = None
                if fn in ("empty", "zeros", "ones", "full"):
                    d = kwarg(c, "dtype")
                    if d is not None and isinstance(d, ast.Attribute) and d.attr == "dtype":
                        src = d.value
                elif fn in ("empty_like", "zeros_like", "ones_like", "full_like") and c.args and kwarg(c, "dtype") is None:
                    src = c.args[0]
                if src is not None:
                    root = src
                    while isinstance(root, (ast.Attribute, ast.Subscript)):
                        root = root.value
                    if isinstance(root, ast.Name):
                        allocs[tgt.id] = (root.id, U(st)[:70])
        n += 1
        for st in ast.walk(fi.node):
            if isinstance(st, ast.Assign) and isinstance(st.targets[0], ast.Subscript):
                base = st.targets[0].value
                while isinstance(base, ast.Subscript):
                    base = base.value
                if isinstance(base, ast.Name) and base.id in allocs:
                    root, how = allocs[base.id]
                    others = {x.id for x in ast.walk(st.value) if isinstance(x, ast.Name)} - {root, base.id, "np", "numpy", "math"}
                    params = set(fi.params())
                    others = {o for o in others if o in params or o in {a for a in allocs}} | \
                        {o for o in others if any(isinstance(d, (ast.Assign, ast.AnnAssign)) and U(getattr(d, "target", None) or d.targets[0]) == o
                                                  for d in ast.walk(fi.node) if isinstance(d, (ast.Assign, ast.AnnAssign)))}
                    if others:
                        bad.append(f"{fi.qualname}: `{U(st)[:60]}` after `{how}` casts {sorted(others)} to the element type of `{root}`")
    ctx.check(not bad and n >= 1, rule, key, f"{n} function(s): no input is stored into an array typed after another input",
              "; ".join(bad[:2]), funcs[0].where if funcs else "")


# parameters that are unused on purpose (reason each); everything else that a function accepts by name must be read
UNUSED_OK = {
    ("binnings.numpy_binning", "kwargs"): "registered factories share one calling convention; extra options are ignored",
    ("binnings.quantile_binning", "kwargs"): "same",
    ("binnings.static_binning", "data"): "explicit bins do not depend on the data",
    ("BinningBase.as_static", "copy"): "base implementation always converts (documented pylint waiver)",
    ("BinningBase.as_fixed_width", "copy"): "same",
    ("StaticBinning.__init__", "kwargs"): "swallows options meant for other binnings",
    ("FixedWidthBinning.__init__", "kwargs"): "same",
    ("FixedWidthBinning.is_regular", "kwargs"): "tolerances are meaningless for an exact grid",
    ("ExponentialBinning.__init__", "kwargs"): "same as the other binnings",
    ("ExponentialBinning.is_regular", "kwargs"): "never regular",
    ("HistogramBase._update_dict", "a_dict"): "hook for subclasses, empty in the base",
    ("plotting.matplotlib.pair_bars", "orientation"): "not implemented upstream",
    ("plotting.matplotlib.pair_bars", "kind"): "not implemented upstream",
}


def params_used(ctx, rule, funcs, key):
    """No option is silently dropped: every named parameter (and *args / **kwargs) of these functions is read somewhere in
    the body.  Stubs (overloads, abstract methods, bodies that only raise) are skipped."""
    bad = []
    n = 0
    for fi in funcs:
        body = [b for b in fi.node.body if not (isinstance(b, ast.Expr) and isinstance(b.value, ast.Constant))]
        if not body or all(isinstance(b, (ast.Raise, ast.Pass)) or (isinstance(b, ast.Expr) and isinstance(b.value, ast.Constant)) for b in body):
            continue
        if any(U(d).split(".")[-1] in ("abstractmethod", "overload") for d in fi.node.decorator_list):
            continue
        n += 1
        a = fi.node.args
        params = [x.arg for x in a.posonlyargs + a.args + a.kwonlyargs]
        if a.vararg:
            params.append(a.vararg.arg)
        if a.kwarg:
            params.append(a.kwarg.arg)
        used = {x.id for x in ast.walk(fi.node) if isinstance(x, ast.Name) and isinstance(x.ctx, ast.Load)}
        for p in params:
            if p in ("self", "cls", "_") or p in used or (fi.qualname, p) in UNUSED_OK:
                continue
            bad.append(f"{fi.qualname}({p})")
    ctx.check(not bad and n >= 1, rule, key, f"{n} functions: every accepted option is read",
              f"parameters accepted but never read: {bad[:4]} - the caller's option is silently ignored", funcs[0].where if funcs else "")


def wrapper_forwards(ctx, rule, fi, consumed=(), key=None):
    """A method that wraps `super().<same name>(...)` hands every one of its own parameters on (by name or position),
    except the ones it consumes itself."""
    calls = [c for c in calls_in(fi.node) if isinstance(c.func, ast.Attribute) and c.func.attr == fi.name
             and isinstance(c.func.value, ast.Call) and U(c.func.value.func) == "super"]
    a = fi.node.args
    params = [x.arg for x in a.posonlyargs + a.args + a.kwonlyargs if x.arg not in ("self", "cls") and x.arg not in consumed]
    probs = []
    if not calls:
        probs.append("no super() call of the same method")
    for c in calls:
        passed = {U(x) for x in c.args} | {U(k.value) for k in c.keywords if k.arg}
        stars = [U(k.value) for k in c.keywords if k.arg is None]
        for p in params:
            if p not in passed and not any(isinstance(x, ast.Name) and x.id == p for arg in list(c.args) + [k.value for k in c.keywords] for x in ast.walk(arg)):
                probs.append(f"`{p}` is not handed to super().{fi.name}")
        if a.kwarg and a.kwarg.arg not in stars:
            probs.append(f"**{a.kwarg.arg} is not handed on")
    ctx.check(not probs, rule, key or f"{fi.qualname}:forwards-all", f"{len(params)} parameter(s) forwarded to super().{fi.name}",
              "; ".join(sorted(set(probs))[:3]), fi.where)


def funcs_of(m, *module_shorts, only=None):
    """All functions and methods defined in the given modules (short names such as `_facade`, `compat.pandas`)."""
    out = []
    for fi in m.all_funcs():
        short = fi.module.short if hasattr(fi.module, "short") else str(fi.module)
        if short in module_shorts and (only is None or fi.name in only or fi.qualname in only):
            out.append(fi)
    return out


def nan_gate(ctx, rule, fi, callee, key):
    """The bin calculation is told to refuse NaN exactly when the caller did not ask for them to be dropped (and there are
    data at all): the `check_nan` argument, as a boolean function of `dropna` and `<data> is not None`, is (not dropna) and present."""
    calls = [c for c in calls_in(fi.node) if call_is(c, callee)]
    if not calls or kwarg(calls[0], "check_nan") is None:
        ctx.bad(rule, key, f"{callee} is not called with check_nan", fi.where)
        return
    e = kwarg(calls[0], "check_nan")
    if isinstance(e, ast.Name):
        defs = [n.value for n in ast.walk(fi.node) if isinstance(n, ast.Assign) and U(n.targets[0]) == e.id]
        e = defs[-1] if defs else e

    def ev(x, dropna, present):
        if isinstance(x, ast.BoolOp):
            vals = [ev(v, dropna, present) for v in x.values]
            if any(v is None for v in vals):
                return None
            return all(vals) if isinstance(x.op, ast.And) else any(vals)
        if isinstance(x, ast.UnaryOp) and isinstance(x.op, ast.Not):
            v = ev(x.operand, dropna, present)
            return None if v is None else not v
        if isinstance(x, ast.Name) and x.id == "dropna":
            return dropna
        if isinstance(x, ast.Compare) and len(x.ops) == 1 and isinstance(x.comparators[0], ast.Constant) and x.comparators[0].value is None \
                and isinstance(x.left, ast.Name):
            if isinstance(x.ops[0], ast.IsNot):
                return present
            if isinstance(x.ops[0], ast.Is):
                return not present
        return None
    table = {(d, p): ev(e, d, p) for d in (True, False) for p in (True, False)}
    want = {(d, p): (not d) and p for d in (True, False) for p in (True, False)}
    ctx.check(table == want, rule, key, f"check_nan = `{U(e)}` == (not dropna) and data present, for all four cases",
              f"check_nan = `{U(e)}` has the truth table {table} over (dropna, data present); NaN must be refused exactly when dropna is off "
              "and there are data", fi.where)


# (caller, callee, parameter) that is deliberately not handed on although both sides have a parameter of that name
NOT_FORWARDED_OK = {
    ("binnings.quantile_binning", "binnings.static_binning", "data"): "explicit bins do not depend on the data",
    ("FixedWidthBinning._force_bin_existence", "FixedWidthBinning._force_bin_existence_single", "includes_right_edge"):
        "the lower end of a batch never lies on the right edge",
    ("compat.geant4._create_h1", "binnings.fixed_width_binning", "data"): "`data` is the CSV table, the bins come from its header values",
    ("compat.geant4._create_h2", "binnings.fixed_width_binning", "data"): "same",
}


def _callee(m, fi, c):
    from sa.model import FuncInfo, ClassInfo
    f = c.func
    r = None
    if isinstance(f, ast.Attribute) and isinstance(f.value, ast.Name) and f.value.id in ("self", "cls") and fi.cls is not None:
        rr = m.resolve_method(fi.cls, f.attr)
        r = rr[1] if rr else None
    elif isinstance(f, ast.Attribute) and isinstance(f.value, ast.Call) and U(f.value.func) == "super" and fi.cls is not None:
        rr = m.resolve_method(fi.cls, f.attr, after=fi.cls)
        r = rr[1] if rr else None
    elif isinstance(f, ast.Name) and f.id == "cls" and fi.cls is not None:
        rr = m.resolve_method(fi.cls, "__init__")
        r = rr[1] if rr else None
    else:
        r = m.resolve_func_expr(fi.module, f)
        if isinstance(r, ClassInfo):
            rr = m.resolve_method(r, "__init__")
            r = rr[1] if rr else None
        if r is None and isinstance(f, ast.Attribute) and isinstance(f.value, ast.Name) and f.value.id in m.classes:
            rr = m.resolve_method(m.classes[f.value.id], f.attr)
            r = rr[1] if rr else None
    return r if isinstance(r, FuncInfo) else None


def same_name_forwarding(ctx, rule, m, funcs, key):
    """When a function calls another function of the package that has a parameter of the same name as one of its own, it
    hands its own value (or an explicit value) on: an option the caller set is not silently replaced by the callee's default."""
    bad = []
    n = 0
    for fi in funcs:
        a = fi.node.args
        mine = {x.arg for x in a.posonlyargs + a.args + a.kwonlyargs} - {"self", "cls"}
        for c in calls_in(fi.node):
            cal = _callee(m, fi, c)
            if cal is None or cal is fi:
                continue
            n += 1
            ca = cal.node.args
            theirs = [x.arg for x in ca.posonlyargs + ca.args + ca.kwonlyargs if x.arg not in ("self", "cls")]
            passed = {k.arg for k in c.keywords if k.arg}
            pos = [x.arg for x in ca.posonlyargs + ca.args if x.arg not in ("self", "cls")][:len(c.args)]
            for p in theirs:
                if p in mine and p not in passed and p not in pos and (fi.qualname, cal.qualname, p) not in NOT_FORWARDED_OK:
                    bad.append(f"{fi.qualname}: `{U(c)[:60]}` does not pass `{p}` (callee default used instead of the caller's value)")
    ctx.check(not bad and n >= 1, rule, key, f"{n} resolved package-internal calls: every same-named option is handed on",
              "; ".join(bad[:3]), funcs[0].where if funcs else "")
