"""C07 - every binning schema is well-formed, covers its data and obeys its rule."""
from __future__ import annotations

import ast

from sa.model import AnalysisError, calls_in, kwarg, FuncInfo
from sa.paths import function_paths, end_kind, consistent, must_raise
from sa.symbolic import Poly, to_poly
from sa.util import U, Env, call_is, const_value, writes_of
from rules import wiring

EXPLANATION = (
    "C07: floating-point conformance is not decided, but the closed formulas are compared with a table in exact arithmetic: "
    "the bin-count rules (sqrt, sturges, rice, doane), the pretty-width candidates / decade / nearest choice, numpy_binning's "
    "linspace over the extent (and its narrow-range fallback keeps the first edge), quantile edges = np.percentile of evenly "
    "spaced quantiles, exponential parameters and the geometric edge formula. Also decided: every binning class's __init__ reaches BinningBase.__init__ on all paths, explicit edges "
    "go through the validated `bins=` / `numpy_bins=` parameters whose branches refuse non-rising input (is_rising "
    "compares left >= right and next-left < previous-right), edge generators refuse non-positive widths / negative "
    "counts, make_bin_array refuses wrong shapes; every *_binning factory is registered under its name, "
    "bincount_methods equals the method branches of ideal_bin_count (unknown raises), calculate_1d_bins assigns or "
    "raises on every path; the consistency API depends on all rows of the (n,2) bins array through its columns (a "
    "bare row access used arithmetically is a violation) and tolerance arguments go to their own slots; first_edge, "
    "last_edge and numpy_bins of FixedWidthBinning are one formula (times_min + k) * width + shift at k = 0, "
    "bin_count, 0..bin_count; copy() forwards every state-determining constructor parameter; cached edge arrays are "
    "never modified in place."
)
NOT_DECIDED = ("floating-point conformance of the generated edges (rounding of linspace / percentile / 10**x), coverage of the "
               "data under rounding (see C04), tolerance choices of is_regular / is_consecutive, the astropy-based factories.")
TRUSTED = ["np.linspace / np.percentile / np.allclose"]

EXPECTED_KEYS = {"numpy_binning": "numpy", "pretty_binning": "pretty", "quantile_binning": "quantile", "static_binning": "static",
                 "integer_binning": "integer", "fixed_width_binning": "fixed_width", "exponential_binning": "exponential",
                 "bayesian_blocks_binning": "blocks", "knuth_binning": "knuth", "scott_binning": "scott", "freedman_binning": "freedman"}


def check_binning_copies(ctx, rule, m):
    BB = m.cls("BinningBase")
    for c in m.subclasses(BB):
        cp = c.methods.get("copy")
        if cp is None:
            continue
        foreign = [U(w.stmt)[:70] for st in ast.walk(cp.node) if isinstance(st, ast.stmt) for w in writes_of(st) if w.root != "self" or True]
        ctx.check(not foreign, rule, f"{c.name}.copy:constructor-only", "state passes through the constructor; nothing is patched onto the copy",
                  f"{c.name}.copy stores {foreign} - cached representations copied this way go stale when the copy's bins are replaced (slicing)", cp.where)
    for c in [BB] + m.subclasses(BB):
        gi = c.methods.get("__getitem__")
        if gi is None:
            continue
        ws = [w for st in ast.walk(gi.node) if isinstance(st, ast.stmt) for w in writes_of(st) if w.root != "self"]
        okg = all(w.attr == "_bins" for w in ws)
        fresh = any(isinstance(n, ast.Assign) and U(n.value) in ("self.copy()", "self.as_static()") for n in ast.walk(gi.node)) or not ws
        ctx.check(okg and fresh, rule, f"{c.name}.__getitem__:fresh-copy", "only `_bins` of a freshly constructed copy is replaced",
                  f"{c.name}.__getitem__ patches {[U(w.stmt)[:50] for w in ws]} on an object that is not a fresh copy", gi.where)

        # every slice path indexes the (n, 2) pair array with the caller's own index object - the same numpy semantics
        # (negative / open bounds) the histogram applies to its contents - and nothing re-derives start / stop by hand
        if c is BB:
            ix = [q for q in gi.params() if q != "self"][0]
            bad_paths, n_slice = [], 0
            for path in function_paths(gi.node):
                if end_kind(path) != "return":
                    continue
                cs = [(U(s_[1]), s_[2]) for s_ in path if s_[0] == "cond"]
                ret = path[-1][2].value
                if (f"isinstance({ix}, slice)", True) in cs:
                    n_slice += 1
                    assigned = [U(s_[1].value) for s_ in path if s_[0] == "stmt" and isinstance(s_[1], ast.Assign)
                                and U(s_[1].targets[0]) == f"{U(ret)}._bins"]
                    if not (isinstance(ret, ast.Name) and assigned and assigned[-1] in (f"{U(ret)}.bins[{ix}]", f"self.bins[{ix}]")):
                        bad_paths.append(f"returns `{U(ret)[:60]}` under {[c_ for c_, v_ in cs[1:]]}")
                elif (f"isinstance({ix}, slice)", False) in cs:
                    if U(ret) != f"self.bins[{ix}]":
                        bad_paths.append(f"integer index returns `{U(ret)[:60]}`")
            ctx.check(n_slice >= 1 and not bad_paths, rule, "BinningBase.__getitem__:index-applied-to-pairs",
                      f"{n_slice} slice path(s): `_bins = <copy>.bins[{ix}]`; integer: self.bins[{ix}]",
                      "; ".join(bad_paths) + " - a sliced binning must select exactly the bins numpy selects for the contents", gi.where)


def check_pretty_factory(ctx, rule, m):
    """pretty_binning: width from the requested range (else the data extent) / bin_count; delegates coverage to
    fixed_width_binning with the caller's data and range; integer_binning: half-integer grid."""
    import ast as _ast
    from sa.paths import function_paths as _fp, end_kind as _ek
    from sa.util import U as _U
    from sa.model import calls_in as _calls, kwarg as _kw
    pb = m.func("binnings", "pretty_binning")
    ctx.saw(pb)
    src = {}
    for path in _fp(pb.node):
        if _ek(path) != "return":
            continue
        cs = dict((_U(s[1]), s[2]) for s in path if s[0] == "cond")
        if "range is None" not in cs:
            continue
        for s in path:
            if s[0] == "stmt" and isinstance(s[1], _ast.Assign):
                t = _U(s[1].targets[0])
                if t in ("min_", "max_", "(min_, max_)", "min_, max_"):
                    src.setdefault(cs["range is None"], {})[t] = _U(s[1].value)
    ok_src = src.get(True, {}).get("min_") == "data.min().item()" and src.get(True, {}).get("max_") == "data.max().item()" \
        and "range" in (src.get(False, {}).get("min_, max_"), src.get(False, {}).get("(min_, max_)"))
    ctx.check(ok_src, rule, "pretty_binning:extent", "extent = the explicit range when given, else the data's min / max",
              f"pretty_binning takes its extent from {src}: an explicit range must win over the data extent (and only then)", pb.where)
    t = _U(pb.node)
    ctx.check("raw_width = (max_ - min_) / bin_count" in t and "bin_width = find_pretty_width(raw_width, kind=kind)" in t, rule, "pretty_binning:width",
              "raw width = extent / bin_count, rounded to a pretty width", "pretty_binning no longer derives the width from extent / bin_count", pb.where)
    rets = [n.value for n in _ast.walk(pb.node) if isinstance(n, _ast.Return) and isinstance(n.value, _ast.Call)]
    okr = len(rets) == 1 and _U(rets[0].func) == "fixed_width_binning" and _U(_kw(rets[0], "data")) == "data" and _U(_kw(rets[0], "range")) == "range" \
        and _U(_kw(rets[0], "bin_width")) == "bin_width" and any(k.arg is None for k in rets[0].keywords)
    ctx.check(okr, rule, "pretty_binning:delegates", "fixed_width_binning(bin_width=bin_width, data=data, range=range, **kwargs) - the caller's data and range",
              "pretty_binning does not hand the caller's own `data` and `range` to fixed_width_binning (a substituted range takes the "
              "range branch, which closes the right edge and skips the extra bin for a maximum lying on an edge)", pb.where)
    ib = m.func("binnings", "integer_binning")
    ctx.saw(ib)
    ti = _U(ib.node)
    oki = "tuple((r - 0.5 for r in kwargs['range']))" in ti and "bin_shift=0.5" in ti and "align=True" in ti and "bin_width=kwargs.pop('bin_width', 1)" in ti
    ctx.check(oki, rule, "integer_binning:grid", "bins centred on integers: range shifted by -0.5, shift 0.5, width 1 by default",
              "integer_binning no longer builds the half-integer grid", ib.where)


def check_pretty_width(ctx, rule, m):
    """find_pretty_width_decimal: candidates {1, 2, 2.5, 5} * 10^k over one decade and its two neighbours, k = floor(log10(raw)),
    the candidate nearest to raw (in ratio or difference) is returned; find_pretty_width dispatches to it by default."""
    bu = m.module("_bin_utils")
    fd = bu.functions["find_pretty_width_decimal"]
    ctx.saw(fd)
    raw = fd.params()[0]
    defs = {U(n.targets[0]): n.value for n in ast.walk(fd.node) if isinstance(n, ast.Assign)}
    sub = defs.get("subscales")
    vals = None
    if isinstance(sub, ast.Call) and sub.args and isinstance(sub.args[0], (ast.List, ast.Tuple)):
        vals = [const_value(e) for e in sub.args[0].elts]
    ctx.check(vals is not None and sorted(vals) == [0.5, 1, 2, 2.5, 5, 10], rule, "find_pretty_width_decimal:candidates",
              "mantissas {1, 2, 2.5, 5} plus the neighbouring decades' 0.5 and 10", f"candidate mantissas are {vals}", fd.where)
    pw = defs.get("power")
    tp = U(pw).replace(".astype(int)", "") if pw is not None else ""
    ctx.check(tp in (f"np.floor(np.log10({raw}))", f"int(np.floor(np.log10({raw})))", f"math.floor(math.log10({raw}))"), rule,
              "find_pretty_width_decimal:decade", "decade = floor(log10(raw width))", f"power = `{U(pw) if pw is not None else None}`", fd.where)
    bi = defs.get("best_index")
    okb = False
    if isinstance(bi, ast.Call) and call_is(bi, "argmin") and bi.args:
        inner = bi.args[0]
        if isinstance(inner, ast.Call) and call_is(inner, "abs", "absolute") and inner.args:
            d = inner.args[0]
            cand = "subscales * 10.0 ** power"
            t = U(d)
            okb = t in (f"np.log({cand} / {raw})", f"np.log({raw} / ({cand}))", f"{cand} - {raw}", f"{raw} - {cand}",
                        f"np.log10({cand} / {raw})", f"np.log({cand}) - np.log({raw})")
    ctx.check(okb, rule, "find_pretty_width_decimal:nearest", "index of the candidate nearest to the raw width (argmin of |log ratio|)",
              f"best_index = `{U(bi) if bi is not None else None}`", fd.where)
    rets = [U(n.value) for n in ast.walk(fd.node) if isinstance(n, ast.Return)]
    ctx.check(rets in (["10.0 ** power * subscales[best_index]"], ["subscales[best_index] * 10.0 ** power"]), rule,
              "find_pretty_width_decimal:returns", "the chosen candidate itself", f"returns {rets}", fd.where)
    fp = bu.functions["find_pretty_width"]
    ctx.saw(fp)
    first = None
    for path in function_paths(fp.node):
        cs = [(U(s_[1]), s_[2]) for s_ in path if s_[0] == "cond"]
        if cs and cs[0] == ("not kind", True) or cs and cs[0] == ("kind", False):
            first = U(path[-1][2].value) if end_kind(path) == "return" else None
    ctx.check(first == f"find_pretty_width_decimal({fp.params()[0]})", rule, "find_pretty_width:default",
              "without a kind the decimal rule is applied to the raw width itself", f"default branch returns `{first}`", fp.where)


def check_numpy_binning_coverage(ctx, rule, m):
    """numpy_binning: the edges returned start at range[0] / data.min() and end at range[1] / data.max() (np.linspace), and a
    later re-binding of the edges (the narrow-range fallback) keeps the first edge."""
    nb = m.func("binnings", "numpy_binning")
    ctx.saw(nb)
    n = 0
    probs = []
    for path in function_paths(nb.node):
        if end_kind(path) != "return" or not consistent(path):
            continue
        n += 1
        env = Env()
        first = last = None
        for s_ in path:
            if s_[0] == "stmt" and isinstance(s_[1], ast.Assign) and U(s_[1].targets[0]) == "edges":
                v = s_[1].value
                if isinstance(v, ast.Call) and call_is(v, "linspace") and len(v.args) >= 2:
                    first, last = U(env.expand(v.args[0])), U(env.expand(v.args[1]))
                else:
                    # re-binding: [<old first>] + [...]  keeps the first edge; a sequence generated from scratch does not
                    inner = v.args[0] if isinstance(v, ast.Call) and call_is(v, "array", "asarray") and v.args else v
                    lead = None
                    if isinstance(inner, ast.BinOp) and isinstance(inner.op, ast.Add) and isinstance(inner.left, ast.List) and inner.left.elts:
                        l0 = inner.left.elts[0]
                        d0 = env.resolve(l0) if isinstance(l0, ast.Name) else l0
                        lead = U(d0) if isinstance(d0, ast.AST) else U(l0)
                    if lead in ("edges[0]", first):
                        last = None if last is None else f">= {last} (successive floats)"
                    elif isinstance(inner, (ast.ListComp, ast.GeneratorExp)) or lead is not None:
                        probs.append(f"`{U(s_[1])[:80]}` replaces the edges by a sequence that does not start at the old first edge "
                                     f"({first}): the minimum falls below the first bin")
                        first = None
                    else:
                        first = last = None   # not decided
            env.step(s_)
        ret = path[-1][2].value
        if not (isinstance(ret, ast.Call) and U(ret.func) == "NumpyBinning" and ret.args and U(ret.args[0]) == "edges"):
            probs.append(f"returns `{U(ret)[:60]}`")
        rng = any(U(s_[1]) == "range" and s_[2] for s_ in path if s_[0] == "cond")
        want = ("range[0]", "range[1]") if rng else ("data.min()", "data.max()")
        if first is not None and first != want[0]:
            probs.append(f"first edge is {first}, expected {want[0]}")
        if last is not None and not last.startswith(">=") and last != want[1]:
            probs.append(f"last edge is {last}, expected {want[1]}")
    ctx.check(n >= 2 and not probs, rule, "numpy_binning:covers-extent", f"{n} returning paths: edges run from the minimum / range start to the "
              "maximum / range end", "; ".join(sorted(set(probs))[:2]), nb.where)


def check_rule_factories(ctx, rule, m):
    """quantile_binning: edges = np.percentile(data, 100 * (qrange[0] .. qrange[1] in bin_count steps | q));
    exponential_binning / ExponentialBinning: edges = 10 ** (log10(lo) + k * (log10(hi) - log10(lo)) / bin_count)."""
    from sa.symbolic import RatCtx, to_rat, rat_eq
    qb = m.func("binnings", "quantile_binning")
    ctx.saw(qb)
    defs = {}
    for n in ast.walk(qb.node):
        if isinstance(n, ast.Assign):
            defs.setdefault(U(n.targets[0]), []).append(n.value)
    pc = [U(v) for v in defs.get("percentiles", [])]
    okp = sorted(pc) == sorted(["np.linspace(qrange[0] * 100, qrange[1] * 100, bin_count + 1)", "np.asarray(q) * 100.0"])
    okb = [U(v) for v in defs.get("bins", [])] == ["np.percentile(data, percentiles)"]
    okd = any(U(v) == "(0.0, 1.0)" for v in defs.get("qrange", []))
    rets = [n.value for n in ast.walk(qb.node) if isinstance(n, ast.Return)]
    okr = len(rets) == 1 and isinstance(rets[0], ast.Call) and U(rets[0].func) == "static_binning" and \
        U(kwarg(rets[0], "bins")) in ("make_bin_array(bins)", "bins") and U(kwarg(rets[0], "includes_right_edge")) == "True"
    ctx.check(okp and okb and okd and okr, rule, "quantile_binning:edges",
              "edges = np.percentile(data, percentiles) for bin_count + 1 evenly spaced quantiles of qrange (default 0..1) or the given q; "
              "right edge included (the maximum is the last quantile)",
              f"percentiles: {pc}; bins: {[U(v) for v in defs.get('bins', [])]}; default qrange ok: {okd}; return ok: {okr}", qb.where)
    eb = m.func("binnings", "exponential_binning")
    ctx.saw(eb)
    n_ok, why = 0, []
    for path in function_paths(eb.node):
        if end_kind(path) != "return" or not consistent(path):
            continue
        env = Env()
        for s_ in path:
            env.step(s_)
        ret = path[-1][2].value
        if not (isinstance(ret, ast.Call) and U(ret.func) == "ExponentialBinning"):
            why.append(f"returns {U(ret)[:50]}")
            continue
        rng = any(U(s_[1]) == "range" and s_[2] for s_ in path if s_[0] == "cond")
        lo, hi = ("range[0]", "range[1]") if rng else ("data.min()", "data.max()")
        rc = RatCtx()

        def leaf(n):
            t = U(n)
            if t == lo:
                return Poly.sym("lo")
            if t == hi:
                return Poly.sym("hi")
            if t == "bin_count":
                return Poly.sym("n")
            return None
        # the parameter `range` is re-bound to the pair of logarithms: expand through the reaching definitions
        lm = env.expand(kwarg(ret, "log_min"), keep={"bin_count", "data"}) if kwarg(ret, "log_min") is not None else None
        lw = env.expand(kwarg(ret, "log_width"), keep={"bin_count", "data"}) if kwarg(ret, "log_width") is not None else None

        def sel(e):
            # (a, b)[i] -> a / b
            class T(ast.NodeTransformer):
                def visit_Subscript(self, node):
                    self.generic_visit(node)
                    if isinstance(node.value, ast.Tuple) and isinstance(node.slice, ast.Constant) and isinstance(node.slice.value, int) \
                            and node.slice.value < len(node.value.elts):
                        return node.value.elts[node.slice.value]
                    return node
            import copy as _c
            return T().visit(_c.deepcopy(e)) if e is not None else None
        rdef = [s_[1].value for s_ in path if s_[0] == "stmt" and isinstance(s_[1], ast.Assign) and U(s_[1].targets[0]) == "range"
                and isinstance(s_[1].value, ast.Tuple)]

        def unbind(e):
            # `range = (log10(range[0]), log10(range[1]))` re-binds the parameter: read range[i] after it as the i-th element
            if e is None or not rdef:
                return e
            import copy as _c

            class R(ast.NodeTransformer):
                def visit_Subscript(self, node):
                    if U(node.value) == "range" and isinstance(node.slice, ast.Constant) and node.slice.value in (0, 1):
                        return _c.deepcopy(rdef[-1].elts[node.slice.value])
                    return self.generic_visit(node)
            return R().visit(_c.deepcopy(e))
        lm, lw = unbind(sel(lm)), unbind(sel(lw))
        g_min = to_rat(lm, leaf, rc) if lm is not None else None
        g_w = to_rat(lw, leaf, rc) if lw is not None else None
        w_min = to_rat(ast.parse("log10(lo)", mode="eval").body, lambda n: Poly.sym(n.id) if isinstance(n, ast.Name) and n.id in ("lo", "hi", "n") else None, rc)
        w_w = to_rat(ast.parse("(log10(hi) - log10(lo)) / n", mode="eval").body,
                     lambda n: Poly.sym(n.id) if isinstance(n, ast.Name) and n.id in ("lo", "hi", "n") else None, rc)
        if rat_eq(g_min, w_min) and rat_eq(g_w, w_w) and U(kwarg(ret, "bin_count")) == "bin_count":
            n_ok += 1
        else:
            why.append(f"{'range' if rng else 'data'} path: log_min = `{U(lm) if lm is not None else None}`, log_width = `{U(lw) if lw is not None else None}`")
    ctx.check(n_ok >= 2 and not why, rule, "exponential_binning:parameters",
              "log_min = log10(lower end), log_width = (log10(upper) - log10(lower)) / bin_count, for the range or the data extent",
              "; ".join(sorted(set(why))[:2]) or f"only {n_ok} path(s)", eb.where)
    EB = m.cls("ExponentialBinning")
    g = EB.getters["numpy_bins"]
    ctx.saw(g)
    d2 = {U(n.targets[0]): U(n.value) for n in ast.walk(g.node) if isinstance(n, ast.Assign)}
    okg = d2.get("log_bins") in ("self._log_min + np.arange(self._bin_count + 1) * self._log_width",
                                 "np.arange(self._bin_count + 1) * self._log_width + self._log_min") and \
        d2.get("self._numpy_bins") in ("10.0 ** log_bins", "10 ** log_bins", "np.power(10.0, log_bins)")
    ctx.check(okg, rule, "ExponentialBinning.numpy_bins:geometric", "edges = 10 ** (log_min + k * log_width), k = 0..bin_count",
              f"numpy_bins is built as {d2}", g.where)


def check_edge_formula(ctx, rule, m):
    """first_edge / last_edge are the k = 0 / k = bin_count instances of the numpy_bins formula - as polynomials and as
    float-exact expression trees (same operations in the same association), so the growth test `value == last_edge`
    and the lookup in the edge array see bit-identical numbers."""
    from sa.symbolic import ftree, fsubst
    FW = m.cls("FixedWidthBinning")

    def leaf(n):
        return {"self._times_min": Poly.sym("T"), "self._bin_width": Poly.sym("w"), "self._shift": Poly.sym("s"), "self._bin_count": Poly.sym("C"),
                "np.arange(self._bin_count + 1, dtype=int)": Poly.sym("k"), "np.arange(self._bin_count + 1)": Poly.sym("k")}.get(U(n))
    T, w, s_, C, k = (Poly.sym(x) for x in ("T", "w", "s", "C", "k"))
    fe = [n.value for n in ast.walk(FW.getters["first_edge"].node) if isinstance(n, ast.Return)]
    le = [n.value for n in ast.walk(FW.getters["last_edge"].node) if isinstance(n, ast.Return)]
    nbs = [n.value for n in ast.walk(FW.getters["numpy_bins"].node) if isinstance(n, ast.Assign) and U(n.targets[0]) == "self._numpy_bins" and U(n.value) != "None"]
    p_fe = to_poly(fe[0], leaf) if fe else None
    p_le = to_poly(le[0], leaf) if le else None
    p_nb = to_poly(nbs[0], leaf) if nbs else None
    ctx.check(p_nb == (T + k) * w + s_, rule, "FixedWidthBinning.numpy_bins", "(times_min + k) * width + shift for k = 0..bin_count",
              f"numpy_bins = {p_nb}", FW.getters["numpy_bins"].where)
    ctx.check(p_fe == T * w + s_, rule, "FixedWidthBinning.first_edge", "the k = 0 edge", f"first_edge = {p_fe}, not the k=0 edge of numpy_bins", FW.getters["first_edge"].where)
    ctx.check(p_le == (T + C) * w + s_, rule, "FixedWidthBinning.last_edge", "the k = bin_count edge", f"last_edge = {p_le}, not the k=bin_count edge of numpy_bins", FW.getters["last_edge"].where)

    def fleaf(n):
        return {"self._times_min": "T", "self._bin_width": "w", "self._shift": "s", "self._bin_count": "C",
                "np.arange(self._bin_count + 1, dtype=int)": "k", "np.arange(self._bin_count + 1)": "k"}.get(U(n))
    t_nb = ftree(nbs[0], fleaf) if nbs else None
    t_fe = ftree(fe[0], fleaf) if fe else None
    t_le = ftree(le[0], fleaf) if le else None
    ctx.check(t_nb is not None and t_fe == fsubst(t_nb, "k", ("const", 0)), rule, "FixedWidthBinning.first_edge:float-exact",
              "same operation tree as numpy_bins at k = 0",
              f"first_edge `{U(fe[0]) if fe else None}` is not the numpy_bins expression at k = 0 operation by operation: equal in exact "
              "arithmetic at most, its float value can differ from numpy_bins[0] by an ulp", FW.getters["first_edge"].where)
    ctx.check(t_nb is not None and t_le == fsubst(t_nb, "k", ("sym", "C")), rule, "FixedWidthBinning.last_edge:float-exact",
              "same operation tree as numpy_bins at k = bin_count",
              f"last_edge `{U(le[0]) if le else None}` is not the numpy_bins expression at k = bin_count operation by operation: equal in "
              "exact arithmetic at most, so `value == last_edge` in the growth test can miss the edge the lookup uses", FW.getters["last_edge"].where)


BIN_COUNT_RULES = {   # the published rules (numpy.histogram_bin_edges uses the same), n = sample size, g = sample skewness
    "sqrt": "ceil(sqrt(n))",
    "sturges": "ceil(log2(n)) + 1",
    "rice": "ceil(2 * n ** (1 / 3))",
    "doane": "ceil(1 + log2(n) + log2(1 + abs(g) / sqrt(6 * (n - 2) / ((n + 1) * (n + 3)))))",
}


def check_bin_count_rules(ctx, rule, m):
    """Each `method == <rule>` branch of ideal_bin_count returns its published formula (compared as rational functions with
    opaque sqrt / log2 / ceil applications, local names expanded)."""
    from sa.symbolic import RatCtx, to_rat, rat_eq
    ibc = m.func("binnings", "ideal_bin_count")
    ctx.saw(ibc)
    size_names = {U(n.targets[0]) for n in ast.walk(ibc.node) if isinstance(n, ast.Assign) and U(n.value) in ("data.size", "len(data)", "np.size(data)")}
    for name, want_src in BIN_COUNT_RULES.items():
        block = None
        for n in ast.walk(ibc.node):
            if isinstance(n, ast.If) and isinstance(n.test, ast.Compare) and U(n.test.left) == "method" \
                    and const_value(n.test.comparators[0]) == name:
                block = n
        if block is None:
            ctx.bad(rule, f"ideal_bin_count:{name}:formula", f"no branch for method '{name}'", ibc.where)
            continue
        defs = {}
        ret = None
        for st in block.body:
            if isinstance(st, ast.Assign) and isinstance(st.targets[0], ast.Name):
                defs[st.targets[0].id] = st.value
            if isinstance(st, ast.Return):
                ret = st.value
        rc = RatCtx()

        def leaf(n, defs=defs):
            if isinstance(n, ast.Name):
                if n.id in size_names or n.id == "n":
                    return Poly.sym("n")
                if n.id == "g":
                    return Poly.sym("g")
                if n.id in defs:
                    return to_rat(defs[n.id], leaf, rc)
            if isinstance(n, ast.Call) and U(n.func).split(".")[-1] in ("_skew", "skew") and n.args and U(n.args[0]) == "data":
                return Poly.sym("g")
            return None
        got = to_rat(ret, leaf, rc) if ret is not None else None
        want = to_rat(ast.parse(want_src, mode="eval").body, leaf, rc)
        ctx.check(got is not None and rat_eq(got, want), rule, f"ideal_bin_count:{name}:formula", f"{name}: {want_src}",
                  f"the '{name}' rule returns `{U(ret)[:110] if ret is not None else None}`"
                  + (f" with {', '.join(f'{k} = {U(v)}' for k, v in defs.items())[:120]}" if defs else "")
                  + f", which is not {want_src}", ibc.where)


def check_copy_forwards(ctx, rule, m):
    """copy() of every binning class hands every state-determining constructor parameter on from the instance."""
    COPY = {"FixedWidthBinning": {"bin_width": "self._bin_width", "bin_count": "self._bin_count", "bin_times_min": "self._times_min", "bin_shift": "self._shift",
                                  "includes_right_edge": "self.includes_right_edge", "adaptive": "self._adaptive", "align": "self._align"},
            "StaticBinning": {"bins": "self.bins.copy()", "includes_right_edge": "self.includes_right_edge"},
            "NumpyBinning": {"numpy_bins": "self.numpy_bins", "includes_right_edge": "self.includes_right_edge"},
            "ExponentialBinning": {0: "self._log_min", 1: "self._log_width", 2: "self._bin_count", 3: "self.includes_right_edge"}}
    for cname, want in COPY.items():
        c = m.cls(cname)
        cp = c.methods.get("copy")
        if cp is None:
            ctx.bad(rule, f"{cname}.copy", "no copy()", c.where)
            continue
        ctx.saw(cp)
        call = [x for x in calls_in(cp.node) if U(x.func) == cname]
        probs = []
        if not call:
            probs.append("does not construct a new instance of its own class")
        else:
            for kk, vv in want.items():
                got = kwarg(call[0], kk) if isinstance(kk, str) else (call[0].args[kk] if kk < len(call[0].args) else None)
                if got is None and isinstance(kk, int):
                    names = [p for p in c.methods["__init__"].params() if p != "self"]
                    got = kwarg(call[0], names[kk])
                if got is None or U(got) != vv:
                    probs.append(f"{kk} <- {U(got) if got is not None else 'missing'} (expected {vv})")
        ctx.check(not probs, rule, f"{cname}.copy", "every state-determining parameter forwarded from the instance", " ; ".join(probs), cp.where)



def run(ctx):
    m = ctx.model
    bn = m.module("binnings")
    bu = m.module("_bin_utils")
    BB = m.cls("BinningBase")

    # ---- C07.a -----------------------------------------------------------------------------------------------------
    ctx.rule("C07.a", "construction goes through validation; generators refuse degenerate parameters; make_bin_array / is_rising refuse bad shapes / orders", 12)
    for c in m.subclasses(BB):
        init = c.methods.get("__init__")
        if init is None:
            ctx.ok("C07.a", f"{c.name}.__init__:base", "inherits the validating constructor")
            continue
        ctx.saw(init)
        bad = 0
        n = 0
        for path in function_paths(init.node):
            if end_kind(path) == "raise":
                continue
            n += 1
            if not any(s[0] == "stmt" and any(isinstance(cc.func, ast.Attribute) and cc.func.attr == "__init__" and isinstance(cc.func.value, ast.Call)
                                              and U(cc.func.value.func) == "super" for cc in calls_in(s[1])) for s in path):
                bad += 1
        ctx.check(bad == 0 and n > 0, "C07.a", f"{c.name}.__init__:base", f"all {n} normal paths call BinningBase.__init__",
                  f"{bad} path(s) of {c.name}.__init__ skip the base constructor (and its validation)", init.where)
        # explicit edges -> validated parameters
        sup = [cc for cc in calls_in(init.node) if isinstance(cc.func, ast.Attribute) and cc.func.attr == "__init__"]
        params = [p for p in init.params() if p != "self"]
        if c.name in ("StaticBinning", "NumpyBinning"):
            edge_param = params[0]
            want = {"StaticBinning": "bins", "NumpyBinning": "numpy_bins"}[c.name]
            ok = sup and kwarg(sup[0], want) is not None and U(kwarg(sup[0], want)) == edge_param
            ctx.check(bool(ok), "C07.a", f"{c.name}.__init__:validated-edges", f"edges passed as `{want}=` to the validating base constructor",
                      f"{c.name} does not hand its edges to BinningBase.__init__({want}=...)", init.where)

    def raises_when(fi, pred, exc="ValueError", when=True):
        n, off = must_raise(fi.node, pred, when=when, exc=exc)
        return n >= 1 and not off

    def cmp_is(e, left, ops, right):
        return isinstance(e, ast.Compare) and len(e.ops) == 1 and U(e.left) == left and type(e.ops[0]) in ops and U(e.comparators[0]) == right
    binit = BB.methods["__init__"]
    ctx.saw(binit)
    ctx.check(raises_when(binit, lambda e: U(e) == "is_rising(bins)", when=False), "C07.a", "BinningBase.__init__:bins-rising", "bins not rising -> ValueError",
              "explicit edge pairs are no longer checked with is_rising", binit.where)
    ctx.check(raises_when(binit, lambda e: U(e) == "np.all(numpy_bins[1:] > numpy_bins[:-1])", when=False), "C07.a", "BinningBase.__init__:numpy-bins-rising",
              "numpy-style edges must strictly rise", "numpy-style edges are no longer required to rise strictly", binit.where)
    t = U(binit.node)
    ctx.check("bins = make_bin_array(bins)" in t and "numpy_bins = to_numpy_bins(numpy_bins)" in t, "C07.a", "BinningBase.__init__:normalised",
              "edges normalised by make_bin_array / to_numpy_bins before validation", "edges are not normalised before validation", binit.where)
    fw = m.cls("FixedWidthBinning").methods["__init__"]
    ctx.check(raises_when(fw, lambda e: cmp_is(e, "bin_width", (ast.LtE,), "0")), "C07.a", "FixedWidthBinning.__init__:width", "bin_width <= 0 -> ValueError",
              "a non-positive bin width is no longer refused", fw.where)
    ctx.check(raises_when(fw, lambda e: cmp_is(e, "bin_count", (ast.Lt,), "0")), "C07.a", "FixedWidthBinning.__init__:count", "bin_count < 0 -> ValueError",
              "a negative bin count is no longer refused", fw.where)
    ex = m.cls("ExponentialBinning").methods["__init__"]
    ctx.saw(ex)
    ctx.check(raises_when(ex, lambda e: cmp_is(e, "log_width", (ast.LtE,), "0")), "C07.a", "ExponentialBinning.__init__:log-width",
              "log_width <= 0 -> ValueError (zero width would give empty-width bins, negative falling ones)",
              "a non-positive logarithmic width is not refused (`<` lets zero-width bins through)", ex.where)
    nb = m.cls("NumpyBinning").methods["__init__"]
    ctx.check(raises_when(nb, lambda e: U(e) == "is_rising(numpy_bins)", when=False), "C07.a", "NumpyBinning.__init__:rising", "edges not rising -> ValueError",
              "NumpyBinning no longer checks its edges", nb.where)
    mba = bu.functions["make_bin_array"]
    ctx.saw(mba)
    ok_shape = raises_when(mba, lambda e: cmp_is(e, "bins.shape[1]", (ast.NotEq,), "2"))
    ok_dim = any(end_kind(p) == "raise" and ("bins.ndim == 1", False) in [(U(s[1]), s[2]) for s in p if s[0] == "cond"]
                 and ("bins.ndim == 2", False) in [(U(s[1]), s[2]) for s in p if s[0] == "cond"] for p in function_paths(mba.node))
    n_mr, off_mr = must_raise(mba.node, lambda e: U(e) == "bins.ndim == 2", when=False)
    ok_dim = ok_dim and n_mr >= 1 and not off_mr
    ctx.check(ok_shape and ok_dim, "C07.a", "make_bin_array:shape", "ndim not in (1,2) or second dimension != 2 -> ValueError",
              "wrongly shaped bin specifications are no longer refused", mba.where)
    ir = bu.functions["is_rising"]
    ctx.saw(ir)
    conds = {}
    for p in function_paths(ir.node):
        if end_kind(p) == "return" and U(p[-1][2].value) == "False":
            for s in p:
                if s[0] == "cond" and s[2]:
                    conds[U(s[1])] = True
    ctx.check("np.any(bins[:, 0] >= bins[:, 1])" in conds, "C07.a", "is_rising:left-lt-right", "any left >= right -> not rising",
              "is_rising no longer rejects bins with left >= right (empty or negative width)", ir.where)
    ctx.check("np.any(bins[1:, 0] < bins[:-1, 1])" in conds, "C07.a", "is_rising:no-overlap", "any next-left < previous-right -> not rising",
              "is_rising no longer rejects overlapping / unsorted bins", ir.where)
    tnb = bu.functions["to_numpy_bins"]
    ctx.saw(tnb)
    tt = U(tnb.node)
    ctx.check("not is_consecutive(bins)" in tt and "np.concatenate([bins[:1, 0], bins[:, 1]])" in tt, "C07.a", "to_numpy_bins",
              "refuses gapped bins; edges = first left edge + all right edges", "to_numpy_bins no longer builds [first left, all rights] from consecutive bins only", tnb.where)

    # ---- C07.b registries and dispatch -----------------------------------------------------------------------------------
    ctx.rule("C07.b", "factories registered under their names; bincount_methods == ideal_bin_count branches; calculate_1d_bins assigns or raises", 10)
    reg = bn.functions.get("register_binning")
    tr = U(reg.node) if reg else ""
    ctx.check("key = name or f.__name__[:-8]" in tr and "binning_methods[key] = f" in tr, "C07.b", "register_binning", "key = name or function name without `_binning`",
              "register_binning no longer registers under `name or f.__name__[:-8]`", reg.where if reg else bn.relpath)
    registered = {}
    for fi in bn.all_functions:
        for d in fi.node.decorator_list:
            if isinstance(d, ast.Call) and U(d.func) == "register_binning":
                nm = kwarg(d, "name") or (d.args[0] if d.args else None)
                registered[fi.name] = const_value(nm) if nm is not None else fi.name[:-8]
    for n in ast.walk(bn.tree):
        if isinstance(n, ast.Call) and isinstance(n.func, ast.Call) and U(n.func.func) == "register_binning" and n.args:
            nm = kwarg(n.func, "name")
            registered[U(n.args[0])] = const_value(nm) if nm is not None else U(n.args[0])[:-8]
    for fname, key in EXPECTED_KEYS.items():
        if fname not in bn.functions:
            if fname in ("numpy_binning", "pretty_binning", "quantile_binning", "static_binning", "integer_binning", "fixed_width_binning", "exponential_binning"):
                ctx.bad("C07.b", f"registered:{fname}", f"factory {fname} vanished", bn.relpath)
            continue
        ctx.check(registered.get(fname) == key, "C07.b", f"registered:{fname}", f"registered as '{key}'",
                  f"{fname} is registered as {registered.get(fname)!r}, expected '{key}'", bn.functions[fname].where)
    ctx.check(registered.get("human_binning") == "human", "C07.b", "registered:human_binning", "alias 'human'", "the 'human' alias is gone", bn.relpath)
    ibc = bn.functions["ideal_bin_count"]
    ctx.saw(ibc)
    branches = {const_value(n.test.comparators[0]) for n in ast.walk(ibc.node) if isinstance(n, ast.If) and isinstance(n.test, ast.Compare) and U(n.test.left) == "method"}
    lst = bn.assigns.get("bincount_methods")
    listed = {const_value(e) for e in lst.elts} if isinstance(lst, (ast.List, ast.Tuple)) else set()
    tail_raise = isinstance(ibc.node.body[-1], ast.Raise)
    ctx.check(branches == listed and tail_raise and len(listed) >= 5, "C07.b", "bincount_methods", f"{sorted(listed)} == branches of ideal_bin_count; unknown -> ValueError",
              f"bincount_methods {sorted(listed)} != branches {sorted(branches)} (or the unknown-method raise is gone)", ibc.where)
    wiring.params_used(ctx, "C07.b", wiring.funcs_of(m, "binnings", "_bin_utils"), "binnings:options-read")
    wiring.same_name_forwarding(ctx, "C07.b", m, wiring.funcs_of(m, "binnings", "_bin_utils"), "binnings:options-forwarded")
    check_bin_count_rules(ctx, "C07.b", m)
    check_numpy_binning_coverage(ctx, "C07.b", m)
    check_rule_factories(ctx, "C07.b", m)
    check_pretty_width(ctx, "C07.b", m)
    cb = m.func("_construction", "calculate_1d_bins")
    ctx.saw(cb)
    unassigned = 0
    n = 0
    for path in function_paths(cb.node):
        if end_kind(path) != "return":
            continue
        n += 1
        if not any(s[0] == "stmt" and isinstance(s[1], ast.Assign) and U(s[1].targets[0]) == "binning" for s in path):
            unassigned += 1
    ctx.check(unassigned == 0 and n > 5, "C07.b", "calculate_1d_bins:definite-assignment", f"`binning` assigned on all {n} returning paths",
              f"{unassigned} returning path(s) never assign `binning`", cb.where)
    tcb = U(cb.node)
    order_ok = tcb.find("_ in bincount_methods") < tcb.find("_ in binning_methods") < tcb.find("No binning method") and tcb.find("_ in bincount_methods") > 0
    ctx.check(order_ok and "raise ValueError(f'Binning {_} not understood.')" in tcb, "C07.b", "calculate_1d_bins:string-dispatch",
              "method names: bin-count rules, then registered binnings, else ValueError; unknown kinds refused", "string / fall-through dispatch changed", cb.where)

    check_pretty_factory(ctx, "C07.b", m)

    # ---- C07.c row / column dependence ---------------------------------------------------------------------------------------
    ctx.rule("C07.c", "the (n,2) bins array is used through its columns / full rows; no bare constant-row access in arithmetic; tolerance slots", 6)
    funcs = [f for f in m.all_funcs() if f.module.short in ("binnings", "_bin_utils")]
    nrow = 0
    for fi in funcs:
        parents = {}
        for node in ast.walk(fi.node):
            for ch in ast.iter_child_nodes(node):
                parents[ch] = node
        for node in ast.walk(fi.node):
            if isinstance(node, ast.Subscript) and isinstance(node.ctx, ast.Load):
                base = U(node.value)
                if base in ("self.bins", "bins", "self._bins", "other.bins") and isinstance(const_value(node.slice), int):
                    nrow += 1
                    par = parents.get(node)
                    if isinstance(par, ast.Subscript) and par.value is node:
                        continue  # bins[k][j]: one element
                    ctx.bad("C07.c", f"{fi.qualname}:row-access:{U(node)}",
                            f"`{U(par)[:70] if par is not None else U(node)}` uses row {const_value(node.slice)} of the (n,2) bins array "
                            "(one bin's edge pair) where a column over all bins or a scalar is needed", fi.where)
    BBm = BB.methods
    ireg = BBm["is_regular"]
    ctx.saw(ireg)
    tr_ = U(ireg.node)
    ctx.check("np.diff(self.bins[:, 1] - self.bins[:, 0])" in tr_, "C07.c", "BinningBase.is_regular:all-widths", "widths of all bins = right column - left column",
              "is_regular does not compare the widths of all bins (right column minus left column)", ireg.where)
    afw = BBm["as_fixed_width"]
    ctx.saw(afw)
    call = [c for c in calls_in(afw.node) if U(c.func) == "FixedWidthBinning"]
    okw = call and U(kwarg(call[0], "bin_width")) == "self.bins[0][1] - self.bins[0][0]" and U(kwarg(call[0], "min")) == "self.bins[0][0]" \
        and U(kwarg(call[0], "bin_count")) == "self.bin_count"
    ctx.check(bool(okw), "C07.c", "BinningBase.as_fixed_width:scalars", "min = first left edge, width = first bin's width (scalars), count = bin_count",
              "as_fixed_width does not pass scalar min / width of the first bin", afw.where)
    ic = bu.functions["is_consecutive"]
    ctx.saw(ic)
    tic = U(ic.node)
    ctx.check("np.allclose(bins[1:, 0], bins[:-1, 1], rtol, atol)" in tic or "np.allclose(bins[1:, 0], bins[:-1, 1], rtol=rtol, atol=atol)" in tic, "C07.c",
              "is_consecutive:columns-and-tolerances", "next lefts vs previous rights, rtol / atol in their own slots",
              "is_consecutive does not compare bins[1:,0] with bins[:-1,1] with (rtol, atol) in that order", ic.where)
    nsw = wiring.swapped_arguments(ctx, "C07.c", funcs, m)
    for name, want in (("first_edge", "self.bins[0][0]"), ("last_edge", "self.bins[-1][1]"), ("bin_count", "self.bins.shape[0]")):
        g = BB.getters[name]
        rets = [U(n.value) for n in ast.walk(g.node) if isinstance(n, ast.Return)]
        ctx.check(want in rets, "C07.c", f"BinningBase.{name}", want, f"{name} returns {rets}", g.where)

    from rules import c02
    c02.check_mask_builder(ctx, "C07.c", m)

    # ---- C07.d one source of truth ---------------------------------------------------------------------------------------------
    ctx.rule("C07.d", "FixedWidthBinning edges are one formula; copy() forwards all state", 6)
    check_edge_formula(ctx, "C07.d", m)
    check_copy_forwards(ctx, "C07.d", m)

    # `==` of binnings compares the edge arrays; no schema substitutes a comparison of its own parameters
    eqs = [c.name for c in m.subclasses(BB) if "__eq__" in c.methods]
    beq = BB.methods["__eq__"]
    ctx.saw(beq)
    cmp_rets = [U(n.value) for n in ast.walk(beq.node) if isinstance(n, ast.Return) and isinstance(n.value, ast.Call)]
    okeq = bool(cmp_rets) and all(r in ("np.array_equal(self.bins, other.bins)", "np.array_equal(self.numpy_bins, other.numpy_bins)",
                                        "np.array_equal(other.bins, self.bins)", "np.array_equal(other.numpy_bins, self.numpy_bins)") for r in cmp_rets)
    ctx.check(not eqs and okeq, "C07.d", "binning-equality", "only BinningBase defines ==, and it compares the edge arrays exactly",
              (f"{eqs} define their own __eq__ (a comparison of generating parameters can call binnings equal whose edges differ)" if eqs
               else f"BinningBase.__eq__ compares {cmp_rets}"), beq.where)

    # ---- C07.e caches never mutated in place -------------------------------------------------------------------------------------
    ctx.rule("C07.e", "cached edge arrays (_bins, _numpy_bins, .bins, .numpy_bins) are never modified in place anywhere", 1)
    bad = []
    for fi in m.all_funcs():
        for st in ast.walk(fi.node):
            if isinstance(st, ast.stmt):
                for w_ in writes_of(st):
                    if w_.attrs and w_.attrs[-1] in ("_bins", "_numpy_bins", "bins", "numpy_bins") and (w_.how != "store"):
                        bad.append(f"{fi.qualname}: `{U(st)[:60]}`")
    ctx.check(not bad, "C07.e", "edge-caches-immutable", "no subscript store / augmented assignment / in-place method on an edge array",
              "edge arrays shared between binning copies are modified in place: " + "; ".join(bad[:3]), bn.relpath)

    # cache coherence of the derived edge representations (shared with C04.a)
    from rules import c04
    c04.check_cache_coherence(ctx, "C07.d", m)

    ctx.rule("C07.f", "binning copies are built by the constructor only: copy() stores nothing on its result, so no stale cache "
             "(_numpy_bins, _consecutive) travels with a copy that __getitem__ then re-bins", 4)
    check_binning_copies(ctx, "C07.f", m)

    # shared with C04.c: where an empty fixed-width binning puts its first bin
    ctx.borrow("C04", ("_force_bin_existence_single:first-bin",), "C07.d", floor=2)
