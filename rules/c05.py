"""C05 - adding histograms equals histogramming the combined data."""
from __future__ import annotations

import ast

from sa.model import AnalysisError, calls_in
from sa.paths import function_paths, end_kind, consistent
from sa.symbolic import Poly, to_poly
from sa.util import U, writes_of, Env, call_is, TupleItem
from rules import c12

EXPLANATION = (
    "C05: on every non-refusing histogram-operand path of __iadd__ each additive store (frequencies, errors2, "
    "missed, statistics) becomes own + operand's (missed may instead be guarded by the refusal of a non-zero "
    "operand store in the adaptive branch); the operand is copied before it is re-binned and is never written; "
    "both operands are mapped onto one grid (same new binning object, own map each, same axis; new_min/new_max are "
    "min/max over both operands and go to both _force_new_min_max calls; the shift map equals the growth on the "
    "left); width/shift mismatch, dimension mismatch and incompatible bins raise before any write; 0 + h is a copy "
    "of h so sum() works; collection.sum and the dask graph reduce with sum over all members / all chunk keys."
)
NOT_DECIDED = "exact float equality under re-association; np.allclose-based bin equality tolerances."
TRUSTED = ["builtin sum folds with + from 0", "dask executes the graph's result node over every listed key"]


def _cond(path, text, value=True):
    return any(s[0] == "cond" and U(s[1]) == text and s[2] == value for s in path)


def run(ctx):
    m = ctx.model
    HB = m.cls("HistogramBase")
    ia = HB.methods.get("__iadd__")
    if ia is None:
        raise AnalysisError("HistogramBase.__iadd__ not found")
    ctx.saw(ia)
    o = [p for p in ia.params() if p != "self"][0]

    # ---- C05.a -----------------------------------------------------------------------------------------
    ctx.rule("C05.a", "histogram-operand paths of __iadd__ combine frequencies, errors2, missed and statistics with +", 4)
    stores = {"frequencies": [], "errors2": [], "missed": [], "stats": []}
    npaths = 0
    for path in function_paths(ia.node):
        if not consistent(path) or end_kind(path) == "raise" or not _cond(path, f"isinstance({o}, HistogramBase)"):
            continue
        npaths += 1
        got = {}
        refused_missed = any(s[0] == "cond" and U(s[1]) in (f"{o}.missed > 0", f"{o}.missed != 0", f"{o}.missed") and not s[2] for s in path)
        for step in path:
            if step[0] != "stmt":
                continue
            st = step[1]
            if isinstance(st, ast.Assign) and isinstance(st.targets[0], ast.Attribute) and U(st.targets[0].value) == "self":
                a = st.targets[0].attr
                fld = {"frequencies": "frequencies", "_frequencies": "frequencies", "errors2": "errors2", "_errors2": "errors2",
                       "_missed": "missed", "_stats": "stats"}.get(a)
                if fld:
                    def leaf(n, fld=fld):
                        if isinstance(n, ast.Attribute) and n.attr.lstrip("_") in (fld, "stats" if fld == "stats" else fld):
                            if U(n.value) == "self":
                                return Poly.sym("S")
                            if U(n.value) == o:
                                return Poly.sym("O")
                        return None
                    p = to_poly(st.value, leaf)
                    got[fld] = (p == Poly.sym("S") + Poly.sym("O"), U(st))
            if isinstance(st, ast.AugAssign) and isinstance(st.op, ast.Add) and isinstance(st.target, ast.Attribute) \
                    and U(st.target.value) == "self":
                fld = {"_missed": "missed", "_stats": "stats", "_frequencies": "frequencies", "_errors2": "errors2"}.get(st.target.attr)
                if fld:
                    v = st.value
                    ok = isinstance(v, ast.Attribute) and U(v.value) == o and v.attr == st.target.attr
                    got[fld] = (ok, U(st))
        for fld in stores:
            if fld in got:
                stores[fld].append(got[fld])
            elif fld == "missed" and refused_missed:
                stores[fld].append((True, f"guarded: `{o}.missed > 0` refused before"))
            elif fld == "stats" and any("hasattr" in U(s[1]) and "_stats" in U(s[1]) and not s[2] for s in path if s[0] == "cond"):
                stores[fld].append((True, "no statistics on this class (hasattr guard false)"))
            else:
                stores[fld].append((False, f"{fld} of the operand is not added on a path"))
    if npaths == 0:
        raise AnalysisError("__iadd__: no histogram-operand path found")
    for fld, items in stores.items():
        bad = sorted({t for ok, t in items if not ok})
        ctx.check(not bad, "C05.a", f"HistogramBase.__iadd__:{fld}", f"{fld}: " + " | ".join(sorted({t for ok, t in items if ok}))[:200],
                  f"{fld} is not combined as own + operand's on every path: " + " | ".join(bad)[:200], ia.where)

    # ---- C05.b operands are not written ---------------------------------------------------------------------
    ctx.rule("C05.b", "__add__ / __radd__ / __sub__ write only to a fresh copy; __iadd__ never mutates or captures its operand", 5)
    for spec in [s for s in c12.OPS if s[2] in ("__add__", "__radd__", "__sub__", "copy") and s[1] != "HistogramCollection"]:
        c12.check_op(ctx, m, "C05.b", "C05.b", *spec)
    c12.check_inplace(ctx, m, "C05.b", "HistogramBase", "__iadd__")
    c12.check_copy_contents(ctx, "C05.b", m)
    for nm, op in (("__add__", ast.Add), ("__sub__", ast.Sub)):
        f_ = HB.methods[nm]
        o_ = [q for q in f_.params() if q != "self"][0]
        n_p, bad_p = 0, []
        for p_ in function_paths(f_.node):
            if end_kind(p_) != "return":
                continue
            n_p += 1
            sts_ = [s_[1] for s_ in p_ if s_[0] == "stmt"]
            src_ = [U(x.value) for x in sts_ if isinstance(x, ast.Assign) and U(x.targets[0]) == "new"]
            aug_ = [x for x in sts_ if isinstance(x, ast.AugAssign) and U(x.target) == "new" and isinstance(x.op, op) and U(x.value) == o_]
            if src_ != ["self.copy()"] or len(aug_) != 1 or U(p_[-1][2].value) != "new":
                bad_p.append(f"new = {src_}, {'no' if not aug_ else len(aug_)} `new {'+' if op is ast.Add else '-'}= {o_}`")
        ctx.check(n_p >= 1 and not bad_p, "C05.b", f"HistogramBase.{nm}:every-path", f"all {n_p} path(s): new = self.copy(); new {'+' if op is ast.Add else '-'}= other; return new",
                  f"a path of {nm} does not combine the operands through the in-place operator on a copy of self ({bad_p[:1]}): "
                  "what the left operand holds (missed weights, statistics, dtype) can be dropped", f_.where)
    # C12's helpers use their own keys for freshness and write-discipline under the same rule id: fine, keys differ? make sure
    # ---- C05.c one grid for both operands -----------------------------------------------------------------------
    ctx.rule("C05.c", "adaptive branch: both operands re-binned onto the same new binning with their own maps on the same axis; "
             "_adapt passes min/max over both operands to both sides; shift map = growth on the left", 8)
    ok = {"adapt": False, "self": False, "other": False, "copy": False, "newbins": False, "loop": False}
    for path in function_paths(ia.node):
        if not _cond(path, "self.is_adaptive()") or end_kind(path) == "raise":
            continue
        env = Env()
        loopvar = None
        for step in path:
            if step[0] == "for" and step[2] and isinstance(step[1], ast.For):
                loopvar = U(step[1].target)
                ok["loop"] = U(step[1].iter) == "range(self.ndim)"
            if step[0] == "stmt":
                st = step[1]
                if isinstance(st, ast.Assign) and U(st.targets[0]) == o and U(st.value) == f"{o}.copy()":
                    ok["copy"] = True
                for c in calls_in(st):
                    if isinstance(c.func, ast.Attribute) and c.func.attr == "adapt":
                        nb = env.resolve(c.func.value)
                        ok["newbins"] = U(nb) == f"self._binnings[{loopvar}].copy()"
                        ok["adapt"] = bool(c.args) and U(c.args[0]) == f"{o}._binnings[{loopvar}]"
                        nbname = U(c.func.value)
                    if isinstance(c.func, ast.Attribute) and c.func.attr == "_change_binning" and len(c.args) >= 2:
                        recv = U(c.func.value)
                        mp = env.resolve(c.args[1])
                        ax = next((U(k.value) for k in c.keywords if k.arg == "axis"), U(c.args[2]) if len(c.args) > 2 else None)
                        idx = mp.index if isinstance(mp, TupleItem) and isinstance(mp.value, ast.Call) and call_is(mp.value, "adapt") else None
                        same_nb = U(c.args[0]) == nbname if "nbname" in dir() else False
                        if recv == "self":
                            ok["self"] = idx == 0 and ax == loopvar and same_nb and ok["copy"]
                        elif recv == o:
                            ok["other"] = idx == 1 and ax == loopvar and same_nb and ok["copy"]
            env.step(step)
    msgs = {"copy": f"`{o} = {o}.copy()` precedes the re-binning", "newbins": "new_bins is a copy of self's binning on that axis",
            "adapt": "adapt() is given the operand's binning of the same axis", "self": "self re-binned with map #0 on the loop axis",
            "other": "operand copy re-binned with map #1 on the same axis and the same new binning", "loop": "all axes are adapted"}
    for k, v in ok.items():
        ctx.check(v, "C05.c", f"HistogramBase.__iadd__:adaptive:{k}", msgs[k], f"adaptive branch of __iadd__: NOT({msgs[k]})", ia.where)
    FW = m.cls("FixedWidthBinning")
    ad = FW.methods.get("_adapt")
    fm = FW.methods.get("_force_new_min_max")
    if ad is None or fm is None:
        raise AnalysisError("FixedWidthBinning._adapt / _force_new_min_max not found")
    ctx.saw(ad)
    ctx.saw(fm)
    src = {U(n.targets[0]): U(n.value) for n in ast.walk(ad.node) if isinstance(n, ast.Assign) and isinstance(n.targets[0], ast.Name)}
    oo = [p for p in ad.params() if p != "self"][0]
    ctx.check(src.get("new_min") in (f"min(self._times_min, {oo}._times_min)", f"min({oo}._times_min, self._times_min)"), "C05.c",
              "FixedWidthBinning._adapt:new_min", "new_min = min of both first grid indices", f"new_min = {src.get('new_min')}", ad.where)
    wantmax = {f"max(self._times_min + self._bin_count, {oo}._times_min + {oo}._bin_count)",
               f"max({oo}._times_min + {oo}._bin_count, self._times_min + self._bin_count)"}
    ctx.check(src.get("new_max") in wantmax, "C05.c", "FixedWidthBinning._adapt:new_max", "new_max = max of both last grid indices",
              f"new_max = {src.get('new_max')}", ad.where)
    calls = [c for c in calls_in(ad.node) if isinstance(c.func, ast.Attribute) and c.func.attr == "_force_new_min_max"]
    recvs = sorted(U(c.func.value) for c in calls)
    same_args = all([U(a) for a in c.args] == ["new_min", "new_max"] for c in calls)
    ctx.check(recvs == sorted(["self", oo]) and same_args, "C05.c", "FixedWidthBinning._adapt:both-sides",
              "both binnings are forced to the same (new_min, new_max)", f"_force_new_min_max called on {recvs} with differing arguments", ad.where)
    rets = [n for n in ast.walk(ad.node) if isinstance(n, ast.Return) and isinstance(n.value, ast.Tuple)]
    rets = [r for r in rets if all(isinstance(e, ast.Name) for e in r.value.elts)]
    last = rets[-1] if rets else None
    order_ok = False
    if last is not None and len(last.value.elts) == 2:
        a, b = (src.get(U(e)) for e in last.value.elts)
        order_ok = a == "self._force_new_min_max(new_min, new_max)" and b == f"{oo}._force_new_min_max(new_min, new_max)"
    ctx.check(order_ok, "C05.c", "FixedWidthBinning._adapt:map-order", "returns (own map, operand's map)",
              "the two bin maps are not returned as (own, operand's)", ad.where)
    # refusals before writes in _adapt
    first_write = None
    for i, st in enumerate(ast.walk(ad.node)):
        pass
    okref = True
    for path in function_paths(ad.node):
        wrote = False
        for step in path:
            if step[0] == "stmt":
                if any(isinstance(c.func, ast.Attribute) and c.func.attr in ("_force_new_min_max", "_set_min_and_count") for c in calls_in(step[1])):
                    wrote = True
        if wrote and end_kind(path) == "raise":
            okref = False
    # must-pass-through: no path returns maps (even for an empty side) without having compared widths and grid shifts
    unchecked = []
    n_ret = 0
    for path in function_paths(ad.node):
        if end_kind(path) != "return":
            continue
        n_ret += 1
        cs = [(U(s_[1]), s_[2]) for s_ in path if s_[0] == "cond"]
        w_ok = any("bin_width" in c and "!=" in c and v is False for c, v in cs) or any("bin_width" in c and "==" in c and v is True for c, v in cs)
        s_ok = any("_shift" in c and "!=" in c and v is False for c, v in cs) or any("_shift" in c and "==" in c and v is True for c, v in cs)
        if not (w_ok and s_ok):
            unchecked.append(" & ".join(f"{c}={v}" for c, v in cs)[:120])
    ctx.check(n_ret >= 2 and not unchecked, "C05.c", "FixedWidthBinning._adapt:refusals-dominate-returns",
              f"all {n_ret} returning paths passed the width and the shift comparison",
              f"a path returns bin maps without comparing bin widths / grid shifts (incompatible operand absorbed silently): {unchecked[:2]}", ad.where)
    conds = {U(n.test) for n in ast.walk(ad.node) if isinstance(n, ast.If)}
    ctx.check(okref and any("bin_width" in c and "!=" in c for c in conds) and any("_shift" in c and "!=" in c for c in conds), "C05.c",
              "FixedWidthBinning._adapt:refusals", "different width or shift raise before either binning is changed",
              "the width / shift compatibility refusals are missing or follow a change", ad.where)
    # _force_new_min_max algebra
    env = Env()
    exprs = {}
    for path in function_paths(fm.node):
        if _cond(path, "new_min < self._times_min") and _cond(path, "new_max - self._times_min > self._bin_count") and _cond(path, "add_left or add_right"):
            e = Env()
            for step in path:
                if step[0] == "stmt":
                    for c in calls_in(step[1]):
                        if isinstance(c.func, ast.Attribute) and c.func.attr == "_set_min_and_count" and len(c.args) == 2:
                            exprs["tmin"] = e.expand(c.args[0], keep=("new_min", "new_max"))
                            exprs["count"] = e.expand(c.args[1], keep=("new_min", "new_max"))
                    if isinstance(step[1], ast.Assign) and U(step[1].targets[0]) == "bin_map" and isinstance(step[1].value, ast.GeneratorExp):
                        g = step[1].value
                        if isinstance(g.elt, ast.Tuple) and len(g.elt.elts) == 2:
                            exprs["map"] = (U(g.elt.elts[0]), e.expand(g.elt.elts[1], keep=("new_min", "new_max", U(g.generators[0].target))),
                                            U(g.generators[0].iter))
                e.step(step)

    def leaf(n):
        t = U(n)
        return {"self._times_min": Poly.sym("T"), "self._bin_count": Poly.sym("C"), "new_min": Poly.sym("m"), "new_max": Poly.sym("M"), "i": Poly.sym("i")}.get(t)
    T, C, mn, mx, i = (Poly.sym(x) for x in "TCmMi")
    ptmin = to_poly(exprs.get("tmin"), leaf) if "tmin" in exprs else None
    pcount = to_poly(exprs.get("count"), leaf) if "count" in exprs else None
    ctx.check(ptmin == mn and pcount == mx - mn, "C05.c", "FixedWidthBinning._force_new_min_max:grid",
              "new first index = new_min, new count = new_max - new_min",
              f"_set_min_and_count receives ({ptmin}, {pcount}); expected (new_min, new_max - new_min)", fm.where)
    mp = exprs.get("map")
    pm = to_poly(mp[1], leaf) if mp else None
    ctx.check(mp is not None and mp[0] == "i" and pm == i + T - mn and mp[2] == "range(self._bin_count)", "C05.c",
              "FixedWidthBinning._force_new_min_max:map", "old bin i -> i + (old first index - new_min), for all old bins",
              f"bin map is {mp[0] if mp else None} -> {pm} over {mp[2] if mp else None}; expected i -> i + T - new_min over range(bin_count)", fm.where)

    from rules import c10
    c10.sibling_transfer(ctx, "C05.c", HB.methods["_apply_bin_map"], "HistogramBase._apply_bin_map")

    # ---- C05.d reductions ----------------------------------------------------------------------------------------
    ctx.rule("C05.d", "0 + h copies h; collection.sum() and the dask graph reduce with sum over all members / chunk keys", 3)
    from rules import c14
    c14.check_stats_add(ctx, "C05.d", m)
    ra = HB.methods.get("__radd__")
    ctx.saw(ra)
    oo = [p for p in ra.params() if p != "self"][0]
    okr = False
    for path in function_paths(ra.node):
        if _cond(path, f"{oo} == 0") and end_kind(path) == "return" and U(path[-1][2].value) == "self.copy()":
            okr = True
    other_ok = any(end_kind(p) == "return" and U(p[-1][2].value) in (f"self + {oo}", f"self.__add__({oo})") for p in function_paths(ra.node))
    ctx.check(okr and other_ok, "C05.d", "HistogramBase.__radd__", "0 + h -> h.copy(); x + h -> h + x",
              "__radd__ does not map the sum() start value 0 to a copy of the histogram (or no longer delegates to h + x)", ra.where)
    HC = m.cls("HistogramCollection")
    sm = HC.methods.get("sum")
    ctx.saw(sm)
    rets = [U(n.value) for n in ast.walk(sm.node) if isinstance(n, ast.Return)]
    hsb = HB.methods["has_same_bins"]
    ctx.saw(hsb)
    n_mis, bad_mis = 0, []
    for p_ in function_paths(hsb.node, loops=2):
        if end_kind(p_) != "return" or not consistent(p_):
            continue
        fails = [s_ for s_ in p_ if s_[0] == "cond" and "allclose" in U(s_[1]) and ".bins" in U(s_[1]) and s_[2] is False]
        shape_diff = any(s_[0] == "cond" and U(s_[1]) in ("self.shape != other.shape", "other.shape != self.shape") and s_[2] for s_ in p_)
        ret = path_ret = p_[-1][2].value
        if fails or shape_diff:
            n_mis += 1
            if not (isinstance(ret, ast.Constant) and ret.value is False):
                bad_mis.append(f"after a failed comparison the result is `{U(ret)}`")
    rets_ = [U(n.value) for n in ast.walk(hsb.node) if isinstance(n, ast.Return)]
    ctx.check(n_mis >= 2 and not bad_mis and all(r in ("False", "True", "np.allclose(self.bins, other.bins)", "np.allclose(other.bins, self.bins)") for r in rets_),
              "C05.c", "HistogramBase.has_same_bins:every-axis", "different shapes or a mismatch on any axis -> False; True only after all axes were compared",
              "; ".join(sorted(set(bad_mis))[:2]) or f"returns {rets_}", hsb.where)
    csum = m.cls("HistogramCollection").methods["sum"]
    pols = {}
    for p_ in function_paths(csum.node):
        cs_ = dict((U(s_[1]), s_[2]) for s_ in p_ if s_[0] == "cond")
        if "self.histograms" in cs_ and end_kind(p_) == "return":
            pols[cs_["self.histograms"]] = "sum(self.histograms)" in U(p_[-1][2].value)
    ctx.check(pols == {True: True, False: False}, "C05.d", "HistogramCollection.sum:empty-only", "the zero histogram is returned for an empty collection only",
              f"`sum(self.histograms)` returned per `self.histograms` decision: {pols}", csum.where)
    ctx.check(any("sum(self.histograms)" in r for r in rets) and len(rets) == 2, "C05.d", "HistogramCollection.sum", "sum over all members",
              f"collection sum returns {rets}", sm.where)
    rd = m.func("compat.dask", "_run_dask")
    ctx.saw(rd)
    okd = False
    for path in function_paths(rd.node):
        env = Env()
        items_def_ok = False
        polluted = False
        for step in path:
            if step[0] == "stmt":
                st = step[1]
                if isinstance(st, ast.Assign) and U(st.targets[0]) == "items":
                    items_def_ok = U(st.value) in ("list(graph.keys())", "list(graph)") and not polluted
                if any(isinstance(c.func, ast.Attribute) and U(c.func) == "graph.update" for c in calls_in(st)) and not items_def_ok:
                    polluted = True
                if isinstance(st, ast.Assign) and isinstance(st.targets[0], ast.Subscript) and U(st.targets[0].value) == "graph" \
                        and U(st.value) == "(sum, items)" and items_def_ok and U(st.targets[0].slice) == "result_name":
                    okd = True
            env.step(step)
    gens = [n for n in ast.walk(rd.node) if isinstance(n, ast.GeneratorExp)]
    allkeys = gens and all("data.__dask_keys__()" in U(g.generators[0].iter) and not g.generators[0].ifs for g in gens)
    ctx.check(okd and allkeys, "C05.d", "compat.dask._run_dask", "result node = (sum, <all chunk nodes>), one node per dask key",
              "the dask graph's result does not sum over every chunk node", rd.where)

    # ---- C05.e refusals ---------------------------------------------------------------------------------------------
    ctx.rule("C05.e", "dimension mismatch and incompatible (non-adaptive) bins raise before any write; has_same_bins compares "
             "shape and every axis", 3)
    first_dim = False
    incompatible = False
    for path in function_paths(ia.node):
        wrote = False
        for step in path:
            if step[0] == "stmt" and any(w.root == "self" for w in writes_of(step[1])):
                wrote = True
            if step[0] == "stmt" and any(isinstance(c.func, ast.Attribute) and c.func.attr in ("_coerce_dtype", "_change_binning") for c in calls_in(step[1])):
                wrote = True
        if end_kind(path) == "raise" and not wrote:
            cs = [(U(s[1]), s[2]) for s in path if s[0] == "cond"]
            if (f"{o}.ndim != self.ndim", True) in cs:
                first_dim = True
            if ("self.has_same_bins(" + o + ")", False) in cs and ("self.is_adaptive()", False) in cs:
                incompatible = True
    ctx.check(first_dim, "C05.e", "HistogramBase.__iadd__:ndim", "different dimension refused before any write",
              "histograms of different dimension are not refused before the first write", ia.where)
    ctx.check(incompatible, "C05.e", "HistogramBase.__iadd__:incompatible-bins", "different bins without adaptivity refused before any write",
              "incompatible non-adaptive bins are not refused before the first write", ia.where)
    # the refusal of non-histogram operands depends on the flag being restored when a free-arithmetics block is left,
    # also by an exception (shared with C19.b)
    from rules import c19
    c19.check_scope_restore(ctx, "C05.e", m)
    hs = HB.methods.get("has_same_bins")
    ctx.saw(hs)
    txt = U(hs.node)
    okh = "self.shape != other.shape" in txt and "range(self.ndim)" in txt and "np.allclose(self.bins[i], other.bins[i])" in txt \
        and "np.allclose(self.bins, other.bins)" in txt
    ctx.check(okh, "C05.e", "HistogramBase.has_same_bins", "shape, then np.allclose of the bins of every axis",
              "has_same_bins no longer compares the shape and the bins of every axis", hs.where)

    # shared with C19: the option that admits non-histogram operands is off unless the environment says "1"
    ctx.borrow("C19", ("default:env",), "C05.d")
    ctx.borrow("C13", ("HistogramBase._coerce_dtype:promotes",), "C05.a")
    # adding partial histograms equals the whole only if growth puts every value in the bin the whole-data binning gives it (shared with C04.c)
    ctx.borrow("C04", ("_force_bin_existence_single:",), "C05.c", floor=4)
