"""C15 - transformed histograms bin points by their true coordinates."""
from __future__ import annotations

import ast
from fractions import Fraction

from sa.model import AnalysisError, calls_in, kwarg, FuncInfo
from sa.paths import function_paths, end_kind, consistent, must_raise
from sa.util import U, Env, call_is, TupleItem, const_value
from rules import wiring

EXPLANATION = (
    "C15: typestate analysis over the MRO-resolved call graph: for each of the 7 transformed classes x entry point "
    "(fill, fill_n, find_bin) x transformed flag the point argument is CARTESIAN or TRANSFORMED, cls.transform moves "
    "CARTESIAN -> TRANSFORMED exactly once (a second application or none before the base lookup / kernel is a "
    "violation), with the flag value each inner call actually passes (42 cases, exhaustive); the coordinate formulas "
    "of every _transform_correct_dimension are matched against the axis names (r = hypot of all source components, "
    "rho = hypot(x,y), phi = arctan2(y,x) mod 2pi, theta = arctan2(hypot(x,y), z) [mod 2pi at most], z = z) and the "
    "result has one column per axis; the seven facades transform with the class they construct, bin and count the "
    "transformed array, filter weights with the extraction mask and forward every kernel result; deprecated aliases "
    "point to the facade of their name; wrong source dimensionality is refused inside transform; projection class "
    "maps are well typed."
)
NOT_DECIDED = "numerical accuracy of hypot / arctan2, signed zeros; invertibility follows from the formula table, not from the code."
TRUSTED = ["np.hypot / np.arctan2 semantics", "Python MRO / super() resolution"]

CLASSES = ["RadialHistogram", "AzimuthalHistogram", "PolarHistogram", "SphericalSurfaceHistogram", "SphericalHistogram",
           "CylindricalSurfaceHistogram", "CylindricalHistogram"]
ENTRIES = {"fill": "value", "fill_n": "values", "find_bin": "value"}
SINKS = {("Histogram1D", "find_bin"), ("HistogramND", "find_bin")}
SINK_CALLS = ("calculate_1d_frequencies", "calculate_nd_frequencies")


class TS:
    def __init__(self, m):
        self.m = m
        self.problems = []
        self.reached_sink = 0

    def walk(self, cls, fi: FuncInfo, point: str, state: str, flags: dict, kw_has: dict, depth=0, chain=""):
        chain = chain + ("" if not chain else " -> ") + fi.qualname
        if depth > 8:
            self.problems.append(f"call chain too deep: {chain}")
            return
        if (fi.cls.name if fi.cls else "", fi.name) in SINKS:
            self.reached_sink += 1
            if state != "TRANS":
                self.problems.append(f"{chain}: the base lookup receives {state} coordinates (never transformed)")
            # HistogramND.find_bin without axis recurses per axis on scalars: no further transform possible here
            if fi.cls.name == "Histogram1D" or True:
                return
        params = fi.params()
        kwname = next((p[2:] for p in params if p.startswith("**")), None)
        for path in function_paths(fi.node):
            if end_kind(path) == "raise" or not consistent(path):
                continue
            st = {point: state}
            feasible = True
            for step in path:
                if step[0] == "cond":
                    v = self.truth(step[1], flags)
                    if v is not None and v != step[2]:
                        feasible = False
                        break
                if step[0] != "stmt":
                    continue
                s = step[1]
                # transform application / state propagation
                if isinstance(s, ast.Assign) and isinstance(s.targets[0], ast.Name):
                    t, v = s.targets[0].id, s.value
                    if isinstance(v, ast.Call) and isinstance(v.func, ast.Attribute) and v.func.attr == "transform" and v.args:
                        a = U(v.args[0])
                        if a in st:
                            if st[a] == "TRANS":
                                self.problems.append(f"{chain}: `{U(s)}` transforms coordinates that are already transformed")
                            st[t] = "TRANS"
                        continue
                    src = [n.id for n in ast.walk(v) if isinstance(n, ast.Name) and n.id in st]
                    if src and not isinstance(v, ast.Call) or (isinstance(v, ast.Call) and U(v.func) in ("np.asarray", "np.atleast_1d", "np.array") and src):
                        st[t] = st[src[0]]
                    elif isinstance(v, ast.Subscript) and src:
                        st[t] = st[src[0]]
                    elif isinstance(v, ast.Tuple):
                        pass
                    elif isinstance(v, ast.Call) and call_is(v, "extract_1d_array", "extract_nd_array") and src:
                        st[t] = st[src[0]]
                if isinstance(s, ast.Assign) and isinstance(s.targets[0], ast.Tuple) and isinstance(s.value, ast.Call) \
                        and call_is(s.value, "extract_1d_array", "extract_nd_array") and s.value.args and U(s.value.args[0]) in st:
                    first = s.targets[0].elts[0]
                    if isinstance(first, ast.Name):
                        st[first.id] = st[U(s.value.args[0])]
                for c in calls_in(s):
                    if any(call_is(c, k) for k in SINK_CALLS):
                        a = c.args[0] if c.args else kwarg(c, "data")
                        if a is not None and U(a) in st:
                            self.reached_sink += 1
                            if st[U(a)] != "TRANS":
                                self.problems.append(f"{chain}: the frequency kernel receives {st[U(a)]} coordinates")
                        continue
                    f = c.func
                    if not isinstance(f, ast.Attribute) or f.attr not in ENTRIES:
                        continue
                    # resolve the callee
                    if isinstance(f.value, ast.Call) and U(f.value.func) == "super":
                        r = self.m.resolve_method(cls, f.attr, after=fi.cls)
                    elif U(f.value) == "self":
                        r = self.m.resolve_method(cls, f.attr)
                    else:
                        continue
                    if r is None:
                        self.problems.append(f"{chain}: cannot resolve {U(f)}")
                        continue
                    callee = r[1]
                    cparams = [p for p in callee.params() if p != "self"]
                    pos = [a.arg for a in callee.node.args.posonlyargs + callee.node.args.args if a.arg != "self"]
                    # which argument carries the point?
                    carried = None
                    for i, a in enumerate(c.args):
                        if U(a) in st and i < len(pos):
                            carried = (pos[i], st[U(a)])
                        elif isinstance(a, ast.Subscript) and U(a.value) in st and i < len(pos):
                            carried = (pos[i], st[U(a.value)])
                    for k in c.keywords:
                        if k.arg and U(k.value) in st:
                            carried = (k.arg, st[U(k.value)])
                    if carried is None:
                        continue
                    # flag values seen by the callee
                    cflags = {}
                    ckw = {}
                    named = set(p for p in cparams if not p.startswith("*"))
                    explicit = {k.arg: k.value for k in c.keywords if k.arg}
                    forwarded = dict(kw_has) if any(k.arg is None and kwname and U(k.value) == kwname for k in c.keywords) else {}
                    allkw = dict(forwarded)
                    for k, v in explicit.items():
                        cv = const_value(v)
                        if isinstance(cv, bool):
                            allkw[k] = cv
                        elif isinstance(v, ast.Name) and v.id in flags:
                            allkw[k] = flags[v.id]
                        else:
                            allkw[k] = None
                    if "transformed" in named:
                        if "transformed" in allkw:
                            cflags["transformed"] = allkw["transformed"]
                        else:
                            d = callee.param_default("transformed")
                            cflags["transformed"] = const_value(d) if d is not None else None
                    if "axis" in named:
                        if "axis" in explicit or (len(c.args) > 1 and pos[:2][-1] == "axis"):
                            cflags["axis_is_none"] = None if "axis" in explicit and not isinstance(explicit["axis"], ast.Constant) else False
                            if "axis" in explicit and isinstance(explicit["axis"], ast.Name) and "axis_is_none" in flags:
                                cflags["axis_is_none"] = flags["axis_is_none"]
                        else:
                            cflags["axis_is_none"] = True
                    ckw = {k: v for k, v in allkw.items() if k not in named}
                    self.walk(cls, callee, carried[0], carried[1], cflags, ckw, depth + 1, chain)
            if not feasible:
                continue

    def truth(self, e, flags):
        t = U(e)
        if t == "transformed":
            return flags.get("transformed")
        if t == "not transformed":
            v = flags.get("transformed")
            return None if v is None else not v
        if t == "axis is None":
            return flags.get("axis_is_none")
        if t == "axis is not None":
            v = flags.get("axis_is_none")
            return None if v is None else not v
        if isinstance(e, ast.BoolOp):
            vals = [self.truth(v, flags) for v in e.values]
            if isinstance(e.op, ast.And):
                if any(v is False for v in vals):
                    return False
                return True if all(v is True for v in vals) else None
            if any(v is True for v in vals):
                return True
            return False if all(v is False for v in vals) else None
        if isinstance(e, ast.UnaryOp) and isinstance(e.op, ast.Not):
            v = self.truth(e.operand, flags)
            return None if v is None else not v
        return None


# ---- coordinate formulas -------------------------------------------------------------------------------------------

def _canon(e, env):
    """Canonical term of a coordinate expression over x, y, z."""
    e = env.get(U(e), e) if isinstance(e, ast.Name) else e
    if isinstance(e, tuple):
        return e
    if isinstance(e, ast.Subscript) and U(e.value) == "value":
        idx = U(e.slice)
        return {"(..., 0)": ("sym", "x"), "(..., 1)": ("sym", "y"), "(..., 2)": ("sym", "z")}.get(idx, ("?", U(e)))
    if isinstance(e, ast.Name):
        return ("?", f"unbound name {e.id}")     # x, y, z exist only once `x, y, z = value.T` has bound them (env)
    if isinstance(e, ast.Call) and call_is(e, "hypot") and len(e.args) == 2:
        parts = []
        for a in e.args:
            c = _canon(a, env)
            if c[0] == "hypot":
                parts += list(c[1])
            elif c[0] == "sym":
                parts.append(c[1])
            else:
                return ("?", U(e))
        return ("hypot", tuple(sorted(parts)))
    if isinstance(e, ast.Call) and call_is(e, "arctan2") and len(e.args) == 2:
        return ("atan2", _canon(e.args[0], env), _canon(e.args[1], env))
    if isinstance(e, ast.BinOp) and isinstance(e.op, ast.Mod):
        return ("mod", _canon(e.left, env), U(e.right).replace(" ", ""))
    return ("?", U(e))


TWO_PI = ("2*np.pi", "np.pi*2", "2*numpy.pi", "2.0*np.pi")


def _expected(axis, src_ndim):
    if axis == "r":
        return [("hypot", ("x", "y"))] if src_ndim == 2 else [("hypot", ("x", "y", "z"))]
    if axis == "rho":
        return [("hypot", ("x", "y"))]
    if axis == "phi":
        return [("mod", ("atan2", ("sym", "y"), ("sym", "x")), t) for t in TWO_PI]
    if axis == "theta":
        a = ("atan2", ("hypot", ("x", "y")), ("sym", "z"))
        return [a] + [("mod", a, t) for t in TWO_PI]
    if axis == "z":
        return [("sym", "z")]
    return []


def _formulas(ctx, m, cname):
    c = m.cls(cname)
    r = m.resolve_method(c, "_transform_correct_dimension")
    if r is None or r[0].name == "TransformedHistogramMixin":
        ctx.bad("C15.b", f"{cname}:formulas", "no _transform_correct_dimension", c.where)
        return
    fi = r[1]
    ctx.saw(fi)
    names = m.resolve_attr(c, "default_axis_names")
    sd = m.resolve_attr(c, "source_ndim")
    if names is None or sd is None:
        ctx.bad("C15.b", f"{cname}:formulas", "default_axis_names / source_ndim missing", c.where)
        return
    axes = [const_value(e) for e in names[1].elts]
    sdv = sd[1]
    srcs = [const_value(e) for e in sdv.elts] if isinstance(sdv, ast.Tuple) else [const_value(sdv)]
    base1d = m.is_subclass(c, "Histogram1D")
    ndim = 1 if base1d else None
    probs = []
    if base1d and len(axes) != 1:
        probs.append(f"{len(axes)} default axis names for a 1D class")
    for path in function_paths(fi.node):
        if end_kind(path) != "return":
            continue
        env = {}
        cols = {}
        alloc = None
        src = None
        for step in path:
            if step[0] == "cond":
                t = U(step[1])
                if t.startswith("value.shape[-1] =="):
                    n = const_value(step[1].comparators[0])
                    src = n if step[2] else [s for s in srcs if s != n][0] if len(srcs) == 2 else None
            if step[0] == "stmt" and isinstance(step[1], ast.Assign):
                t, v = step[1].targets[0], step[1].value
                if isinstance(t, ast.Tuple) and U(v) == "value.T":
                    for name, sym in zip([U(e) for e in t.elts], ("x", "y", "z")):
                        env[name] = ("sym", sym)
                elif isinstance(t, ast.Name) and t.id == "result":
                    alloc = v
                elif isinstance(t, ast.Name):
                    env[t.id] = _canon(v, env)
                elif isinstance(t, ast.Subscript) and U(t.value) == "result":
                    k = U(t.slice)
                    if k.startswith("(..., "):
                        cols[int(k[6:-1])] = _canon(v, env)
        if src is None:
            src = srcs[0]
        ret = path[-1][2].value
        if U(ret) != "result":
            cols = {0: _canon(ret, env)}
        else:
            # allocation width
            if alloc is None:
                probs.append("result array allocation not found")
            else:
                at = U(alloc)
                if at == "np.empty_like(value)":
                    width = src
                elif isinstance(alloc, ast.Call) and call_is(alloc, "ndarray", "empty", "zeros") and alloc.args and isinstance(alloc.args[0], ast.Tuple):
                    el = alloc.args[0].elts
                    width = const_value(el[-1])
                    lead = U(el[0]) if len(el) == 2 else None
                    if lead != "*value.shape[:-1]":
                        probs.append(f"result allocated with leading shape `{lead}` instead of *value.shape[:-1]")
                else:
                    width = None
                    probs.append(f"allocation `{at}` not understood")
                if width is not None and width != len(axes):
                    probs.append(f"result has {width} columns but the class declares {len(axes)} axes {axes}")
        if U(ret) == "result" and sorted(cols) != list(range(len(axes))):
            probs.append(f"columns {sorted(cols)} of the result are written, the class has axes 0..{len(axes) - 1}")
        if len(cols) != len(axes):
            probs.append(f"{len(cols)} coordinate column(s) computed for {len(axes)} axis names {axes} (source dimension {src})")
        for k, term in sorted(cols.items()):
            if k >= len(axes):
                continue
            exp = _expected(axes[k], src)
            if term not in exp:
                probs.append(f"axis '{axes[k]}' (source dim {src}) computed as {term}; expected {exp[0] if exp else '?'}")
    ctx.check(not probs, "C15.b", f"{cname}:formulas", f"columns {axes} match the statement's formulas (source dims {srcs})",
              " ; ".join(sorted(set(probs))[:4]), fi.where)


def run(ctx):
    m = ctx.model
    sh = m.module("special_histograms")

    # ---- C15.a -----------------------------------------------------------------------------------------------------
    ctx.rule("C15.a", "exactly one transform between a Cartesian point and the base lookup / kernel, none for transformed input, "
             "for every (class, entry, flag)", 42, exhaustive=True)
    for cname in CLASSES:
        cls = m.cls(cname)
        for entry, pname in ENTRIES.items():
            r = m.resolve_method(cls, entry)
            if r is None:
                raise AnalysisError(f"{cname}.{entry} does not resolve")
            ctx.saw(r[1])
            for flag in (False, True):
                ts = TS(m)
                flags = {"transformed": flag, "axis_is_none": True}
                ts.walk(cls, r[1], pname, "TRANS" if flag else "CART", flags, {})
                key = f"{cname}.{entry}(transformed={flag})"
                if ts.reached_sink == 0 and not ts.problems:
                    ctx.bad("C15.a", key, "the call chain never reaches the base lookup / frequency kernel", r[1].where)
                else:
                    ctx.check(not ts.problems, "C15.a", key, f"reaches the base lookup/kernel with TRANSFORMED coordinates ({ts.reached_sink} sink visit(s))",
                              " ; ".join(sorted(set(ts.problems))[:3]), r[1].where)

    # ---- C15.b -----------------------------------------------------------------------------------------------------
    ctx.rule("C15.b", "coordinate formulas and column count of every _transform_correct_dimension", 7)
    for cname in CLASSES:
        _formulas(ctx, m, cname)
    mix = m.cls("TransformedHistogramMixin")
    tr = mix.methods.get("transform")
    ctx.saw(tr)
    tt = U(tr.node)
    ctx.check("cls._validate_source_dimension(value)" in tt and "return cls._transform_correct_dimension(value)" in tt
              and tt.index("_validate_source_dimension") < tt.index("_transform_correct_dimension(value)"), "C15.b",
              "TransformedHistogramMixin.transform:validates", "source dimensionality validated before the formulas are applied",
              "transform no longer validates the source dimensionality first", tr.where)
    conv64 = [c for c in calls_in(tr.node) if call_is(c, "asarray", "array") and kwarg(c, "dtype") is not None and U(kwarg(c, "dtype")) in ("np.float64", "float", "'float64'")]
    uncond = any(isinstance(st, ast.Assign) and any(c in calls_in(st) for c in conv64) for st in tr.node.body)
    ctx.check(bool(conv64) and uncond, "C15.b", "TransformedHistogramMixin.transform:float64", "input converted to float64 unconditionally before the formulas",
              "transform no longer converts every input to float64 first: float32 points get coordinates of single precision and land in other bins "
              "than the same points entered through the facades", tr.where)
    for mname in ("find_bin", "fill", "fill_n"):
        wiring.wrapper_forwards(ctx, "C15.b", mix.methods[mname], consumed=("transformed",))
    vs = mix.methods.get("_validate_source_dimension")
    okv = any(end_kind(p) == "raise" and any(s[0] == "cond" and "value.shape[-1] not in source_ndims" in U(s[1]) and s[2] for s in p)
              for p in function_paths(vs.node))
    n_mr, off_mr = must_raise(vs.node, lambda e: "value.shape[-1] not in source_ndims" in U(e), when=True)
    okv = okv and n_mr >= 1 and not off_mr
    ctx.check(okv, "C15.b", "TransformedHistogramMixin._validate_source_dimension", "raises when the last dimension is not a declared source dimension",
              "inputs of the wrong dimensionality are no longer refused", vs.where)

    # ---- C15.c facades --------------------------------------------------------------------------------------------------
    ctx.rule("C15.c", "the seven facades: transform with their own class and flag, bin and count the transformed array, filter "
             "weights with the extraction mask, forward all kernel results; aliases", 20)
    FAC = {"polar": "PolarHistogram", "azimuthal": "AzimuthalHistogram", "radial": "RadialHistogram", "spherical": "SphericalHistogram",
           "spherical_surface": "SphericalSurfaceHistogram", "cylindrical": "CylindricalHistogram", "cylindrical_surface": "CylindricalSurfaceHistogram"}
    wiring.params_used(ctx, "C15.c", [f for f in sh.all_functions if not f.name.startswith("__")], "special_histograms:options-read")
    wiring.same_name_forwarding(ctx, "C15.c", m, [f for f in sh.all_functions if not f.name.startswith("__")], "special_histograms:options-forwarded")
    wiring.lossy_preallocation(ctx, "C15.c", [sh.functions[f] for f in FAC if f in sh.functions]
                               + [sh.functions[f] for f in ("extract_transformed_data",) if f in sh.functions], "facades:columns-promoted")
    for fname, kname in FAC.items():
        fi = sh.functions.get(fname)
        if fi is None:
            raise AnalysisError(f"facade {fname} not found")
        ctx.saw(fi)
        ex = [c for c in calls_in(fi.node) if call_is(c, "extract_transformed_data")]
        if len(ex) != 1:
            ctx.bad("C15.c", f"{fname}:extract", f"{len(ex)} calls of extract_transformed_data", fi.where)
            continue
        ex = ex[0]
        kl = kwarg(ex, "klass") or (ex.args[2] if len(ex.args) > 2 else None)
        ctx.check(kl is not None and U(kl) == kname, "C15.c", f"{fname}:klass", f"data transformed with {kname}.transform",
                  f"data are transformed with `{U(kl) if kl is not None else None}` but the facade builds a {kname}", fi.where)
        tf = kwarg(ex, "transformed") or (ex.args[1] if len(ex.args) > 1 else None)
        ctx.check(tf is not None and U(tf) == "transformed", "C15.c", f"{fname}:flag", "the caller's `transformed` flag is forwarded",
                  f"extract_transformed_data receives transformed={U(tf) if tf is not None else None}, not the facade's own flag "
                  "(already transformed input would be transformed again)", fi.where)
        dn = kwarg(ex, "dropna")
        ctx.check(dn is not None and U(dn) == "dropna", "C15.c", f"{fname}:dropna", "the caller's dropna decides whether NaN points are dropped at extraction",
                  f"extract_transformed_data receives dropna={U(dn) if dn is not None else 'its default'}, not the facade's own option", fi.where)
        cn = [kwarg(c, "check_nan") for c in calls_in(fi.node) if call_is(c, "calculate_nd_bins", "calculate_1d_bins")]
        ctx.check(bool(cn) and all(x is not None and U(x) == "not dropna" for x in cn), "C15.c", f"{fname}:check_nan", "bins are computed with check_nan = not dropna",
                  f"the NaN check of the bin calculation is {[U(x) if x is not None else None for x in cn]}, not `not dropna`", fi.where)
        # an integer bin count for an angular axis becomes that many equal bins over the axis' range: linspace(*range, n + 1)
        for ls in [c for c in calls_in(fi.node) if call_is(c, "linspace")]:
            tgt = [U(n_.targets[0]) for n_ in ast.walk(fi.node) if isinstance(n_, ast.Assign) and n_.value is ls]
            okl = len(ls.args) == 2 and isinstance(ls.args[0], ast.Starred) and tgt and U(ls.args[1]) == f"{tgt[0]} + 1"
            guard = [n_ for n_ in ast.walk(fi.node) if isinstance(n_, ast.If) and any(isinstance(b, ast.Assign) and b.value is ls for b in n_.body)]
            okg = bool(guard) and tgt and U(guard[0].test) == f"isinstance({tgt[0]}, int)"
            ctx.check(bool(okl and okg), "C15.c", f"{fname}:int-bins:{tgt[0] if tgt else '?'}", "isinstance(b, int): b = linspace(*range, b + 1)",
                      f"`{U(ls)[:60]}` under `{U(guard[0].test) if guard else None}`: an integer bin count must give n bins (n + 1 edges) over the range, "
                      "for integers only", fi.where)
        # def-use: transformed array -> bins and kernel; weights through extract_weights(mask)
        verdict = {"bins": None, "kernel": None, "weights": None, "class": None}
        for path in function_paths(fi.node):
            if end_kind(path) != "return" or not consistent(path):
                continue
            env = Env()
            for step in path:
                if step[0] == "stmt":
                    for c in calls_in(step[1]):
                        nm = U(c.func)
                        if call_is(c, "calculate_nd_bins", "calculate_1d_bins") and c.args:
                            d = env.resolve(c.args[0])
                            ok = isinstance(d, TupleItem) and d.index == 0 and d.value is ex
                            verdict["bins"] = ok if verdict["bins"] is None else (verdict["bins"] and ok)
                        if call_is(c, "from_calculate_frequencies", "calculate_nd_frequencies"):
                            a = c.args[0] if c.args else kwarg(c, "data")
                            d = env.resolve(a) if a is not None else None
                            ok = isinstance(d, TupleItem) and d.index == 0 and d.value is ex
                            verdict["kernel"] = ok if verdict["kernel"] is None else (verdict["kernel"] and ok)
                            w = kwarg(c, "weights")
                            wd = env.resolve(w) if w is not None else None
                            okw = False
                            if isinstance(wd, ast.Call) and call_is(wd, "extract_weights"):
                                mk = kwarg(wd, "array_mask")
                                md = env.resolve(mk) if mk is not None else None
                                okw = isinstance(md, TupleItem) and md.index == 1 and md.value is ex
                            verdict["weights"] = okw if verdict["weights"] is None else (verdict["weights"] and okw)
                            if call_is(c, "from_calculate_frequencies"):
                                verdict["class"] = U(c.func.value) == kname
                        if nm == kname:
                            f_, e_, m_ = (kwarg(c, k) for k in ("frequencies", "errors2", "missed"))
                            res = [env.resolve(x) if x is not None else None for x in (f_, e_, m_)]
                            verdict["class"] = all(isinstance(r_, TupleItem) and r_.index == i and isinstance(r_.value, ast.Call)
                                                   and call_is(r_.value, "calculate_nd_frequencies") for i, r_ in enumerate(res))
                env.step(step)
        msgs = {"bins": "bins are computed from the transformed array", "kernel": "the transformed array is what gets counted",
                "weights": "weights pass through extract_weights(array_mask=<mask of the extraction>)",
                "class": f"built by {kname}.from_calculate_frequencies (or with all kernel results forwarded)"}
        for k, v in verdict.items():
            ctx.check(v is True, "C15.c", f"{fname}:{k}", msgs[k], f"{fname}(): NOT({msgs[k]})", fi.where)
    # radial / azimuthal take their input either as separate Cartesian coordinates or, with transformed=True, as ONE array
    for fname in ("azimuthal", "radial"):
        fi = sh.functions[fname]
        ex = [c for c in calls_in(fi.node) if call_is(c, "extract_transformed_data")][0]
        res = {True: set(), False: set()}
        for path in function_paths(fi.node):
            if end_kind(path) != "return" or not consistent(path):
                continue
            cs = dict((U(s_[1]), s_[2]) for s_ in path if s_[0] == "cond")
            if "transformed" not in cs:
                continue
            env = Env()
            for s_ in path:
                if s_[0] == "stmt" and any(c is ex for c in calls_in(s_[1])):
                    break
                env.step(s_)
            res[cs["transformed"]].add(U(env.expand(ex.args[0], keep={"xdata", "ydata", "zdata"})))
        okt = bool(res[True]) and all("concatenate" not in t and "ydata" not in t and "zdata" not in t and "xdata" in t for t in res[True])
        okf = bool(res[False]) and all(("concatenate" in t and t.index("xdata") < t.index("ydata")) or t in ("xdata", "np.asarray(xdata)") for t in res[False]) \
            and any("concatenate" in t for t in res[False])
        ctx.check(okt and okf, "C15.c", f"{fname}:input-assembly", "transformed: the single array itself; otherwise the coordinates stacked as columns (x, y[, z])",
                  f"data handed to the extraction: transformed -> {sorted(res[True])[:2]}, Cartesian -> {[t[:70] for t in sorted(res[False])][:2]}", fi.where)
        n_mr, off_mr = must_raise(fi.node, lambda e: "ydata is not None" in U(e) and "xdata" not in U(e), when=True)
        ctx.check(n_mr >= 1 and not off_mr, "C15.c", f"{fname}:extra-coordinates-refused", "extra positional coordinates with transformed / 3-column input are refused",
                  "; ".join(off_mr[:2]) or "no such refusal", fi.where)
    for alias, val in sh.assigns.items():
        if isinstance(val, ast.Call) and call_is(val, "deprecation_alias") and len(val.args) == 2:
            target, name = U(val.args[0]), const_value(val.args[1])
            ctx.check(name == alias and name == target + "_histogram", "C15.c", f"alias:{alias}", f"{alias} -> {target}",
                      f"deprecated name `{alias}` is an alias of `{target}` (announced as '{name}')", sh.relpath)
    etd = sh.functions.get("extract_transformed_data")
    ctx.saw(etd)
    okx = False
    for p in function_paths(etd.node):
        cs = [(U(s[1]), s[2]) for s in p if s[0] == "cond"]
        sts = [U(s[1]) for s in p if s[0] == "stmt"]
        if ("transformed", False) in cs and "array = klass.transform(array)" in sts:
            okx = True
        if ("transformed", True) in cs and any("transform(" in t for t in sts):
            okx = False
    ctx.check(okx, "C15.c", "extract_transformed_data", "klass.transform applied exactly when not transformed",
              "extract_transformed_data does not transform exactly when `transformed` is false", etd.where)

    # ---- C15.d projections ------------------------------------------------------------------------------------------------
    ctx.rule("C15.d", "projection class maps are well typed; the mixin sorts the resolved axes before the lookup; the "
             "cylinder-surface projection takes its radius from the last rho edge", 7)
    from rules import c09
    c09.check_class_maps(ctx, "C15.d", m)

    # facade (kernel) and fill / find_bin (base lookup) agree on the interval convention (shared with C03.c)
    ctx.rule("C15.e", "base lookups of transformed coordinates follow the kernel's interval convention", 8)
    from rules import conventions as conv
    conv.check_find_bin_1d(ctx, "C15.e", m.cls("Histogram1D").methods["find_bin"])
    conv.check_find_bin_nd(ctx, "C15.e", m.cls("HistogramND").methods["find_bin"])
    # transformed histograms are filled through the base classes' fill: every (lookup result, keep_missed) case (shared with C03.a)
    ctx.borrow("C03", ("HistogramND.fill:case(", "Histogram1D.fill:case(", "Histogram1D.fill:missed-writes-guarded"), "C15.e", floor=8)
    ctx.borrow("C16", ("PolarHistogram.bin_sizes", "CylindricalHistogram.bin_sizes", "RadialHistogram.bin_sizes"), "C15.b", floor=2)
