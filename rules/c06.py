"""C06 - scaling, division and normalisation are exactly linear."""
from __future__ import annotations

import ast
from fractions import Fraction

from sa.model import AnalysisError, calls_in
from sa.paths import function_paths, end_kind, consistent
from sa.symbolic import Poly, to_poly
from sa.util import U, writes_of, Env, call_is

EXPLANATION = (
    "C06: homogeneity-degree analysis. At every scaling site (__imul__, __itruediv__ scalar and array branches, "
    "Statistics.__mul__, partial_normalize, normalize_bins) the expression stored into a field is put into a "
    "monomial normal form field * factor^k and k must be sign * degree(field) with degree(frequencies)=1, "
    "errors2=2, missed=1, statistics sum/sum2/weight=1, min/max/median=0, all fields on a path using the same sign; "
    "both branches of normalize() scale by the same constant 1/total (100/total for percent); the copying operators "
    "apply the in-place ones to a copy and c*h is h*c; histogram operands are refused first, reflected division / "
    "power are not defined, contents go through the validating setter; the scalar test of Statistics.__mul__ is the "
    "one the histogram operators branch on."
)
NOT_DECIDED = "floating-point equality such as (h*c)/c == h or total == 1; division by a zero total."
TRUSTED = ["numpy elementwise arithmetic on arrays of equal shape"]

DEG = {"frequencies": 1, "_frequencies": 1, "errors2": 2, "_errors2": 2, "_missed": 1, "_stats": 1}
CANON = {"frequencies": "frequencies", "_frequencies": "frequencies", "errors2": "errors2", "_errors2": "errors2",
         "_missed": "missed", "_stats": "stats"}
WRAP = ("np.asarray", "float", "np.float64", "np.atleast_1d", "np.atleast_2d", "abs")


def _scale_of(st, recv, factors, env):
    """For a store / aug-assign to recv.<field>: (field, Poly in symbols F and c) or (field, None)."""
    if isinstance(st, ast.Assign) and len(st.targets) == 1:
        tgt, rhs, op = st.targets[0], st.value, None
    elif isinstance(st, ast.AugAssign):
        tgt, rhs, op = st.target, st.value, st.op
    else:
        return None
    if not (isinstance(tgt, ast.Attribute) and U(tgt.value) == recv and tgt.attr in DEG):
        return None
    fld = CANON[tgt.attr]
    same = {k for k, v in CANON.items() if v == fld}

    def leaf(n):
        if isinstance(n, ast.Attribute) and U(n.value) == recv and n.attr in same:
            return Poly.sym("F")
        if isinstance(n, ast.Call) and U(n.func) == "cast" and len(n.args) == 2:
            return to_poly(n.args[1], leaf, WRAP)
        if isinstance(n, ast.Name):
            if n.id in factors:
                return Poly.sym("c")
            d = env.resolve(n)
            if d is not n and not isinstance(d, ast.Name):
                return to_poly(d, leaf, WRAP)
            if isinstance(d, ast.Name) and d.id in factors:
                return Poly.sym("c")
        if U(n) in ("np.nan", "numpy.nan"):
            return Poly.sym("NAN")
        return None

    p = to_poly(rhs, leaf, WRAP)
    if p is None:
        return fld, None, U(st)
    if op is not None:
        F = Poly.sym("F")
        if isinstance(op, ast.Mult):
            p = F * p
        elif isinstance(op, ast.Div):
            p = F / p if p.inv() is not None else None
        else:
            p = None
    return fld, p, U(st)


def _check_site(ctx, fi, recv, factors, sel, need, label, stats_optional=True, floor=1):
    """Every selected storing path: all scaled fields use factor^(sign*deg) with one sign."""
    ctx.saw(fi)
    npaths = 0
    problems = []
    summary = set()
    for path in function_paths(fi.node):
        if not consistent(path) or end_kind(path) == "raise" or not sel(path):
            continue
        env = Env()
        got = {}
        for step in path:
            if step[0] == "stmt":
                r = _scale_of(step[1], recv, factors, env)
                if r:
                    got.setdefault(r[0], []).append((r[1], r[2]))
            env.step(step)
        if "frequencies" not in got:
            continue
        npaths += 1
        sign = None
        for fld, items in got.items():
            for p, txt in items:
                if fld == "stats" and "INVALID_STATISTICS" in txt:
                    summary.add("stats=INVALID")
                    continue
                if p is None:
                    problems.append(f"`{txt[:70]}` is not a product/quotient of the field and the factor")
                    continue
                cm = p.coeff_monomial()
                if cm is None:
                    problems.append(f"`{txt[:70]}` is not a monomial in the factor")
                    continue
                coef, mono = cm
                if "NAN" in mono:
                    summary.add(f"{fld}=nan")
                    continue
                if mono.get("F", 0) != 1 or coef != 1 or set(mono) - {"F", "c"}:
                    problems.append(f"`{txt[:70]}` normalises to {p} - not field * factor^k")
                    continue
                k = mono.get("c", Fraction(0))
                d = DEG["_" + fld if fld in ("missed", "stats") else fld]
                if k == 0 or abs(k) != d:
                    problems.append(f"`{txt[:70]}` scales {fld} by factor^{k}; {fld} has degree {d} in the weights "
                                    f"so it must be factor^{'+-'}{d}")
                    continue
                s = 1 if k > 0 else -1
                if sign is None:
                    sign = s
                elif s != sign:
                    problems.append(f"`{txt[:70]}` scales {fld} in the opposite direction to the other fields")
                summary.add(f"{fld}~c^{k}")
        for fld in need:
            if fld not in got:
                if fld == "stats" and stats_optional and any(s[0] == "cond" and "hasattr(self, '_stats')" in U(s[1]) and not s[2] for s in path):
                    continue
                problems.append(f"{fld} is not rescaled on a path that rescales the frequencies")
    key = f"{fi.qualname}:{label}"
    if npaths < floor:
        ctx.bad("C06.a", key, f"no scaling path found for this site ({npaths} < {floor})", fi.where)
    elif problems:
        ctx.bad("C06.a", key, " ; ".join(sorted(set(problems))[:4]), fi.where)
    else:
        ctx.ok("C06.a", key, f"{npaths} path(s): " + ", ".join(sorted(summary)), fi.where)


def _cond(path, text, value=True):
    return any(s[0] == "cond" and U(s[1]) == text and s[2] == value for s in path)


def check_stats_mul(ctx, rule, m):
    # Statistics.__mul__
    S = m.cls("Statistics")
    sm = S.methods.get("__mul__")
    if sm is None:
        raise AnalysisError("Statistics.__mul__ not found")
    ctx.saw(sm)
    o = [p for p in sm.params() if p != "self"][0]
    want = {"sum": 1, "sum2": 1, "weight": 1, "min": 0, "max": 0, "median": 0}
    fields = [a for a in want]
    found = False
    for path in function_paths(sm.node):
        if end_kind(path) != "return":
            continue
        env = Env()
        for s in path:
            env.step(s)
        ret = path[-1][2].value
        if isinstance(ret, ast.Call) and call_is(ret, "replace") and ret.args and U(ret.args[0]) == "self":
            found = True
            probs = []
            kws = {k.arg: k.value for k in ret.keywords}
            for f in fields:
                if f not in kws:
                    k = Fraction(0)
                else:
                    def leaf(n, f=f):
                        if isinstance(n, ast.Attribute) and U(n.value) == "self" and n.attr == f:
                            return Poly.sym("F")
                        if isinstance(n, ast.Call) and U(n.func) == "cast" and len(n.args) == 2:
                            return to_poly(n.args[1], leaf, WRAP)
                        if isinstance(n, ast.Name):
                            if n.id == o:
                                return Poly.sym("c")
                            d = env.resolve(n)
                            if d is not n:
                                return to_poly(d, leaf, WRAP)
                        return None
                    p = to_poly(kws[f], leaf, WRAP)
                    cm = p.coeff_monomial() if p is not None else None
                    if cm is None or cm[0] != 1 or cm[1].get("F", 0) != 1:
                        probs.append(f"{f}={U(kws[f])} is not {f} * factor^k")
                        continue
                    k = cm[1].get("c", Fraction(0))
                if k != want[f]:
                    probs.append(f"{f} is scaled by factor^{k}, but it is of degree {want[f]} in the weights "
                                 f"(mean and variance must be invariant, the weight must scale by c)")
            ctx.check(not probs, rule, "Statistics.__mul__:degrees", "sum, sum2, weight ~ c^1; min, max, median unchanged",
                      " ; ".join(probs), sm.where)
        elif isinstance(ret, ast.Call) and U(ret.func) == "Statistics":
            found = True
            ctx.bad(rule, "Statistics.__mul__:degrees", "result built field by field (not analysed): use dataclasses.replace", sm.where)
    if not found:
        ctx.bad(rule, "Statistics.__mul__:degrees", "no `dataclasses.replace(self, ...)` result found", sm.where)



def run(ctx):
    m = ctx.model
    HB, H2, HC = m.cls("HistogramBase"), m.cls("Histogram2D"), m.cls("HistogramCollection")
    ctx.rule("C06.a", "every store at a scaling site multiplies a field of weight-degree d by factor^(+-d), one sign per path", 7)
    for name in ("__imul__", "__itruediv__"):
        fi = HB.methods.get(name)
        if fi is None:
            raise AnalysisError(f"HistogramBase.{name} not found")
        o = [p for p in fi.params() if p != "self"][0]
        _check_site(ctx, fi, "self", {o}, lambda p, o=o: _cond(p, f"np.isscalar({o})"), ["frequencies", "errors2", "missed", "stats"], "scalar")
        _check_site(ctx, fi, "self", {o}, lambda p, o=o: _cond(p, f"np.isscalar({o})", False), ["frequencies", "errors2", "missed", "stats"], "array")
    pn = H2.methods.get("partial_normalize")
    _check_site(ctx, pn, "self", {"divisor"}, lambda p: True, ["frequencies", "errors2"], "rows/columns")
    from rules import wiring
    wiring.axis_resolved(ctx, "C06.a", pn)
    # the divisor of partial_normalize is the sum of the CONTENTS along the other axis (kept broadcastable), zeros replaced by 1
    dv = {}
    for p_ in function_paths(pn.node):
        cs_ = dict((U(s_[1]), s_[2]) for s_ in p_ if s_[0] == "cond")
        if "axis == 0" in cs_ and end_kind(p_) != "raise":
            d_ = [U(s_[1].value) for s_ in p_ if s_[0] == "stmt" and isinstance(s_[1], ast.Assign) and U(s_[1].targets[0]) == "divisor"]
            dv[cs_["axis == 0"]] = d_[0] if d_ else None
    okdv = dv == {True: "np.atleast_1d(self._frequencies.sum(axis=0))", False: "np.atleast_2d(self._frequencies.sum(axis=1)[:, np.newaxis])"}
    ctx.check(okdv and "divisor[divisor == 0] = 1" in U(pn.node), "C06.a", "Histogram2D.partial_normalize:divisor",
              "axis 0: column sums of the frequencies; axis 1: row sums as a column; empty rows / columns divide by 1",
              f"divisor per `axis == 0` decision: {dv}", pn.where)
    nb = HC.methods.get("normalize_bins")
    lv = [n.target.id for n in ast.walk(nb.node) if isinstance(n, ast.For) and isinstance(n.target, ast.Name)]
    if not lv:
        raise AnalysisError("normalize_bins: member loop not found")
    _check_site(ctx, nb, lv[0], {"sums"}, lambda p: True, ["frequencies", "errors2"], "per-bin")
    # ... and the divisor is the per-bin sum over the members, not a clipped / shifted / partial version of it
    defs = [n.value for n in ast.walk(nb.node) if isinstance(n, ast.Assign) and U(n.targets[0]) == "sums"]
    accepted = {"self.sum().frequencies", "col.sum().frequencies", "self.sum()._frequencies", "col.sum()._frequencies",
                "sum(self.histograms).frequencies", "sum(col.histograms).frequencies"}
    ctx.check(len(defs) == 1 and U(defs[0]) in accepted, "C06.a", "HistogramCollection.normalize_bins:divisor",
              "sums = frequencies of the sum of all members",
              f"the per-bin divisor is `{U(defs[0]) if defs else None}`, not the plain per-bin sum over all members "
              "(the members' shares of a bin no longer add up to 1)", nb.where)

    # both collection normalisations work on `self` in place or on a copy, and return it; normalize_all normalises every member
    for nm in ("normalize_bins", "normalize_all"):
        f_ = HC.methods[nm]
        t_ = U(f_.node)
        # per decision on `inplace`, what `col` is bound to (conditional-expression and if/else forms are one normal form)
        bound = {}
        for p_ in function_paths(f_.node):
            dec = [s_[2] for s_ in p_ if s_[0] == "cond" and U(s_[1]) == "inplace"]
            for s_ in p_:
                if s_[0] == "stmt" and isinstance(s_[1], ast.Assign) and U(s_[1].targets[0]) == "col" and dec:
                    bound.setdefault(dec[0], set()).add(U(s_[1].value))
        sel = bound == {True: {"self"}, False: {"self.copy()"}}
        rets_ = [U(n.value) for n in ast.walk(f_.node) if isinstance(n, ast.Return)]
        lp_ = [n for n in ast.walk(f_.node) if isinstance(n, ast.For) and U(n.iter) == "col.histograms"]
        okm = bool(lp_) and (nm != "normalize_all" or any(isinstance(b, ast.Expr) and U(b.value) == f"{U(lp_[0].target)}.normalize(inplace=True)" for b in lp_[0].body))
        ctx.check(sel and rets_ == ["col"] and okm, "C06.a", f"HistogramCollection.{nm}:target",
                  "col = self if inplace else self.copy(); every member of col rescaled in place; col returned",
                  f"{nm}: selects its target with `col = self if inplace else self.copy()`: {sel}; returns {rets_}; member loop ok: {okm}", f_.where)
    check_stats_mul(ctx, "C06.a", m)
    sm = m.cls("Statistics").methods.get("__mul__")

    # ---- C06.b normalisation constant ----------------------------------------------------------------
    ctx.rule("C06.b", "normalize(): in-place and copying branch scale by the same k/total for the same `percent`", 2)
    nzf = HB.methods["normalize"]
    n_r, lazy = 0, []
    for p_ in function_paths(nzf.node):
        if end_kind(p_) != "return":
            continue
        n_r += 1
        scaled = any(s_[0] == "stmt" and isinstance(s_[1], ast.AugAssign) and U(s_[1].target) == "self" and isinstance(s_[1].op, ast.Div) for s_ in p_) \
            or (isinstance(p_[-1][2].value, ast.BinOp) and "self.total" in U(p_[-1][2].value))
        if not scaled:
            lazy.append(" & ".join(f"{U(s_[1])}={s_[2]}" for s_ in p_ if s_[0] == "cond")[:80])
    ctx.check(n_r >= 2 and not lazy, "C06.b", "HistogramBase.normalize:every-path-rescales", f"all {n_r} returning paths divide by the total",
              f"normalize() returns without rescaling when {lazy[:2]} (percent is then ignored)", nzf.where)
    nz = HB.methods.get("normalize")
    ctx.saw(nz)

    def scale(expr, percent, aug_div):
        def leaf(n):
            if U(n) == "self":
                return Poly.sym("H")
            if U(n) in ("self.total",):
                return Poly.sym("T")
            if isinstance(n, ast.IfExp) and U(n.test) == "percent":
                return to_poly(n.body if percent else n.orelse, leaf)
            return None
        p = to_poly(expr, leaf)
        if p is None:
            return None
        if aug_div:
            inv = p.inv()
            return None if inv is None else Poly.sym("H") * inv
        return p
    res = {}
    for path in function_paths(nz.node):
        inplace = _cond(path, "inplace")
        for step in path:
            if step[0] == "stmt":
                st = step[1]
                if isinstance(st, ast.AugAssign) and U(st.target) == "self" and isinstance(st.op, ast.Div):
                    for pc in (True, False):
                        res[("inplace", pc)] = scale(st.value, pc, True)
                if isinstance(st, ast.Return) and st.value is not None and U(st.value) != "self":
                    for pc in (True, False):
                        res[("copy", pc)] = scale(st.value, pc, False)
    for pc in (True, False):
        a, b = res.get(("inplace", pc)), res.get(("copy", pc))
        want = Poly.sym("H") * Poly.sym("T").inv() * Poly.const(100 if pc else 1)
        ctx.check(a is not None and a == b == want, "C06.b", f"HistogramBase.normalize:percent={pc}",
                  f"both branches scale by {want}", f"in-place branch scales by {a}, copying branch by {b}, expected {want}", nz.where)

    # ---- C06.c / C06.d -----------------------------------------------------------------------------------
    ctx.rule("C06.c", "copying operators = in-place operator on self.copy(); c*h is h*c", 3)
    for name, op in (("__mul__", ast.Mult), ("__truediv__", ast.Div)):
        fi = HB.methods[name]
        ctx.saw(fi)
        o = [p for p in fi.params() if p != "self"][0]
        ok = False
        for path in function_paths(fi.node):
            env = Env()
            var = None
            aug = False
            for step in path:
                if step[0] == "stmt":
                    st = step[1]
                    if isinstance(st, ast.Assign) and U(st.value) == "self.copy()" and isinstance(st.targets[0], ast.Name):
                        var = st.targets[0].id
                    if isinstance(st, ast.AugAssign) and var and U(st.target) == var and isinstance(st.op, op) and U(st.value) == o:
                        aug = True
                    if isinstance(st, ast.Return) and var and aug and U(st.value) == var:
                        ok = True
        ctx.check(ok, "C06.c", f"HistogramBase.{name}", "new = self.copy(); new op= other; return new",
                  f"{name} is not `copy, in-place operator, return the copy`", fi.where)
    rm = HB.methods["__rmul__"]
    rets = [n for n in ast.walk(rm.node) if isinstance(n, ast.Return)]
    o = [p for p in rm.params() if p != "self"][0]
    ctx.check(len(rets) == 1 and U(rets[0].value) in (f"self * {o}", f"self.__mul__({o})"), "C06.c", "HistogramBase.__rmul__",
              "c * h evaluates h * c", "__rmul__ is not `return self * other`", rm.where)

    # the operand is left untouched: ownership analysis of the copying operators and of copy() itself (shared with C12)
    from rules import c12
    for spec in [x for x in c12.OPS if x[2] in ("__mul__", "__rmul__", "__truediv__", "normalize", "copy") and x[1] != "HistogramCollection"]:
        c12.check_op(ctx, m, "C06.c", "C06.c", *spec)

    c12.check_copy_contents(ctx, "C06.c", m)
    from rules import c13
    c13.check_operator_coercion(ctx, "C06.c", m)
    # ... and the coercion the division relies on converts frequencies, errors2 AND the missed store (in-place `/=` on an
    # integer missed store raises), after checking both arrays
    c13.check_arrays_follow_dtype(ctx, "C06.c", m)
    c13.check_set_dtype_checks(ctx, "C06.c", m)

    ctx.rule("C06.d", "histogram operands refused first; no reflected division / power operators; contents via setters", 4)
    for name in ("__imul__", "__itruediv__"):
        fi = HB.methods[name]
        o = [p for p in fi.params() if p != "self"][0]
        okp = 0
        bad = 0
        for path in function_paths(fi.node):
            if _cond(path, f"isinstance({o}, HistogramBase)"):
                if end_kind(path) == "raise" and "TypeError" in U(path[-1][2]) and not any(
                        w.root == "self" for s in path if s[0] == "stmt" for w in writes_of(s[1])):
                    okp += 1
                else:
                    bad += 1
        ctx.check(okp >= 1 and bad == 0, "C06.d", f"HistogramBase.{name}:histogram-operand-refused",
                  "isinstance(other, HistogramBase) -> TypeError before anything is written",
                  "a histogram operand is not refused with TypeError on every path", fi.where)
        direct = [w for st in ast.walk(fi.node) if isinstance(st, ast.stmt) for w in writes_of(st)
                  if w.root == "self" and w.attr in ("_frequencies", "_errors2") and w.how in ("store", "aug")]
        ctx.check(not direct, "C06.d", f"HistogramBase.{name}:through-setters", "contents and errors stored through the validating setters",
                  f"`{U(direct[0].stmt)[:70]}` bypasses the validating setter (negative factors are no longer refused)" if direct else "",
                  fi.where)
    forbidden = ["__rtruediv__", "__rfloordiv__", "__pow__", "__rpow__", "__floordiv__", "__ifloordiv__", "__ipow__", "__matmul__"]
    defs = [f"{c.name}.{n}" for c in m.classes.values() if m.is_subclass(c, "HistogramBase") for n in forbidden if n in c.methods]
    ctx.check(not defs, "C06.d", "hierarchy:no-reflected-division-or-power", "scalar / histogram and powers stay undefined (TypeError by Python)",
              f"operators defined that the statement says are refused: {defs}", HB.where)

    from rules import c14
    c14.check_variance_domain(ctx, "C06.a", m)    # rescaled statistics keep their variance: defined for every positive weight

    # ---- C06.e sibling agreement on the scalar test --------------------------------------------------------
    ctx.rule("C06.e", "Statistics.__mul__ accepts exactly the scalars the histogram operators route to it (np.isscalar)", 3)
    preds = {}
    for owner, fi in (("HistogramBase.__imul__", HB.methods["__imul__"]), ("HistogramBase.__itruediv__", HB.methods["__itruediv__"]),
                      ("Statistics.__mul__", sm)):
        o = [p for p in fi.params() if p != "self"][0]
        tests = set()
        for n in ast.walk(fi.node):
            if isinstance(n, (ast.If,)):
                t = n.test
                tt = t.operand if isinstance(t, ast.UnaryOp) and isinstance(t.op, ast.Not) else t
                if isinstance(tt, ast.Call) and tt.args and U(tt.args[0]) == o and "HistogramBase" not in U(tt):
                    tests.add(U(tt).replace(o, "<operand>"))
        preds[owner] = tests
    for owner, tests in preds.items():
        ctx.check(tests == {"np.isscalar(<operand>)"}, "C06.e", f"{owner}:scalar-test", "branches on np.isscalar(operand)",
                  f"scalar test is {sorted(tests)}; the histogram operators and Statistics.__mul__ must agree on np.isscalar "
                  "(numpy scalars such as np.int64 are scalars too)", (sm if owner.startswith("Stat") else HB.methods[owner.split('.')[1]]).where)

    # shared with C18.b: the validating setters refuse before they store (a refused negative scaling leaves nothing behind)
    ctx.borrow("C18", ("HistogramBase.frequencies.setter", "HistogramBase.errors2.setter"), "C06.d", floor=4)
    ctx.borrow("C05", ("HistogramCollection.sum",), "C06.a", floor=2)
    # a scaling site must not change contents before something it still reads / may refuse (shared with C18.a)
    ctx.borrow("C18", ("HistogramCollection:HistogramCollection.normalize_bins", "Histogram1D:HistogramBase.__imul__", "Histogram1D:HistogramBase.__itruediv__"), "C06.a", floor=0)
