"""C10 - merge_bins conserves content and bin boundaries."""
from __future__ import annotations

import ast

from sa.model import AnalysisError, calls_in, kwarg
from sa.paths import function_paths, end_kind, consistent, must_raise
from sa.util import U, writes_of, Env, call_is

EXPLANATION = (
    "C10: merge_bins hands one and the same bin map and axis to the binning (apply_bin_map) and to the contents "
    "(_change_binning -> _reshape_data -> _apply_bin_map); the contents transfer adds old slices into zero arrays "
    "with statements for frequencies and errors2 that are identical up to the array names, on the given axis only; "
    "the map is (i, i // amount) over all bins or, for min_frequency, appended once per bin with a target index that "
    "starts at 0 and only ever grows by 1; apply_bin_map keeps the first left and last right edge of each run, "
    "refuses a run whose bins do not touch (edge != edge) and an incomplete map; the refusals (non-integral amount, "
    "gap, incomplete) all precede the change; the missed store is not touched; generator maps are consumed once."
)
NOT_DECIDED = "the floating-point edge comparison itself (exact != on stored edges)."
TRUSTED = ["numpy slice assignment / += on disjoint target slices"]


def sibling_transfer(ctx, rule, fi, key_prefix):
    """_apply_bin_map: every statement that moves frequencies has an identical twin for errors2."""
    ctx.saw(fi)
    augs = [n for n in ast.walk(fi.node) if isinstance(n, ast.AugAssign)]
    f_st = [a for a in augs if "new_frequencies" in U(a.target)]
    e_st = [a for a in augs if "new_errors2" in U(a.target)]
    problems = []
    if len(f_st) < 2 or len(e_st) != len(f_st):
        problems.append(f"{len(f_st)} transfers into new_frequencies but {len(e_st)} into new_errors2")
    etexts = {U(e) for e in e_st}
    for a in f_st:
        twin = U(a).replace("new_frequencies", "new_errors2").replace("old_frequencies", "old_errors2")
        if twin not in etexts:
            problems.append(f"`{U(a)[:70]}` has no identical statement for errors2 (expected `{twin[:70]}`)")
        if not isinstance(a.op, ast.Add):
            problems.append(f"`{U(a)[:60]}` does not add into the (zero-initialised) target")
    for e in e_st:
        if "old_errors2" not in U(e.value) or "frequencies" in U(e.value):
            problems.append(f"`{U(e)[:70]}` fills the new squared errors from something other than old_errors2")
        if not isinstance(e.op, ast.Add):
            problems.append(f"`{U(e)[:60]}` does not add into the target")
    ctx.check(not problems, rule, f"{key_prefix}:frequencies-errors2-twins",
              f"{len(f_st)} transfer statement pairs, identical up to the array names, all +=", " ; ".join(sorted(set(problems))[:3]), fi.where)
    guards = [n.test for n in ast.walk(fi.node) if isinstance(n, (ast.If, ast.While))]
    value_dep = [U(g)[:70] for g in guards if any(isinstance(c, ast.Call) and (U(c.func).split(".")[-1] in ("any", "all", "sum", "count_nonzero", "max", "min"))
                                                   for c in ast.walk(g))]
    ctx.check(not value_dep, rule, f"{key_prefix}:guards-shape-only", "the transfer is skipped only for missing / empty arrays (shape tests), never depending on the contents",
              f"a guard of the transfer depends on the bin contents: {value_dep} - e.g. all-zero frequencies would skip moving the (non-zero) errors", fi.where)
    # index construction: only position `axis` differs from slice(None)
    okidx = True
    for n in ast.walk(fi.node):
        if isinstance(n, ast.Assign) and isinstance(n.targets[0], ast.Subscript) and U(n.targets[0].value) in ("new_index", "old_index"):
            if U(n.targets[0].slice) != "axis":
                okidx = False
    ctx.check(okidx, rule, f"{key_prefix}:axis-only", "index lists differ from slice(None) only at position `axis`",
              "an index other than [axis] is set in the transfer", fi.where)
    # integer (shift) branch
    shift = [n for n in ast.walk(fi.node) if isinstance(n, ast.Assign) and U(n.targets[0]) == "new_index[axis]" and isinstance(n.value, ast.Call)
             and U(n.value.func) == "slice"]
    oks = any([U(a) for a in n.value.args] == ["bin_map", "bin_map + old_frequencies.shape[axis]"] for n in shift)
    ctx.check(oks, rule, f"{key_prefix}:shift-branch", "integer map m: old data lands at [m : m + old_len] on the axis",
              "the integer-shift branch does not place the old data at [shift : shift + old length]", fi.where)


def check_merged_edges(ctx, rule, m):
    """apply_bin_map: a run starts with its first bin's pair, later bins move only the right edge, and a later bin whose
    left edge differs (exactly) from the current right edge is refused."""
    BB = m.cls("BinningBase")
    ab = BB.methods["apply_bin_map"]
    ctx.saw(ab)
    gap_ok = first_ok = later_ok = nan_ok = False
    for path in function_paths(ab.node):
        for i, s in enumerate(path):
            if s[0] == "cond":
                e = s[1]
                if isinstance(e, ast.Compare) and len(e.ops) == 1 and {U(e.left), U(e.comparators[0])} == {"bins[new, 1]", "self.bins[old, 0]"}:
                    if isinstance(e.ops[0], ast.NotEq) and s[2] and end_kind(path) == "raise" and path[i + 1][0] == "stmt" and isinstance(path[i + 1][1], ast.Raise):
                        gap_ok = True
                    if isinstance(e.ops[0], ast.NotEq) and not s[2]:
                        nxt = [U(x[1]) for x in path[i + 1:i + 2] if x[0] == "stmt"]
                        if nxt == ["bins[new, 1] = self.bins[old, 1]"]:
                            later_ok = True
                if U(e) == "np.isnan(bins[new, 0])" and s[2]:
                    nxt = [U(x[1]) for x in path[i + 1:i + 2] if x[0] == "stmt"]
                    if nxt == ["bins[new, :] = self.bins[old, :]"]:
                        first_ok = True
                if U(e) == "np.any(np.isnan(bins))" and s[2] and end_kind(path) == "raise":
                    nan_ok = True
    ctx.check(gap_ok, rule, "apply_bin_map:gap-refused", "bins[new,1] != self.bins[old,0] -> ValueError",
              "merging across a gap is not refused exactly when the previous right edge differs from the next left edge "
              "(e.g. `>` instead of `!=`)", ab.where)
    ctx.check(first_ok and later_ok, rule, "apply_bin_map:run-edges", "first bin of a run sets both edges, later bins move the right edge only",
              "a merged bin no longer reaches from the run's first left edge to its last right edge", ab.where)
    return nan_ok


def run(ctx):
    m = ctx.model
    HB, BB = m.cls("HistogramBase"), m.cls("BinningBase")
    mb = HB.methods.get("merge_bins")
    if mb is None:
        raise AnalysisError("HistogramBase.merge_bins not found")
    ctx.saw(mb)

    # ---- C10.a -------------------------------------------------------------------------------------------------
    ctx.rule("C10.a", "one map and one axis for edges and contents; identical transfer for frequencies and errors2; nothing else written", 7)
    ok_same = 0
    bad = []
    for path in function_paths(mb.node):
        if end_kind(path) == "raise" or not consistent(path):
            continue
        abm = chg = None
        env = Env()
        for step in path:
            if step[0] == "stmt":
                for c in calls_in(step[1]):
                    if isinstance(c.func, ast.Attribute) and c.func.attr == "apply_bin_map":
                        abm = (U(c.func.value), [U(a) for a in c.args])
                    if U(c.func) == "self._change_binning":
                        ax = next((U(k.value) for k in c.keywords if k.arg == "axis"), U(c.args[2]) if len(c.args) > 2 else None)
                        nb = env.resolve(c.args[0]) if c.args else None
                        chg = (U(c.args[1]) if len(c.args) > 1 else None, ax, nb)
            env.step(step)
        if chg is None and abm is None:
            continue
        if chg is None or abm is None:
            bad.append("a path changes the binning or the contents but not both")
            continue
        mapname, ax, nb = chg
        if abm[1] != [mapname]:
            bad.append(f"edges merged with `{abm[1]}` but contents moved with `{mapname}`")
        elif abm[0] != f"self._binnings[{ax}]":
            bad.append(f"edges of {abm[0]} merged, contents moved on axis {ax}")
        elif not (isinstance(nb, ast.Call) and isinstance(nb.func, ast.Attribute) and nb.func.attr == "apply_bin_map"):
            bad.append("the binning installed by _change_binning is not the result of apply_bin_map")
        else:
            ok_same += 1
    ctx.check(ok_same >= 2 and not bad, "C10.a", "HistogramBase.merge_bins:same-map-and-axis",
              f"{ok_same} merging paths: apply_bin_map(bin_map) on self._binnings[axis] and _change_binning(new, bin_map, axis)",
              " ; ".join(sorted(set(bad))) or "merging paths not found", mb.where)
    others = [U(w.stmt)[:60] for st in ast.walk(mb.node) if isinstance(st, ast.stmt) for w in writes_of(st) if w.root == "self"]
    ctx.check(not others, "C10.a", "HistogramBase.merge_bins:no-other-writes", "merge_bins itself stores nothing (missed store untouched)",
              f"merge_bins writes {others}", mb.where)
    cb = HB.methods["_change_binning"]
    ctx.saw(cb)
    t = [U(s) for s in cb.node.body if not (isinstance(s, ast.Expr) and isinstance(s.value, ast.Constant))]
    okcb = t == ["axis = self._get_axis(axis)", "self._reshape_data(new_binning.bin_count, bin_map, axis)", "self._binnings[axis] = new_binning"]
    ctx.check(okcb, "C10.a", "HistogramBase._change_binning", "resolve axis; reshape to new_binning.bin_count with the map on that axis; install binning there",
              f"_change_binning body is {t}", cb.where)
    rd = HB.methods["_reshape_data"]
    ctx.saw(rd)
    txt = U(rd.node)
    call = [c for c in calls_in(rd.node) if U(c.func) == "self._apply_bin_map"]
    kw = {k.arg: U(k.value) for k in call[0].keywords} if call else {}
    okrd = (kw == {"old_frequencies": "self._frequencies", "new_frequencies": "new_frequencies", "old_errors2": "self._errors2",
                   "new_errors2": "new_errors2", "bin_map": "bin_map", "axis": "axis"}
            and "new_shape[axis] = new_size" in txt and "self._frequencies = new_frequencies" in txt and "self._errors2 = new_errors2" in txt
            and "new_shape = list(self.shape)" in txt)
    stores = [w.attr for st in ast.walk(rd.node) if isinstance(st, ast.stmt) for w in writes_of(st) if w.root == "self"]
    ctx.check(okrd and sorted(stores) == ["_errors2", "_frequencies"], "C10.a", "HistogramBase._reshape_data",
              "new arrays sized new_size on `axis` only, filled by _apply_bin_map(old f/e, new f/e, map, axis), then both installed",
              "the reshape no longer allocates / fills / installs frequencies and errors2 symmetrically on the given axis", rd.where)
    sibling_transfer(ctx, "C10.a", HB.methods["_apply_bin_map"], "HistogramBase._apply_bin_map")

    # ---- C10.b the map ------------------------------------------------------------------------------------------------
    ctx.rule("C10.b", "amount map is (i, i // amount) over all bins; min_frequency map appends once per bin, target index starts at 0 and grows by 1", 2)
    lc = [n for n in ast.walk(mb.node) if isinstance(n, ast.Assign) and U(n.targets[0]) == "bin_map" and isinstance(n.value, ast.ListComp)]
    oka = any(U(n.value.elt) == "(i, i // amount)" and U(n.value.generators[0].iter) == "range(self.shape[axis])" and not n.value.generators[0].ifs
              for n in lc)
    ctx.check(oka, "C10.b", "merge_bins:amount-map", "[(i, i // amount) for i in range(self.shape[axis])]",
              "the amount map is not (i, i // amount) over every bin of the axis", mb.where)
    loop = [n for n in ast.walk(mb.node) if isinstance(n, ast.For) and "enumerate(check)" in U(n.iter)]
    okm = False
    why = "min_frequency loop not found"
    if loop:
        lp = loop[0]
        ivar = U(lp.target.elts[0]) if isinstance(lp.target, ast.Tuple) else None
        appends = [c for c in calls_in(lp) if U(c.func) == "bin_map.append"]
        incs = [n for n in ast.walk(lp) if isinstance(n, ast.AugAssign) and U(n.target) == "current_new"]
        inits = [n for n in ast.walk(mb.node) if isinstance(n, ast.Assign) and U(n.targets[0]) == "current_new"]
        top_level_append = [s for s in lp.body if isinstance(s, ast.Expr) and isinstance(s.value, ast.Call) and U(s.value.func) == "bin_map.append"]
        why = []
        if len(appends) != 1 or len(top_level_append) != 1 or [U(a) for a in appends[0].args] != [f"({ivar}, current_new)"]:
            why.append("each bin must be appended exactly once, unconditionally, as (i, current_new)")
        if not incs or any(not (isinstance(n.op, ast.Add) and U(n.value) == "1") for n in incs):
            why.append("the target index must only ever grow by 1")
        if [U(n.value) for n in inits] != ["0"]:
            why.append("the target index must start at 0")
        okm = not why
        why = "; ".join(why) if why else "append (i, current_new) once per bin; current_new starts at 0, += 1 only"
    ctx.check(okm, "C10.b", "merge_bins:min_frequency-map", why, why, mb.where)

    chk = {}
    for path in function_paths(mb.node):
        cs = dict((U(s_[1]), s_[2]) for s_ in path if s_[0] == "cond")
        if "self.ndim == 1" in cs or "self.ndim != 1" in cs:
            one_d = cs.get("self.ndim == 1", not cs.get("self.ndim != 1", True))
            for s_ in path:
                if s_[0] == "stmt" and isinstance(s_[1], ast.Assign) and U(s_[1].targets[0]) == "check":
                    chk["1d" if one_d else "nd"] = U(s_[1].value)
    ok_marg = chk.get("1d") in ("self.frequencies", "self._frequencies") and chk.get("nd") in (
        "cast(HistogramND, self).projection(axis).frequencies", "self.projection(axis).frequencies")
    ctx.check(ok_marg, "C10.b", "merge_bins:min_frequency-marginal", "thresholds are compared with the marginal of the merged axis (projection(axis))",
              f"the min_frequency map is built from {chk}: for ND histograms it must be the marginal along the merged axis "
              "(summing over `axis` itself gives the other axis' length)", mb.where)
    from rules import wiring
    wiring.axis_resolved(ctx, "C10.b", mb)
    wiring.axis_resolved(ctx, "C10.a", cb)
    allocs = [c for c in calls_in(rd.node) if call_is(c, "zeros")]
    okalloc = len(allocs) == 2 and all(any(k.arg == "dtype" and U(k.value) in ("self._frequencies.dtype", "self._errors2.dtype") for k in c.keywords) for c in allocs)
    ctx.check(okalloc, "C10.a", "HistogramBase._reshape_data:alloc-dtype", "new arrays have the element type of the arrays they replace",
              "the re-binned arrays are not allocated with the element type of the current arrays (contents would be truncated while summed)", rd.where)

    # ---- C10.c refusals and edge merging ----------------------------------------------------------------------------------
    ctx.rule("C10.c", "non-integral amount, gap inside a run (edge != edge) and incomplete maps are refused before the change; "
             "runs keep first left and last right edge", 5)
    okint = False
    for path in function_paths(mb.node):
        cs = [(U(s[1]), s[2]) for s in path if s[0] == "cond"]
        if any((t == "amount != int(amount)" and v) or (t == "amount == int(amount)" and not v) for t, v in cs) and end_kind(path) == "raise":
            if not any(U(c.func) == "self._change_binning" for s in path if s[0] == "stmt" for c in calls_in(s[1])):
                okint = True
    n_a, off_a = must_raise(mb.node, lambda e: U(e) == "amount != int(amount)", when=True)
    n_b, off_b = must_raise(mb.node, lambda e: U(e) == "amount == int(amount)", when=False)
    okint = okint and n_a + n_b >= 1 and not off_a and not off_b
    ctx.check(okint, "C10.c", "merge_bins:integral-amount", "amount != int(amount) -> ValueError before anything changes",
              "a non-integral amount is no longer refused before the merge", mb.where)
    ab = BB.methods.get("apply_bin_map")
    if ab is None:
        raise AnalysisError("BinningBase.apply_bin_map not found")
    ctx.saw(ab)
    nan_ok = check_merged_edges(ctx, "C10.c", m)
    n_mr, off_mr = must_raise(ab.node, lambda e: U(e) == "np.any(np.isnan(bins))", when=True)
    nan_ok = nan_ok and n_mr >= 1 and not off_mr
    # the merged binning still closes its last bin on the right iff the source did and the last edge is unchanged
    defs_ire = [U(n.value) for n in ast.walk(ab.node) if isinstance(n, ast.Assign) and U(n.targets[0]) == "includes_right_edge"]
    ctor_ = [c for c in calls_in(ab.node) if U(c.func) == "StaticBinning"]
    okire = defs_ire in (["self.includes_right_edge and bins[-1, 1] == self.bins[-1, 1]"], ["bins[-1, 1] == self.bins[-1, 1] and self.includes_right_edge"]) \
        and len(ctor_) == 1 and U(kwarg(ctor_[0], "includes_right_edge")) == "includes_right_edge" and U(ctor_[0].args[0]) == "bins"
    rets_ab = [n.value for n in ast.walk(ab.node) if isinstance(n, ast.Return)]
    env_ab = {U(n.targets[0]): n.value for n in ast.walk(ab.node) if isinstance(n, ast.Assign) and isinstance(n.targets[0], ast.Name)}
    def _is_static(v):
        v = env_ab.get(v.id, v) if isinstance(v, ast.Name) else v
        return isinstance(v, ast.Call) and U(v.func) == "StaticBinning" and v.args and U(v.args[0]) == "bins"
    okire = okire and bool(rets_ab) and all(_is_static(v) for v in rets_ab)
    others = [c.name for c in m.subclasses(BB) if "apply_bin_map" in c.methods]
    ctx.check(not others, "C10.c", "apply_bin_map:single-implementation", "only BinningBase implements apply_bin_map (the implementation the rules above decide)",
              f"{others} re-implement apply_bin_map: the merged edges of such a binning are not covered by the rules for BinningBase.apply_bin_map "
              "and must keep every run's first left / last right edge", BB.where)
    ctx.check(okire, "C10.c", "apply_bin_map:right-edge-kept", "StaticBinning(bins, includes_right_edge = source flag and unchanged last edge)",
              f"includes_right_edge = {defs_ire}; constructor call {[U(c)[:70] for c in ctor_]}", ab.where)
    ctx.check(nan_ok, "C10.c", "apply_bin_map:complete", "an incomplete map (unfilled new bin) is refused", "incomplete maps are not refused", ab.where)
    ln = [n for n in ast.walk(ab.node) if isinstance(n, ast.Assign) and U(n.targets[0]) == "length"]
    ctx.check(any(U(n.value) == "max((item[1] for item in bin_map)) + 1" for n in ln), "C10.c", "apply_bin_map:length",
              "new bin count = max target index + 1", "the merged binning is not sized max(new index) + 1", ab.where)

    # ---- C10.d / e -----------------------------------------------------------------------------------------------------
    ctx.rule("C10.d", "not in place -> merge on self.copy(); axis None -> every axis", 2)
    okcopy = okall = False
    for path in function_paths(mb.node):
        cs = [(U(s[1]), s[2]) for s in path if s[0] == "cond"]
        sts = [U(s[1]) for s in path if s[0] == "stmt" and not (isinstance(s[1], ast.Expr) and isinstance(s[1].value, ast.Constant))]
        if ("inplace", False) in cs:
            okcopy = (len(sts) >= 3 and sts[0] == "histogram = self.copy()" and sts[1].startswith("histogram.merge_bins(")
                      and "inplace=True" in sts[1] and "axis=axis" in sts[1] and sts[-1] == "return histogram")
        if ("axis is None", True) in cs and any(s[0] == "for" and s[2] for s in path):
            fl = [s[1] for s in path if s[0] == "for"][0]
            okall = U(fl.iter) == "range(self.ndim)" and any("axis=" + U(fl.target) in t and "inplace=True" in t for t in sts)
    ctx.check(okcopy, "C10.d", "merge_bins:on-a-copy", "histogram = self.copy(); histogram.merge_bins(..., inplace=True); return histogram",
              "the non-in-place branch does not merge a copy with the caller's arguments", mb.where)
    # both delegating branches hand the caller's amount AND min_frequency on (in place, on the right object / axis)
    rec = [c for c in calls_in(mb.node) if isinstance(c.func, ast.Attribute) and c.func.attr == "merge_bins"]
    okfw = len(rec) == 2
    for c in rec:
        amt = c.args[0] if c.args else kwarg(c, "amount")
        okfw = okfw and amt is not None and U(amt) == "amount" and U(kwarg(c, "min_frequency")) == "min_frequency" \
            and U(kwarg(c, "inplace")) == "True" and kwarg(c, "axis") is not None
    ctx.check(okfw, "C10.d", "merge_bins:delegation-forwards-options", "amount, min_frequency, axis and inplace=True reach both delegated calls",
              f"delegated calls: {[U(c)[:90] for c in rec]} - an option of the caller is dropped", mb.where)
    from rules import c12
    c12.check_copy_contents(ctx, "C10.d", m)   # the copy that is merged carries all contents, incl. the missed store
    ctx.check(okall, "C10.d", "merge_bins:all-axes", "axis=None merges every axis in range(self.ndim)", "axis=None does not cover all axes", mb.where)

    ctx.rule("C10.e", "bin maps that are generators are consumed once: apply_bin_map (two passes) only ever receives lists", 1)
    bad = []
    n = 0
    for fi in m.all_funcs():
        for path_node in [fi.node]:
            for c in calls_in(path_node):
                if isinstance(c.func, ast.Attribute) and c.func.attr == "apply_bin_map" and c.args:
                    n += 1
                    a = c.args[0]
                    if isinstance(a, ast.Name):
                        defs = [x.value for x in ast.walk(fi.node) if isinstance(x, ast.Assign) and U(x.targets[0]) == a.id]
                        if any(isinstance(d, ast.GeneratorExp) or (isinstance(d, ast.Call) and U(d.func) in ("zip", "map", "iter", "enumerate")) for d in defs):
                            bad.append(f"{fi.qualname}: `{a.id}` may be a single-use iterator")
                    elif isinstance(a, (ast.GeneratorExp,)):
                        bad.append(f"{fi.qualname}: generator expression passed")
    ctx.check(n >= 1 and not bad, "C10.e", "apply_bin_map:callers-pass-lists", f"{n} call site(s), all pass lists",
              "; ".join(bad) or "no call site of apply_bin_map found", ab.where)
    # the axis a merge is asked for is resolved by the one resolver (shared with C09.b)
    ctx.borrow("C09", ("_get_axis:",), "C10.d", floor=3)
