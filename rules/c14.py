"""C14 - statistics are those of the raw data entered, not of the bins."""
from __future__ import annotations

import ast
from fractions import Fraction

from sa.model import AnalysisError, calls_in
from sa.paths import function_paths, end_kind, consistent
from sa.symbolic import Poly, to_poly
from sa.util import U, writes_of, Env, call_is, TupleItem

EXPLANATION = (
    "C14: every path of a Histogram1D method that changes the contents also writes the statistics (accumulated, "
    "rescaled or invalidated; array-operand branches and subtraction must invalidate), the construction kernel "
    "and fill() give every accumulator the same (weight, value) degree (weight w, sum w*v, sum2 w*v^2, min/max of "
    "the values), mean and variance are the population formulas in normal form, Statistics.__add__ combines each "
    "field with +/min/max, and the median is only kept after unweighted batch construction."
)
NOT_DECIDED = "numerical accuracy of the one-pass variance, the OverflowError fallback, values outside the bins at construction."
TRUSTED = ["ndarray.sum / min / max / np.median reductions"]

NEUTRAL = {
    "_reshape_data": "moves contents into the grown / merged arrays, sums are preserved",
    "_apply_bin_map": "helper of _reshape_data",
    "set_dtype": "type conversion only",
    "merge_bins": "contents are summed into wider bins; raw-data statistics stay valid",
    "_change_binning": "helper of merge_bins / adaptive growth",
    "copy": "copies the statistics (C12.b)",
    "__init__": "constructor: statistics given or INVALID (checked separately)",
    "frequencies": "the validating setter itself",
    "errors2": "the validating setter itself",
    "normalize": "delegates to /= (checked there)",
    "__add__": "delegates to += on a copy", "__sub__": "delegates", "__mul__": "delegates", "__truediv__": "delegates",
    "__radd__": "delegates", "__rmul__": "delegates", "__getitem__": "builds a new histogram from bare frequencies (INVALID by the constructor)",
    "select": "delegates to []", "from_calculate_frequencies": "constructor wrapper", "from_dict": "constructor wrapper",
}


def _poly_wv(expr, env, w_names, v_names, old=None):
    def leaf(n):
        t = U(n)
        if t in w_names:
            return Poly.sym("w")
        if t in v_names:
            return Poly.sym("v")
        if old is not None and t in old:
            return Poly.sym("OLD")
        if isinstance(n, ast.Name):
            d = env.resolve(n)
            if d is not n and not isinstance(d, (TupleItem,)):
                return to_poly(d, leaf, ("float", "sum", "np.sum", "int"))
        return None
    return to_poly(expr, leaf, ("float", "sum", "np.sum", "int"))


def check_stats_add(ctx, rule, m):
    """Statistics.__add__: every additive field is self.f + other.f, min / max combined with min / max, median dropped."""
    S = m.cls("Statistics")
    add = S.methods.get("__add__")
    if add is None:
        raise AnalysisError("Statistics.__add__ not found")
    ctx.saw(add)
    o = [p for p in add.params() if p != "self"][0]
    ctor = [c for c in calls_in(add.node) if U(c.func) == "Statistics" and c.keywords]
    repl_ = [c for c in calls_in(add.node) if call_is(c, "replace") and c.args and U(c.args[0]) in ("self", o)]
    if ctor:
        kws = {k.arg: U(k.value) for k in ctor[-1].keywords}
        inherited = None
    elif repl_:
        kws = {k.arg: U(k.value) for k in repl_[-1].keywords}
        inherited = U(repl_[-1].args[0])
    else:
        raise AnalysisError("Statistics.__add__: neither Statistics(...) nor dataclasses.replace(...) result found")

    def got(f):
        if f in kws:
            return kws[f]
        return f"{inherited}.{f} (inherited unchanged from `{inherited}` by dataclasses.replace)" if inherited else None
    for f in ("sum", "sum2", "weight"):
        ctx.check(kws.get(f) in (f"self.{f} + {o}.{f}", f"{o}.{f} + self.{f}"), rule, f"Statistics.__add__:{f}",
                  f"{f} = self.{f} + other.{f}", f"{f} combined as `{got(f)}`", add.where)
    for f in ("min", "max"):
        ctx.check(kws.get(f) in (f"{f}(self.{f}, {o}.{f})", f"{f}({o}.{f}, self.{f})"), rule, f"Statistics.__add__:{f}",
                  f"{f} = {f}(self.{f}, other.{f})", f"{f} combined as `{got(f)}` - the merge is not symmetric in its operands", add.where)
    # the combined record is what two Statistics give; anything else gives INVALID - and not the other way round
    pol = {}
    for p_ in function_paths(add.node):
        cs_ = dict((U(s_[1]), s_[2]) for s_ in p_ if s_[0] == "cond")
        k_ = cs_.get(f"isinstance({o}, Statistics)")
        if k_ is not None and end_kind(p_) == "return":
            pol[k_] = U(p_[-1][2].value)[:20]
    ctx.check(pol.get(False) == "INVALID_STATISTICS" and str(pol.get(True, "")).startswith(("Statistics(", "dataclasses.replace(")), rule,
              "Statistics.__add__:operand-test", "Statistics + Statistics combines; anything else is invalid",
              f"results per `isinstance(other, Statistics)`: {pol}", add.where)
    med = kws.get("median")
    ctx.check(med == "np.nan" or (med is None and inherited is None), rule, "Statistics.__add__:median",
              "median dropped (nan)", f"median combined as `{got('median')}`", add.where)


def check_copy_stats(ctx, rule, m):
    H1 = m.cls("Histogram1D")
    cp = H1.methods.get("copy")
    if cp is None:
        raise AnalysisError("Histogram1D.copy not found")
    ctx.saw(cp)
    res = {}
    for path in function_paths(cp.node):
        if end_kind(path) != "return":
            continue
        inc = None
        for s_ in path:
            if s_[0] == "cond" and U(s_[1]) == "include_frequencies":
                inc = s_[2]
            if s_[0] == "cond" and U(s_[1]) == "not include_frequencies":
                inc = not s_[2]
        val = None
        for s_ in path:
            if s_[0] == "stmt":
                for w in writes_of(s_[1]):
                    if w.attr == "_stats" and w.root != "self":
                        val = U(w.value)
        res[inc] = val
    ok_t = res.get(True) in ("dataclasses.replace(self.statistics)", "dataclasses.replace(self._stats)", "self._stats", "self.statistics")
    ok_f = res.get(False) == "Statistics()"
    ctx.check(ok_t and ok_f, rule, "Histogram1D.copy:statistics", "with frequencies: a copy of the source statistics; without: Statistics()",
              f"copy(include_frequencies=True) stores `{res.get(True)}`, copy(include_frequencies=False) stores `{res.get(False)}`"
              f"{' (no branch on include_frequencies: ' + str(res.get(None)) + ')' if None in res else ''} - an emptied copy must not report the old sums", cp.where)


def check_variance_domain(ctx, rule, m):
    S = m.cls("Statistics")
    # the formula applies whenever there is any weight; otherwise NaN (an empty histogram has no variance)
    vr = S.methods["variance"]
    polv = {}
    for p_ in function_paths(vr.node):
        for s_ in p_:
            if s_[0] == "cond" and U(s_[1]) in ("self.weight > 0", "0 < self.weight") and end_kind(p_) == "return":
                polv[s_[2]] = U(p_[-1][2].value)
    ctx.check(polv.get(False) == "np.nan" and polv.get(True) not in (None, "np.nan") and len(polv) == 2, rule, "Statistics.variance:domain",
              "formula iff weight > 0, NaN otherwise", f"variance returns per `self.weight > 0`: {polv}", vr.where)


def run(ctx):
    m = ctx.model
    H1, HB, S = m.cls("Histogram1D"), m.cls("HistogramBase"), m.cls("Statistics")

    # ---- C14.a --------------------------------------------------------------------------------------
    ctx.rule("C14.a", "a path that changes the contents of a 1D histogram also writes _stats (invalidating where required)", 6)
    seen_methods = 0
    for k in m.mro(H1):
        for fi in list(k.methods.values()):
            if m.resolve_method(H1, fi.name)[1] is not fi:
                continue
            if fi.name in NEUTRAL:
                continue
            direct = False
            for st in ast.walk(fi.node):
                if isinstance(st, ast.stmt):
                    for w in writes_of(st):
                        if w.root == "self" and w.attr in ("_frequencies", "frequencies"):
                            direct = True
            if not direct:
                continue
            seen_methods += 1
            ctx.saw(fi)
            params = [p for p in fi.params() if p != "self"]
            o = params[0] if params else None
            problems = []
            n = 0
            for path in function_paths(fi.node):
                if end_kind(path) == "raise" or not consistent(path):
                    continue
                cw = [U(s[1])[:60] for s in path if s[0] == "stmt" for w in writes_of(s[1])
                      if w.root == "self" and w.attr in ("_frequencies", "frequencies")]
                # `self += x` inside an operator changes the contents through the sibling operator
                cw += [U(s[1])[:60] for s in path if s[0] == "stmt" and isinstance(s[1], ast.AugAssign) and U(s[1].target) == "self"]
                if not cw:
                    continue
                n += 1
                sw = [s[1] for s in path if s[0] == "stmt" for w in writes_of(s[1]) if w.root == "self" and w.attr == "_stats"]
                conds = [(U(s[1]), s[2]) for s in path if s[0] == "cond"]
                guarded_off = any("hasattr(self, '_stats')" in c and not v for c, v in conds)
                is_hist = any(c == f"isinstance({o}, HistogramBase)" and v for c, v in conds)
                is_scalar = any(c == f"np.isscalar({o})" and v for c, v in conds)
                array_operand = fi.name in ("__iadd__", "__imul__", "__itruediv__", "__isub__") and not is_hist and not is_scalar
                must_invalidate = array_operand or fi.name == "__isub__"
                if not sw:
                    if not guarded_off:
                        problems.append(f"`{cw[0]}` changes the contents on a path that never writes _stats")
                    continue
                if must_invalidate and not any("INVALID_STATISTICS" in U(x) for x in sw):
                    problems.append(f"contents changed by {'an array operand' if array_operand else 'subtraction'} but the "
                                    f"statistics are not invalidated (`{U(sw[-1])[:60]}`)")
            ctx.check(not problems and n > 0, "C14.a", f"{fi.qualname}", f"{n} content-changing path(s), statistics written on each",
                      " ; ".join(sorted(set(problems))[:3]) or "no content-changing path found", fi.where)
    HC = m.cls("HistogramCollection")
    for fi in HC.methods.values():
        for lp in [n for n in ast.walk(fi.node) if isinstance(n, ast.For) and isinstance(n.target, ast.Name)]:
            v = lp.target.id
            body_writes = [w for b in lp.body for st in ast.walk(b) if isinstance(st, ast.stmt) for w in writes_of(st) if w.root == v]
            if any(w.attr in ("_frequencies", "frequencies") for w in body_writes):
                seen_methods += 1
                ok = any(w.attr == "_stats" and "INVALID_STATISTICS" in U(w.stmt) for w in body_writes)
                ctx.check(ok, "C14.a", f"{fi.qualname}:members", "members' statistics invalidated with their per-bin rescale",
                          f"{fi.qualname} rescales each member's contents bin by bin but leaves the member's statistics "
                          "(stale numbers instead of invalid ones)", fi.where)

    # ---- C14.b one definition of the moments -------------------------------------------------------------
    ctx.rule("C14.b", "kernel and fill() accumulate weight ~ w, sum ~ w*v, sum2 ~ w*v^2, min/max of the values; "
             "mean = sum/weight, variance = (sum2 - sum^2/weight)/weight", 10)
    want = {"weight": Poly.sym("w"), "sum": Poly.sym("w") * Poly.sym("v"), "sum2": Poly.sym("w") * Poly.sym("v") * Poly.sym("v")}
    kern = m.func("_construction", "calculate_1d_frequencies")
    ctx.saw(kern)
    calls = [c for c in calls_in(kern.node) if U(c.func) == "Statistics" and c.keywords]
    if not calls:
        raise AnalysisError("calculate_1d_frequencies: Statistics(...) construction not found")
    sc = calls[-1]
    kws = {k.arg: k.value for k in sc.keywords}
    env = Env()
    for f, w in want.items():
        p = _poly_wv(kws.get(f), env, {"weights_array"}, {"data_array"}) if f in kws else None
        ctx.check(p == w, "C14.b", f"kernel:{f}", f"{f} = reduction of {w}",
                  f"kernel computes {f} from `{U(kws[f]) if f in kws else None}` ~ {p}, expected {w}", kern.where)
    for f, red in (("min", "min"), ("max", "max")):
        t = U(kws.get(f)) if f in kws else ""
        ctx.check(t in (f"float(data_array.{red}())", f"data_array.{red}()", f"float(np.{red}(data_array))"), "C14.b",
                  f"kernel:{f}", f"{f} of the values", f"kernel computes {f} as `{t}`", kern.where)
    fill = H1.methods["fill"]
    ctx.saw(fill)
    pv, pw = [p for p in fill.params() if p != "self"][:2]
    repl = None
    fenv = Env()
    for path in function_paths(fill.node):
        e = Env()
        for step in path:
            if step[0] == "stmt":
                for c in calls_in(step[1]):
                    if call_is(c, "replace") and c.keywords and any(k.arg == "sum2" for k in c.keywords):
                        repl, fenv = c, e.copy()
            e.step(step)
        if repl is not None:
            break
    if repl is None:
        raise AnalysisError("Histogram1D.fill: dataclasses.replace(... sum2=...) update not found")
    kws = {k.arg: k.value for k in repl.keywords}
    for f, w in want.items():
        old = {f"self.statistics.{f}", f"self._stats.{f}"}
        p = _poly_wv(kws.get(f), fenv, {pw}, {pv}, old) if f in kws else None
        ctx.check(p is not None and p == Poly.sym("OLD") + w, "C14.b", f"fill:{f}", f"{f} += {w}",
                  f"fill updates {f} with `{U(kws[f]) if f in kws else None}` ~ {p}; expected old + {w} "
                  "(the same moment the construction kernel accumulates)", fill.where)
    for f in ("min", "max"):
        t = U(kws.get(f)) if f in kws else ""
        ok = t in (f"{f}(self.statistics.{f}, {pv})", f"{f}({pv}, self.statistics.{f})", f"{f}(self._stats.{f}, {pv})")
        ctx.check(ok, "C14.b", f"fill:{f}", f"{f} = {f}(old, value)", f"fill updates {f} with `{t}`", fill.where)

    def formula(name, wantp):
        fi = S.methods.get(name)
        if fi is None:
            raise AnalysisError(f"Statistics.{name} not found")
        ctx.saw(fi)
        got = []
        for n in ast.walk(fi.node):
            if isinstance(n, ast.Return) and n.value is not None and U(n.value) not in ("np.nan",):
                def leaf(x):
                    if isinstance(x, ast.Attribute) and U(x.value) == "self" and x.attr in ("sum", "sum2", "weight"):
                        return Poly.sym(x.attr)
                    return None
                got.append(to_poly(n.value, leaf))
        ctx.check(len(got) == 1 and got[0] == wantp, "C14.b", f"Statistics.{name}", f"{name} = {wantp}",
                  f"Statistics.{name} computes {got}, expected {wantp}", fi.where)
    sm, s2, sw = Poly.sym("sum"), Poly.sym("sum2"), Poly.sym("weight")
    formula("mean", sm * sw.inv())
    formula("variance", s2 * sw.inv() - sm * sm * sw.inv() * sw.inv())
    check_variance_domain(ctx, "C14.b", m)
    std = S.methods.get("std")
    rets = [U(n.value) for n in ast.walk(std.node) if isinstance(n, ast.Return)]
    ctx.check(rets == ["np.sqrt(self.variance())"], "C14.b", "Statistics.std", "std = sqrt(variance())",
              f"Statistics.std returns {rets}", std.where)

    # ---- C14.c Statistics.__add__ and the median ---------------------------------------------------------------
    ctx.rule("C14.c", "Statistics.__add__ combines fields with + / min / max symmetrically and drops the median; fill drops "
             "the median; the kernel keeps it only for equal weights", 8)
    check_stats_add(ctx, "C14.c", m)
    rk = {k.arg: U(k.value) for k in repl.keywords}
    ctx.check(rk.get("median") == "np.nan", "C14.c", "fill:median", "fill resets the median to nan",
              f"fill leaves median = `{rk.get('median')}` (stale after a single-value fill)", fill.where)
    kmed = {k.arg: k.value for k in sc.keywords}.get("median")
    okm = isinstance(kmed, ast.IfExp) and U(kmed.test) == "equal_weights" and "np.median(data_array)" in U(kmed.body) and U(kmed.orelse) == "np.nan"
    ctx.check(okm, "C14.c", "kernel:median", "median = np.median(data) only if the weights are all equal",
              f"kernel sets median = `{U(kmed) if kmed is not None else None}`", kern.where)

    # ---- C14.d copy carries / resets the statistics --------------------------------------------------------------
    ctx.rule("C14.d", "copy(): statistics duplicated with the frequencies, reset to empty Statistics() without them", 1)
    check_copy_stats(ctx, "C14.d", m)

    # ---- C14.e invalid marker and constructor defaults -------------------------------------------------------------
    ctx.rule("C14.e", "INVALID_STATISTICS is all-NaN; a histogram built from bare frequencies gets it, an empty one gets zeros", 2)
    sm_mod = m.module("statistics")
    inv = sm_mod.assigns.get("INVALID_STATISTICS")
    ok = isinstance(inv, ast.Call) and U(inv.func) == "Statistics" and {k.arg for k in inv.keywords if U(k.value) == "np.nan"} >= {"sum", "sum2", "min", "max", "weight"}
    ctx.check(ok, "C14.e", "INVALID_STATISTICS", "sum, sum2, min, max, weight = nan (median nan by default)",
              "INVALID_STATISTICS does not mark every accumulator as NaN", sm_mod.relpath)
    init = H1.methods["__init__"]
    ctx.saw(init)
    good = 0
    bad = []
    for path in function_paths(init.node):
        for step in path:
            if step[0] == "stmt":
                for w in writes_of(step[1]):
                    if w.root == "self" and w.attr == "_stats":
                        none = any(s[0] == "cond" and U(s[1]) == "frequencies is None" and s[2] for s in path)
                        t = U(w.value)
                        if none and t == "Statistics()":
                            good += 1
                        elif (not none) and t in ("stats or INVALID_STATISTICS", "stats if stats is not None else INVALID_STATISTICS"):
                            good += 1
                        else:
                            bad.append(f"frequencies {'absent' if none else 'given'}: _stats = {t}")
    ctx.check(good >= 2 and not bad, "C14.e", "Histogram1D.__init__:stats-default",
              "no frequencies -> Statistics(); bare frequencies -> given stats or INVALID_STATISTICS", "; ".join(bad) or "stores not found", init.where)

    # `stats or INVALID_STATISTICS` (and every other truth test of a Statistics object) relies on plain object truthiness:
    # a zero-weight record is a valid record, not "no record"
    st_cls = m.cls("Statistics")
    falsy = [n_ for n_ in ("__bool__", "__len__") if n_ in st_cls.methods]
    ctx.check(not falsy, "C14.e", "Statistics:always-truthy", "Statistics defines neither __bool__ nor __len__",
              f"Statistics defines {falsy}: `stats or INVALID_STATISTICS` in Histogram1D.__init__ then replaces a valid (e.g. zero-weight) record by the invalid one",
              st_cls.where)

    # positive rescaling keeps mean / variance: per-field degrees of Statistics.__mul__ (shared with C06.a)
    from rules import c06
    c06.check_stats_mul(ctx, "C14.b", m)
    # division scales the statistics by exactly the reciprocal of the divisor (shared with C06.a)
    ctx.borrow("C06", ("HistogramBase.__itruediv__:scalar", "HistogramBase.__imul__:scalar"), "C14.b", floor=2)
    # the sums are accumulated from the values the extractor hands on (float64 whatever came in; shared with C01.b)
    ctx.borrow("C01", ("extract_1d_array:",), "C14.b", floor=1)
