"""C17 - every supported input container gives the same histogram as its array."""
from __future__ import annotations

import ast

from sa.model import AnalysisError, calls_in, kwarg
from sa.paths import function_paths, end_kind, consistent, must_raise
from sa.util import U, Env, call_is, const_value
from rules import wiring

EXPLANATION = (
    "C17: the singledispatch registrations are evaluated statically into a matrix container type x extractor whose "
    "every cell is a registered implementation, an explicit refusal (NoReturn + raise) or a 'generic default applies' "
    "entry of a confirmed table; every extractor's NaN mask is a KEEP mask (per element for 1D, per row for tables) of "
    "the array it filters (polarity / axis interpreter over isna / notna / isnan / ~ / any / all), polars delegates to "
    "the generic / pandas implementations with dropna forwarded; multi-dimensional inputs are flattened in logical (C) "
    "order for values and weights alike; non-numeric and null-containing inputs raise; accessors only delegate to the "
    "facades forwarding bins / weights / kwargs; converters keep left / right edges, closedness and under / overflow "
    "roles (xarray attrs land on named constructor parameters, IntervalIndex <-> binning uses both edge columns, Geant4 "
    "rows: first -> underflow, last -> overflow, same row range for contents, errors and sums); each dask chunk runs the "
    "plain facade with the caller's bins / kwargs and the graph sums all chunks."
)
NOT_DECIDED = "equality of results for arbitrary data (depends on C01/C02 and on pandas / polars / dask semantics, trusted); chunk-boundary effects of adaptive binning."
TRUSTED = ["pandas notna/isna/dropna, polars to_numpy / is_null, functools.singledispatch dispatch on the first argument's type"]

EXTRACTORS = ["extract_1d_array", "extract_nd_array", "extract_axis_name", "extract_axis_names", "extract_weights"]
GENERIC_OK = {
    ("pandas.Series", "extract_axis_name"): "generic implementation reads `.name`",
    ("pandas.Series", "extract_axis_names"): "1D facade never asks for axis names; generic returns None / the explicit names",
    ("pandas.Series", "extract_weights"): "np.asarray(series) is the plain array; the mask indexes it",
    ("pandas.DataFrame", "extract_axis_name"): "a DataFrame has no `.name`; the explicit name (or None) is returned",
    ("pandas.DataFrame", "extract_axis_names"): "generic implementation reads `.columns`",
    ("pandas.DataFrame", "extract_weights"): "np.asarray(frame) is 2-D and is refused by the shape test of extract_weights",
}


def _type_of(module, ann):
    t = U(ann) if ann is not None else None
    if t is None:
        return None
    head = t.split(".")[0]
    imp = module.imports.get(head)
    if imp and imp[1] is None:
        return imp[0] + t[len(head):]
    return t


def _fw_call_ok(fi):
    cs = [c for c in calls_in(fi.node) if U(c.func) == "fixed_width_binning"]
    return bool(cs) and all(U(kwarg(c, "bin_width")) == "(max_ - min_) / bin_count" and U(kwarg(c, "range")) == "(min_, max_)" for c in cs)


def run(ctx):
    m = ctx.model
    con = m.module("_construction")
    pdm = m.module("compat.pandas")
    plm = m.module("compat.polars")

    # ---- C17.a dispatch matrix ---------------------------------------------------------------------------------------
    ctx.rule("C17.a", "dispatch matrix container x extractor: implementation, explicit refusal or confirmed generic default", 20)
    cells = {}
    for mod in (pdm, plm):
        for fi in mod.all_functions:
            for d in fi.node.decorator_list:
                if isinstance(d, ast.Attribute) and d.attr == "register" and U(d.value) in EXTRACTORS:
                    a = fi.node.args
                    first = (a.posonlyargs + a.args)[0]
                    ty = _type_of(mod, first.annotation)
                    refusal = U(fi.node.returns) == "NoReturn" if fi.node.returns is not None else False
                    raises_all = all(end_kind(p) == "raise" for p in function_paths(fi.node))
                    cells[(ty, U(d.value))] = ("refusal" if raises_all else "impl", fi, refusal)
                    ctx.saw(fi)
    for ty in ("pandas.Series", "pandas.DataFrame", "polars.Series", "polars.DataFrame"):
        for ex in EXTRACTORS:
            c = cells.get((ty, ex))
            key = f"{ty} x {ex}"
            if c is not None:
                kind, fi, declared = c
                if kind == "refusal":
                    ctx.check(declared, "C17.a", key, "explicit refusal (raises, -> NoReturn)", f"{fi.where} always raises but is not declared NoReturn", fi.where)
                else:
                    ctx.ok("C17.a", key, f"registered implementation {fi.where}", fi.where)
            elif (ty, ex) in GENERIC_OK:
                ctx.ok("C17.a", key, "generic default applies: " + GENERIC_OK[(ty, ex)])
            else:
                ctx.bad("C17.a", key, f"no registration of {ex} for {ty} and the generic default is not known to be right for it "
                        "(the object would be handled as an arbitrary iterable)", (pdm if ty.startswith("pandas") else plm).relpath)
    for ex in EXTRACTORS:
        f = con.functions.get(ex)
        ok = f is not None and any(U(d) == "singledispatch" for d in f.node.decorator_list)
        ctx.check(ok, "C17.a", f"generic:{ex}", "singledispatch generic function", f"{ex} is no longer a singledispatch function", con.relpath)

    # explicit axis names take precedence over names found on the data object
    for ex, par in (("extract_axis_name", "axis_name"), ("extract_axis_names", "axis_names")):
        impls = [con.functions[ex]] + [c[1] for (ty, e), c in cells.items() if e == ex and c[0] == "impl"]
        for fi in impls:
            if par not in fi.params():
                continue
            bad = []
            n = 0
            for path in function_paths(fi.node):
                if end_kind(path) != "return":
                    continue
                given = None
                for s_ in path:
                    if s_[0] == "cond" and U(s_[1]) == par:
                        given = s_[2]
                    if s_[0] == "cond" and U(s_[1]) == f"{par} is not None":
                        given = s_[2]
                    if s_[0] == "cond" and U(s_[1]) == f"{par} is None":
                        given = not s_[2]
                rv = U(path[-1][2].value) if path[-1][2].value is not None else "None"
                if given is True:
                    n += 1
                    if rv not in (par, f"tuple({par})", "result"):
                        bad.append(f"explicit {par} given but `{rv}` is returned")
                elif given is None and rv not in (par, f"tuple({par})"):
                    # a path that never looks at the explicit argument must not return a name taken from the data
                    if rv != "None":
                        bad.append(f"`{rv}` is returned on a path that never tested the explicit `{par}`")
            ctx.check(not bad and n > 0, "C17.a", f"{fi.module.short}.{ex}:{fi.node.lineno and ''}explicit-wins:{_type_of(fi.module, (fi.node.args.posonlyargs + fi.node.args.args)[0].annotation)}",
                      f"an explicitly given `{par}` is what is returned", " ; ".join(sorted(set(bad))) or f"no path handles an explicit `{par}`", fi.where)

    # ---- C17.b masks ---------------------------------------------------------------------------------------------------
    ctx.rule("C17.b", "NaN masks are KEEP masks (1D: per element, tables: per row) of the array they filter; C-order flattening", 8)
    wiring.mask_definition(ctx, "C17.b", con.functions["extract_1d_array"], "generic.extract_1d_array:mask", rowwise=False)
    wiring.mask_definition(ctx, "C17.b", con.functions["extract_nd_array"], "generic.extract_nd_array:mask", rowwise=True)
    eca = con.functions["extract_and_concat_arrays"]
    wiring.mask_definition(ctx, "C17.b", eca, "generic.extract_and_concat_arrays:mask", rowwise=True)
    for (ty, ex), want_axis in ((("pandas.Series", "extract_1d_array"), "elem"), (("pandas.DataFrame", "extract_nd_array"), "rows")):
        c = cells.get((ty, ex))
        if c is None:
            continue
        fi = c[1]
        got = None
        filt = None
        for n in ast.walk(fi.node):
            if isinstance(n, ast.Assign) and U(n.targets[0]) == "array_mask" and U(n.value) != "None":
                got = (wiring.mask_polarity(n.value), U(n.value))
            if isinstance(n, ast.Assign) and isinstance(n.value, (ast.Call, ast.Attribute)) and "dropna()" in U(n.value):
                filt = U(n.value)
        ok = got is not None and got[0] == ("KEEP", want_axis) and filt is not None
        ctx.check(ok, "C17.b", f"{ty}.{ex}:mask", f"mask `{got[1] if got else None}` = KEEP per {'row' if want_axis == 'rows' else 'element'}; data filtered by dropna()",
                  f"mask `{got[1] if got else None}` has polarity/axis {got[0] if got else None}; extract_weights needs a KEEP mask per "
                  f"{'row' if want_axis == 'rows' else 'element'} (and the data must be filtered by the matching dropna())", fi.where)
    for (ty, ex) in (("polars.Series", "extract_1d_array"), ("polars.DataFrame", "extract_nd_array"), ("polars.Series", "extract_weights")):
        c = cells.get((ty, ex))
        if c is None:
            continue
        fi = c[1]
        rets = [n.value for n in ast.walk(fi.node) if isinstance(n, ast.Return) and isinstance(n.value, ast.Call)]
        ok = False
        for r in rets:
            if U(r.func) == ex:
                if ex == "extract_weights":
                    ok = U(kwarg(r, "array_mask")) == "array_mask"
                else:
                    ok = U(kwarg(r, "dropna")) == "dropna" and (ex != "extract_nd_array" or U(kwarg(r, "dim")) == "dim")
        ctx.check(ok, "C17.b", f"{ty}.{ex}:delegates", "delegates to the generic / pandas implementation with dropna (dim, mask) forwarded",
                  "the polars registration does not delegate with its arguments forwarded", fi.where)
    wiring.flatten_order(ctx, "C17.b", m, "flattening:C-order")
    for ex_ in ("extract_1d_array", "extract_nd_array"):
        f_ = con.functions[ex_]
        conv = [c for c in calls_in(f_.node) if call_is(c, "asarray", "array") and c.args and U(c.args[0]) in ("data", f_.params()[0])]
        ctx.check(len(conv) == 1 and U(kwarg(conv[0], "dtype")) in ("float", "np.float64") and not any(call_is(c, "astype") for c in calls_in(f_.node)), "C17.b",
                  f"generic.{ex_}:float64", "np.asarray(data, dtype=float): every container is converted to float64, whatever its own element type",
                  f"conversion: {[U(c)[:50] for c in conv]} - float32 / float16 inputs would keep their precision and get other bin edges than the equivalent list", f_.where)
    wiring.discarded_mask(ctx, "C17.b", m, floor=3)
    wiring.lossy_preallocation(ctx, "C17.b", [con.functions[x] for x in ("extract_1d_array", "extract_weights", "extract_nd_array",
                               "extract_and_concat_arrays")] + [m.func("_facade", x) for x in ("h2", "h3")], "extractors:columns-promoted")

    # ---- C17.c refusals ---------------------------------------------------------------------------------------------------
    ctx.rule("C17.c", "non-numeric dtypes and nulls raise before anything is returned", 4)

    def raises_on(fi, pred):
        sound = False
        for dec in (True, False):
            n_t, off_t = must_raise(fi.node, lambda e, d: d == dec and pred(U(e) if d else "not " + U(e)), when=None)
            sound = sound or (n_t >= 1 and not off_t)
        if not sound:
            return False
        return any(end_kind(p) == "raise" and any(s[0] == "cond" and pred(U(s[1]) if s[2] else "not " + U(s[1])) for s in p) for p in function_paths(fi.node))
    c = cells.get(("pandas.Series", "extract_1d_array"))
    ctx.check(bool(c) and raises_on(c[1], lambda t: "is_numeric_dtype" in t and t.startswith("not ")), "C17.c", "pandas.Series:numeric", "non-numeric Series refused",
              "non-numeric pandas Series are no longer refused", c[1].where if c else pdm.relpath)
    c = cells.get(("pandas.DataFrame", "extract_nd_array"))
    ctx.check(bool(c) and raises_on(c[1], lambda t: "non_numeric_columns" in t), "C17.c", "pandas.DataFrame:numeric", "non-numeric columns refused",
              "non-numeric DataFrame columns are no longer refused", c[1].where if c else pdm.relpath)
    c = cells.get(("polars.Series", "extract_1d_array"))
    ctx.check(bool(c) and raises_on(c[1], lambda t: "not in NUMERIC_POLARS_DTYPES" in t), "C17.c", "polars.Series:numeric", "non-numeric polars dtype refused",
              "non-numeric polars Series are no longer refused", c[1].where if c else plm.relpath)
    ctx.check(bool(c) and raises_on(c[1], lambda t: "is_null().any()" in t), "C17.c", "polars.Series:nulls", "nulls refused", "polars nulls are no longer refused",
              c[1].where if c else plm.relpath)

    # ---- C17.d accessors delegate ---------------------------------------------------------------------------------------------
    ctx.rule("C17.d", "accessors return a facade call on their own data with bins / weights / kwargs forwarded", 6)

    def returns_call(cls, meth, pred, what):
        k = m.cls(cls)
        fi = k.methods.get(meth)
        if fi is None:
            ctx.bad("C17.d", f"{cls}.{meth}", "accessor method vanished", k.where)
            return
        ctx.saw(fi)
        rets = [n.value for n in ast.walk(fi.node) if isinstance(n, ast.Return) and n.value is not None]
        calls = [r.args[1] if isinstance(r, ast.Call) and U(r.func) == "cast" and len(r.args) == 2 else r for r in rets]
        ok = calls and all(isinstance(c, ast.Call) and pred(c) for c in calls)
        ctx.check(bool(ok), "C17.d", f"{cls}.{meth}", what, f"{cls}.{meth} returns {[U(c)[:70] for c in calls]} - not {what}", fi.where)

    def fw(c, *names):
        return all(kwarg(c, n) is not None and U(kwarg(c, n)) == n for n in names) and any(k.arg is None for k in c.keywords)
    returns_call("PhystSeriesAccessor", "h1", lambda c: U(c.func) == "h1" and U(c.args[0]) == "self._series" and fw(c, "bins"), "h1(self._series, bins=bins, **kwargs)")
    returns_call("PhystDataFrameAccessor", "h1", lambda c: U(c.func) == "data.physt.h1" and fw(c, "bins", "weights"), "data.physt.h1(bins=bins, weights=weights, **kwargs)")
    returns_call("PhystDataFrameAccessor", "h2", lambda c: U(c.func) == "self.histogram" and fw(c, "bins") and U(c.args[0]) == "[column1, column2]",
                 "self.histogram([column1, column2], bins=bins, **kwargs)")
    returns_call("PhystDataFrameAccessor", "histogram",
                 lambda c: (U(c.func) == "h" and fw(c, "bins") and "data" in U(kwarg(c, "data"))) or (U(c.func) == "data.physt.h1" and any(k.arg is None for k in c.keywords)),
                 "h(data=<selected columns>, bins=bins, **kwargs) / data.physt.h1(bins, **kwargs)")
    returns_call("PhystSeries", "h1", lambda c: U(c.func) == "physt.h1" and U(c.args[0]) == "self._series" and fw(c, "bins"), "physt.h1(self._series, bins=bins, **kwargs)")
    returns_call("PhystFrame", "h", lambda c: U(c.func) in ("physt.h1", "physt.h2", "physt.h") and fw(c, "bins"), "physt.h1 / h2 / h(..., bins=bins, **kwargs)")

    dfh1 = m.cls("PhystDataFrameAccessor").methods["h1"]
    polw = {}
    for p_ in function_paths(dfh1.node):
        for s_ in p_:
            if s_[0] == "cond" and U(s_[1]) == "isinstance(weights, str) and weights in self._df.columns" and end_kind(p_) == "return":
                polw.setdefault(s_[2], set()).add(any(x[0] == "stmt" and U(x[1]) == "weights = self._df[weights]" for x in p_))
    ctx.check(polw == {True: {True}, False: {False}}, "C17.d", "PhystDataFrameAccessor.h1:weights-column", "a column name given as weights is replaced by that column",
              f"`weights = self._df[weights]` per guard decision: {polw}", dfh1.where)
    pfh = m.cls("PhystFrame").methods["h"]
    tph = U(pfh.node)
    ctx.check("if len(columns) == 2:" in tph and "return physt.h2(data[columns[0]], data[columns[1]], bins=bins, **kwargs)" in tph
              and "if len(columns) == 1:" in tph and "return physt.h1(data, bins=bins, **kwargs)" in tph
              and "return physt.h(data, bins=bins, **kwargs)" in tph
              and [U(n.value) for n in ast.walk(pfh.node) if isinstance(n, ast.Assign) and U(n.targets[0]) == "data"] == ["self._df.select(*selectors)"],
              "C17.d", "PhystFrame.h:dispatch",
              "1 column -> h1, 2 columns -> h2(first, second), more -> h", "the polars frame accessor no longer dispatches on the number of columns in order", pfh.where)
    # the NaN policy (refuse / drop with the weights, per `dropna`) is the facade's: accessors hand the column(s) on untouched
    NA_CALLS = {"notna", "dropna", "isna", "isnull", "notnull", "fillna", "drop_nulls", "fill_null", "is_null", "is_not_null", "isnan",
                "drop_nans", "fill_nan", "nan_to_num"}
    for cls_, meths in (("PhystSeriesAccessor", ("h1",)), ("PhystDataFrameAccessor", ("h1", "h2", "histogram")), ("PhystSeries", ("h1",)),
                        ("PhystFrame", ("h",))):
        k = m.classes.get(cls_)
        if k is None:
            continue
        for meth in meths:
            fi = k.methods.get(meth)
            if fi is None:
                continue
            na = [U(c)[:60] for c in calls_in(fi.node) if isinstance(c.func, ast.Attribute) and c.func.attr in NA_CALLS]
            ctx.check(not na, "C17.d", f"{cls_}.{meth}:no-own-na-filter", "no NA filtering in the accessor",
                      f"{cls_}.{meth} filters missing values itself ({na[:2]}): the facade's dropna policy (refuse when dropna=False, drop the "
                      "entry WITH its weight otherwise, NaN weights kept) is bypassed, unlike for the equivalent arrays", fi.where)

    # ---- C17.e converters -----------------------------------------------------------------------------------------------------
    ctx.rule("C17.e", "converters keep edges, closedness, contents, errors and under/overflow roles", 7)
    xm = m.module("compat.xarray")
    tx, fx = xm.functions["_h1_to_xarray"], xm.functions["_h1_from_xarray"]
    ctx.saw(tx)
    ctx.saw(fx)
    t = U(tx.node)
    attrs_ok = all(f"'{a}': h1.{a}" in t for a in ("underflow", "overflow", "inner_missed", "keep_missed")) and "attrs.update(h1.meta_data)" in t
    vars_ok = all(f"'{v}': DataArray(h1.{v}" in t for v in ("frequencies", "errors2", "bins"))
    ctx.check(attrs_ok and vars_ok, "C17.e", "to_xarray", "frequencies, errors2, bins as variables; missed values, keep_missed and meta data as attrs",
              "to_xarray no longer writes all of frequencies / errors2 / bins / underflow / overflow / inner_missed / keep_missed / meta data", tx.where)
    t2 = U(fx.node)
    from sa.schema import init_landing
    H1 = m.cls("Histogram1D")
    land = {a: init_landing(m, H1, a)[0] for a in ("underflow", "overflow", "inner_missed", "keep_missed", "frequencies", "binning", "errors2")}
    ok = "'frequencies': arr['frequencies']" in t2 and "'binning': arr['bins']" in t2 and "'errors2': arr['errors2']" in t2 and "kwargs.update(arr.attrs)" in t2 \
        and "cls(**kwargs)" in t2 and all(v == "param" for v in land.values())
    ctx.check(ok, "C17.e", "from_xarray", "variables and attrs land on named Histogram1D parameters", f"from_xarray wiring changed (landing: {land})", fx.where)
    b2i, i2b = pdm.functions["binning_to_index"], pdm.functions["index_to_binning"]
    ctx.saw(b2i)
    ctx.saw(i2b)
    c = [x for x in calls_in(b2i.node) if call_is(x, "from_arrays")]
    okb = c and U(kwarg(c[0], "left")) == "binning.bins[:, 0]" and U(kwarg(c[0], "right")) == "binning.bins[:, 1]" and const_value(kwarg(c[0], "closed")) == "left"
    ctx.check(bool(okb), "C17.e", "binning_to_index", "left = left edges, right = right edges, closed='left'", "binning_to_index crosses / drops edge columns or closedness", b2i.where)
    ti = U(i2b.node)
    oki = "np.hstack([index.left.values[:, np.newaxis], index.right.values[:, np.newaxis]])" in ti and "static_binning(bins=bins)" in ti \
        and "not index.closed_left" in ti and "index.is_overlapping" in ti
    ctx.check(oki, "C17.e", "index_to_binning", "bins = [left, right] pairs of every interval (gaps kept); only left-closed, non-overlapping indices",
              "index_to_binning does not rebuild the (left, right) pair of every interval (numpy-style edges lose gaps) or dropped its refusals", i2b.where)
    for name, cols in (("_h1_to_dataframe", ("h1.frequencies", "h1.errors")), ("_h1_to_series", ("h1.frequencies",))):
        f = pdm.functions[name]
        tf = U(f.node)
        ctx.check(all(c_ in tf for c_ in cols) and "binning_to_index(h1.binning" in tf, "C17.e", name, "contents (errors) indexed by the binning's IntervalIndex",
                  f"{name} no longer pairs the contents with the binning's index", f.where)
    g4 = m.module("compat.geant4").functions["_create_h1"]
    ctx.saw(g4)
    c = [x for x in calls_in(g4.node) if U(x.func) == "Histogram1D"]
    want = {"frequencies": "data[1:-1, 1]", "errors2": "data[1:-1, 2]", "underflow": "data[0, 1]", "overflow": "data[-1, 1]"}
    okg = c and all(U(kwarg(c[0], k)) == v for k, v in want.items())
    tg = U(g4.node)
    sc = [x for x in calls_in(g4.node) if U(x.func) == "Statistics"]
    okg = okg and bool(sc) and U(kwarg(sc[0], "sum")) == "data[1:-1, 3].sum()" and U(kwarg(sc[0], "sum2")) == "data[1:-1, 4].sum()"
    ctx.check(bool(okg), "C17.e", "geant4._create_h1", "first row -> underflow, last row -> overflow, rows between -> contents / errors / sums",
              "the Geant4 reader no longer maps first / last / inner rows to underflow / overflow / contents consistently", g4.where)

    g2 = m.module("compat.geant4").functions["_create_h2"]
    ctx.saw(g2)
    t2 = U(g2.node)
    okg2 = _fw_call_ok(g2) and "frequencies = data[:, 1].reshape([b + 2 for b in shape])" in t2 \
        and "frequencies = frequencies[1:-1, 1:-1]" in t2 and "errors2 = data[:, 2].reshape([b + 2 for b in shape])" in t2 and "errors2 = errors2[1:-1, 1:-1]" in t2
    c2 = [c for c in calls_in(g2.node) if U(c.func) == "Histogram2D" and c.keywords]
    okg2 = okg2 and bool(c2) and all(U(kwarg(c2[-1], k_)) == k_ for k_ in ("binnings", "frequencies", "errors2"))
    ctx.check(okg2, "C17.e", "geant4._create_h2", "per axis (max - min) / count wide bins over (min, max); column 1 -> contents, column 2 -> errors2, outer rows / columns cut off",
              "the Geant4 2-D reader no longer maps columns 1 / 2 to contents / squared errors over the declared axes", g2.where)
    t1 = U(g4.node)
    ctx.check(_fw_call_ok(g4) and any(U(kwarg(c, "stats")) == "stats" for c in calls_in(g4.node) if U(c.func) == "Histogram1D"),
              "C17.e", "geant4._create_h1:bins-and-stats", "bins of width (max - min) / count over (min, max); the sums reach the histogram as statistics",
              "the Geant4 1-D reader changed its bin width formula or drops the statistics", g4.where)
    ctx.check("return Dataset(data_vars, coords, attrs)" in U(tx.node), "C17.e", "to_xarray:dataset", "Dataset(data_vars, coords, attrs)",
              "the Dataset is no longer built as (data_vars, coords, attrs)", tx.where)

    # ---- C17.f dask -----------------------------------------------------------------------------------------------------------
    ctx.rule("C17.f", "each dask chunk runs the plain facade with the caller's bins and kwargs; the result sums all chunks", 3)
    dm = m.module("compat.dask")
    for fname, orig in (("histogram1d", "original_h1"), ("histogramdd", "original_hdd")):
        f = dm.functions[fname]
        ctx.saw(f)
        inner = [n for n in ast.walk(f.node) if isinstance(n, ast.FunctionDef) and n is not f.node]
        rr_ = [U(r.value) for r in ast.walk(inner[0]) if isinstance(r, ast.Return)] if inner else []
        ok = inner and rr_ == [f"{orig}(array, bins, **kwargs)"]
        ok = ok and any(U(kwarg(c_, "func")) == inner[0].name for c_ in calls_in(f.node) if U(c_.func) == "_run_dask")
        ctx.check(bool(ok), "C17.f", f"dask.{fname}", f"chunk function = {orig}(array, bins, **kwargs), handed to _run_dask",
                  "the per-chunk function does not call the plain facade with the caller's bins and kwargs", f.where)
    imp = dm.imports
    ctx.check(imp.get("original_h1") == ("physt._facade", "h1") and imp.get("original_hdd") == ("physt._facade", "histogramdd"), "C17.f", "dask:facades",
              "original_h1 / original_hdd are the plain facades", "the dask module no longer wraps physt's own facades", dm.relpath)

    for fname in ("histogram1d", "histogramdd"):
        f = dm.functions[fname]
        body_ = [U(st) for st in f.node.body]
        oka = "kwargs['adaptive'] = True" in body_ and any(isinstance(st, ast.If) and "kwargs.get('adaptive', True)" in U(st.test) and any(isinstance(b, ast.Raise) for b in st.body)
                                                          for st in f.node.body)
        ctx.check(oka, "C17.f", f"dask.{fname}:adaptive", "chunks are histogrammed adaptively (so that their sum exists); adaptive=False is refused",
                  "the dask facade no longer forces adaptive chunk histograms", f.where)
    rd = dm.functions["_run_dask"]
    pol_ = {}
    for p_ in function_paths(rd.node):
        cs_ = dict((U(s_[1]), s_[2]) for s_ in p_ if s_[0] == "cond")
        if cs_.get("compute") is True and "method" in cs_ and end_kind(p_) == "return":
            pol_.setdefault(cs_["method"], set()).add(U(p_[-1][2].value))
    ctx.check(pol_.get(False) == {"dask.get(graph, result_name)"} and "method(graph, result_name)" in (pol_.get(True) or set()), "C17.f", "dask._run_dask:dispatch",
              "no method: dask.get(graph, result); a callable: method(graph, result)", f"results per `method` decision: {pol_}", rd.where)
    h2d_ = dm.functions["histogram2d"]
    th = U(h2d_.node)
    ctx.check("kwargs['dim'] = 2" in th and "kwargs['axis_names'] = [data1.name, data2.name]" in th, "C17.f", "dask.histogram2d:names-and-dim",
              "dimension 2 and the inputs' names are passed on", "dask histogram2d no longer passes dim=2 / the inputs' names", h2d_.where)
    # plain arrays given to the dask facades are wrapped with a positive chunk size; 2-D / 3-D aliases reach histogramdd
    NONCALL = {"size", "shape", "ndim", "dtype", "T", "nbytes", "itemsize", "real", "imag", "flat"}
    bad_calls = [f"{fi.qualname}: `{U(c)[:50]}`" for fi in dm.functions.values() for c in calls_in(fi.node)
                 if isinstance(c.func, ast.Attribute) and c.func.attr in NONCALL and not c.args and not c.keywords]
    ctx.check(not bad_calls, "C17.f", "dask:array-attributes-not-called", "no ndarray attribute (size, shape, ndim, ...) is called like a method",
              f"{bad_calls[:2]} - `.size` etc. are attributes of ndarray / dask arrays: the call raises TypeError for every input", dm.relpath)
    fa = [(fi, c) for fi in dm.functions.values() for c in calls_in(fi.node) if U(c.func).endswith("from_array")]
    for fi, c in fa:
        ch = kwarg(c, "chunks")
        first = ch.elts[0] if isinstance(ch, ast.Tuple) and ch.elts else ch
        okc = first is not None and (isinstance(first, ast.Call) and U(first.func) == "max" and any(const_value(a) == 1 for a in first.args)
                                     or isinstance(first, ast.Constant) and isinstance(first.value, int) and first.value >= 1
                                     or isinstance(first, ast.Constant) and first.value in ("auto",))
        ctx.check(bool(okc), "C17.f", f"dask.{fi.name}:chunks-positive:{U(c.args[0]) if c.args else ''}", "row chunk size = max(1, ...)",
                  f"`{U(c)[:80]}`: the row chunk size can be 0 (few values) or is not an integer - dask refuses what the plain facade histograms", fi.where)
    ctx.check(len(fa) >= 4, "C17.f", "dask:from_array-sites", f"{len(fa)} wrapping sites", f"only {len(fa)} from_array sites found", dm.relpath)
    h2d, h3d = dm.functions.get("histogram2d"), dm.functions.get("h3")
    ok2 = h2d is not None and "data = dask.array.stack([data1, data2], axis=1)" in U(h2d.node) and "return histogramdd(data, bins, **kwargs)" in U(h2d.node)
    ok3 = h3d is not None and "return histogramdd(data, bins, **kwargs)" in U(h3d.node)
    ctx.check(ok2 and ok3, "C17.f", "dask:h2-h3", "histogram2d stacks (data1, data2) as columns; both delegate to histogramdd with bins and kwargs",
              "the dask 2-D / 3-D facades no longer delegate to histogramdd with the columns in order", (h2d or dm).where if h2d else dm.relpath)

    wiring.params_used(ctx, "C17.d", wiring.funcs_of(m, "compat.pandas", "compat.polars", "compat.dask", "compat.xarray", "compat.geant4"),
                       "compat:options-read")
    wiring.same_name_forwarding(ctx, "C17.d", m, wiring.funcs_of(m, "compat.pandas", "compat.polars", "compat.dask", "compat.xarray", "compat.geant4"),
                       "compat:options-forwarded")

    # ---- C17.g names carried by the container ---------------------------------------------------------------------------
    ctx.rule("C17.g", "axis names carried by the inputs reach the histogram whenever the caller gave none", 4)
    fac = m.module("_facade")
    for fname, ex, kw_ in (("h1", "extract_axis_name", "axis_name"), ("h", "extract_axis_names", "axis_names")):
        fi = fac.functions[fname]
        ctx.saw(fi)
        asg = [n for n in ast.walk(fi.node) if isinstance(n, ast.Assign) and U(n.targets[0]) == kw_ and isinstance(n.value, ast.Call)
               and call_is(n.value, ex)]
        okx = bool(asg) and U(asg[0].value.args[0]) == "data" and U(kwarg(asg[0].value, kw_)) == kw_
        passed = any(U(kwarg(c, kw_)) == kw_ for c in calls_in(fi.node) if kwarg(c, kw_) is not None and not call_is(c, ex))
        ctx.check(okx and passed, "C17.g", f"{fname}:{kw_}", f"{kw_} = {ex}(data, {kw_}={kw_}) handed to the histogram",
                  f"{fname} does not resolve the axis name(s) through {ex}(data, {kw_}={kw_}) and pass them on", fi.where)
    for fname in ("h2", "h3"):
        fi = fac.functions[fname]
        ctx.saw(fi)
        n_paths, bad_paths = 0, []
        for path in function_paths(fi.node):
            if end_kind(path) != "return":
                continue
            cs = [(U(s_[1]), s_[2]) for s_ in path if s_[0] == "cond"]
            if ("'axis_names' not in kwargs", True) not in cs:
                continue
            n_paths += 1
            stores = [s_[1] for s_ in path if s_[0] == "stmt" and isinstance(s_[1], ast.Assign)
                      and U(s_[1].targets[0]) == "kwargs['axis_names']"]
            extra = [c for c, v in cs[cs.index(("'axis_names' not in kwargs", True)) + 1:] if "name" in c]
            if not stores or extra:
                bad_paths.append(f"no names stored when {[c for c, v in cs if v][-2:]}" if not stores else f"names stored only if `{extra[0]}`")
        ctx.check(n_paths >= 1 and not bad_paths, "C17.g", f"{fname}:axis_names", f"{n_paths} path(s) without explicit names: the inputs' own "
                  "names are stored for every column", "; ".join(sorted(set(bad_paths))[:2]) + " - a name carried by one input is dropped", fi.where)
