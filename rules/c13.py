"""C13 - content dtype is consistent and never loses information."""
from __future__ import annotations

import ast

from sa.model import AnalysisError, calls_in
from sa.paths import function_paths, end_kind, consistent
from sa.util import U, writes_of, Env, call_is, const_value

EXPLANATION = (
    "C13: every store that can change the element type of frequencies / errors2 / missed (operand arrays, scalar "
    "factors, weights, true division) is dominated on its path by a dtype coercion of the same histogram with the "
    "dtype of that foreign value (or a float type for division); _dtype is written only by __init__, set_dtype and "
    "copy and always together with arrays of that dtype; set_dtype applies the integrality and range checks to both "
    "arrays before the first store; both construction kernels refuse an integer dtype with float weights before "
    "allocating."
)
NOT_DECIDED = "numpy's promote_types / can_cast lattice; integer overflow of counts; value loss when the caller passes check=False."
TRUSTED = ["np.promote_types / np.can_cast semantics", "ndarray.astype converts, np.zeros(dtype=d) allocates dtype d"]

CONTENT_ATTRS = {"_frequencies", "_errors2", "_missed", "frequencies", "errors2", "underflow", "overflow"}
FLOAT_TYPES = {"np.float64", "float", "np.float32", "np.double", "'float'", "'float64'", "np.float128", "np.longdouble"}


def _coercions_before(path, upto, recv_names):
    """(receiver, arg expr) of _coerce_dtype / set_dtype calls executed before step index `upto`."""
    out = []
    for step in path[:upto]:
        if step[0] == "stmt":
            for c in calls_in(step[1]):
                if isinstance(c.func, ast.Attribute) and c.func.attr in ("_coerce_dtype", "set_dtype") and c.args:
                    out.append((U(c.func.value), c.args[0]))
    return out


def _first_store(path, recv):
    for i, step in enumerate(path):
        if step[0] == "stmt":
            for w in writes_of(step[1]):
                if w.root == recv and w.attr in CONTENT_ATTRS and w.how in ("store", "aug", "store-subscript", "aug-subscript"):
                    return i, step[1]
    return None, None


def _array_sources(st, recv):
    """Names (other than `recv`) whose frequencies / errors2 arrays are read in the value stored by `st`."""
    val = getattr(st, "value", None)
    out = set()
    if val is None:
        return out
    for n in ast.walk(val):
        if (isinstance(n, ast.Attribute) and n.attr in ("frequencies", "errors2", "_frequencies", "_errors2")
                and isinstance(n.value, ast.Name) and n.value.id != recv):
            out.add(n.value.id)
    return out


def _site(ctx, rule, fi, name, select, accept, recv="self", loops=1, floor=1, operands=False):
    """All selected paths that store contents must coerce `recv` with an accepted argument first."""
    ctx.saw(fi)
    n = 0
    bad = []
    for path in function_paths(fi.node, loops=loops):
        if not consistent(path):
            continue
        i, st = _first_store(path, recv)
        if i is None:
            continue
        env = Env()
        for s in path[:i]:
            env.step(s)
        if not select(path, env):
            continue
        n += 1
        cs = _coercions_before(path, i, (recv,))
        good = [a for r, a in cs if r == recv and accept(a, env)]
        if not good:
            others = [f"{r}._coerce_dtype({U(a)})" for r, a in cs]
            bad.append(f"`{U(st)[:70]}` is not preceded by a suitable dtype coercion of `{recv}`"
                       + (f" (found only {others})" if others else " (none on the path)"))
        elif operands:
            # every other histogram object whose arrays feed the stored value must have had its own dtype coerced in
            for obj in sorted(_array_sources(st, recv)):
                texts = {f"{obj}.dtype", f"{obj}._dtype", f"{obj}.frequencies.dtype", f"{obj}._frequencies.dtype"}
                if not any(r == recv and U(a) in texts for r, a in cs):
                    bad.append(f"`{U(st)[:70]}` stores arrays taken from `{obj}` but `{recv}` was not coerced with "
                               f"`{obj}.dtype` first (coerced with {[U(a) for r, a in cs if r == recv]})")
    key = f"{fi.qualname}:{name}"
    if n < floor:
        ctx.bad(rule, key, f"expected at least {floor} storing path(s) for this site, found {n} (anchor moved?)", fi.where)
    elif bad:
        ctx.bad(rule, key, " ; ".join(sorted(set(bad))[:3]), fi.where)
    else:
        ctx.ok(rule, key, f"{n} storing path(s), each dominated by the coercion", fi.where)


def _cond(path, text, value=True):
    return any(s[0] == "cond" and U(s[1]) == text and s[2] == value for s in path)


def check_int_float_refusal(ctx, rule, m, kname):
    if True:
        fi = m.func("_construction", kname)
        ctx.saw(fi)
        found = False
        before_alloc = True
        for path in function_paths(fi.node, loops=0 if kname.startswith("calculate_1d") else 1):
            alloc_seen = False
            for step in path:
                if step[0] == "stmt" and any(call_is(c, "zeros", "histogramdd") for c in calls_in(step[1])):
                    alloc_seen = True
                if step[0] == "cond" and step[2] and end_kind(path) == "raise":
                    e = step[1]
                    if isinstance(e, ast.BoolOp) and isinstance(e.op, ast.And) and len(e.values) == 2:
                        a, b = e.values
                        def kind_in_iu(x):
                            return (isinstance(x, ast.Compare) and len(x.ops) == 1 and isinstance(x.ops[0], ast.In)
                                    and U(x.left).endswith(".kind") and const_value(x.comparators[0]) in ("iu", "ui")
                                    and "weight" not in U(x.left))
                        def w_kind_f(x):
                            return (isinstance(x, ast.Compare) and len(x.ops) == 1 and isinstance(x.ops[0], ast.Eq)
                                    and U(x.left).endswith(".dtype.kind") and "weight" in U(x.left)
                                    and const_value(x.comparators[0]) == "f")
                        if (kind_in_iu(a) and w_kind_f(b)) or (kind_in_iu(b) and w_kind_f(a)):
                            if step is path[-2] or True:
                                found = True
                                if alloc_seen:
                                    before_alloc = False
        ctx.check(found and before_alloc, rule, f"{kname}:int-dtype-float-weights",
                  "raises when <dtype>.kind in 'iu' and weights.dtype.kind == 'f', before any allocation",
                  "the refusal of an integer dtype with float weights is missing, malformed (e.g. `kind == 'iu'`) or comes "
                  "after the arrays were allocated", fi.where)


def _typed_with_own_dtype(v) -> bool:
    """`<expr>.astype(self.dtype)` / `np.asarray(<expr>, dtype=self.dtype)`: the stored array has the reported dtype."""
    own = ("self.dtype", "self._dtype")
    if isinstance(v, ast.Call) and isinstance(v.func, ast.Attribute):
        if v.func.attr == "astype" and v.args and U(v.args[0]) in own:
            return True
        if v.func.attr in ("asarray", "array") and any(k.arg == "dtype" and U(k.value) in own for k in v.keywords):
            return True
    return False


def check_fill_coercion(ctx, rule, m):
    """fill / fill_n (1D, ND): the weight's / weights' dtype is coerced before the first store of contents or missed values."""
    H1, HN = m.cls("Histogram1D"), m.cls("HistogramND")

    def arg_is(*texts):
        return lambda a, env: U(a) in texts or U(env.expand(a)) in texts
    for cls in (H1, HN):
        fi = cls.methods["fill"]
        w = [p for p in fi.params() if p != "self"][1]
        _site(ctx, rule, fi, "weight", lambda p, e: True, arg_is(f"type({w})", f"np.asarray({w}).dtype", f"np.dtype(type({w}))"), floor=2)
    f1 = H1.methods["fill_n"]
    _site(ctx, rule, f1, "weights", lambda p, e: _cond(p, "weights_array is not None"),
          lambda a, env: U(a).endswith(".dtype") and "weights" in U(a), floor=1)
    fn = HN.methods["fill_n"]
    _site(ctx, rule, fn, "weights", lambda p, e: _cond(p, "weights is not None") and not _cond(p, "weights is not None", False)
          and not any(s[0] == "cond" and "weights.shape" in U(s[1]) and not s[2] for s in p),
          lambda a, env: U(a).endswith(".dtype") and "weights" in U(a), floor=1)
    # the increments themselves (kernel results, weights) reach the arrays only through in-place `+=`, which cannot change
    # the element type; a plain re-binding `self.frequencies = self.frequencies + inc` would follow numpy promotion with
    # whatever dtype the increment has while _dtype stays
    for cls in (H1, HN):
        for name in ("fill", "fill_n"):
            fi = cls.methods[name]
            ctx.saw(fi)
            plain, aug = [], 0
            for st in ast.walk(fi.node):
                if not isinstance(st, ast.stmt):
                    continue
                for w in writes_of(st):
                    if w.root == "self" and w.attr in ("_frequencies", "_errors2", "frequencies", "errors2"):
                        if w.how in ("aug", "aug-subscript"):
                            aug += 1
                        elif not _typed_with_own_dtype(getattr(st, "value", None)):
                            plain.append(U(st)[:70])
            ctx.check(aug >= 2 and not plain, rule, f"{cls.name}.{name}:type-stable-stores",
                      f"{aug} in-place accumulations, no re-binding of the content arrays",
                      f"content arrays are re-bound instead of accumulated in place ({plain[:2]}): the result takes the promoted element "
                      "type of the increment while the reported dtype stays" if plain else f"only {aug} in-place accumulations found",
                      fi.where)



def check_set_dtype_checks(ctx, rule, m):
    """set_dtype: integrality and range checks over frequencies AND errors2, all before the first store."""
    HB = m.cls("HistogramBase")
    sd = HB.methods["set_dtype"]
    ctx.saw(sd)
    loops = [n for n in ast.walk(sd.node) if isinstance(n, ast.For)]
    integ = rng = None
    for lp in loops:
        it = U(lp.iter)
        body = "".join(U(b) for b in lp.body)
        both = ("frequencies" in it and "errors2" in it)
        if "% 1" in body:
            integ = both
        if "max" in body and "min" in body:
            rng = both
    ctx.check(integ is True, rule, "HistogramBase.set_dtype:integrality-both-arrays",
              "non-integral values are looked for in frequencies and errors2",
              "the integrality check does not cover both frequencies and errors2", sd.where)
    ctx.check(rng is True, rule, "HistogramBase.set_dtype:range-both-arrays", "range check over both arrays",
              "the range check does not cover both frequencies and errors2", sd.where)
    guard_ok = False
    order_ok = True
    for path in function_paths(sd.node):
        stored = False
        for step in path:
            if step[0] == "stmt" and any(w.root == "self" and w.attr in ("_dtype", "_frequencies", "_errors2", "_missed")
                                         for w in writes_of(step[1])):
                stored = True
            if step[0] == "cond" and stored and not U(step[1]).endswith("is not None"):
                order_ok = False
        if end_kind(path) == "raise" and stored:
            order_ok = False
        cs = [(U(s[1]), s[2]) for s in path if s[0] == "cond"]
        if ("np.issubdtype(value, np.integer)", True) in cs and ("self.dtype.kind == 'f'", True) in cs:
            guard_ok = True
    # the range check must be reached on every checked, non-castable path - also for float targets
    missing_range = 0
    n_checked = 0
    for path in function_paths(sd.node):
        cs = [(U(s[1]), s[2]) for s in path if s[0] == "cond"]
        if not consistent(path):
            continue
        if ("check", True) not in cs or not any(t.startswith("self.dtype is None or np.can_cast") and v is False for t, v in cs):
            continue
        if end_kind(path) == "raise":
            continue
        n_checked += 1
        if not any("type_info.max" in t for t, v in cs):
            missing_range += 1
    ctx.check(n_checked > 0 and missing_range == 0, rule, "HistogramBase.set_dtype:range-check-every-target",
              f"all {n_checked} checked non-castable converting paths test the values against the target type's range",
              f"{missing_range} of {n_checked} checked, non-castable paths convert without the range test (e.g. it is nested under the integer-target test, "
              "so narrowing to a smaller float type is never checked)", sd.where)
    ctx.check(guard_ok, rule, "HistogramBase.set_dtype:integrality-guard",
              "integrality is checked when the target is integral and the source is floating",
              "the integrality check is no longer applied for float -> integer conversions", sd.where)
    ctx.check(order_ok, rule, "HistogramBase.set_dtype:checks-before-stores", "every test / raise precedes the first store",
              "set_dtype stores before a later check", sd.where)


def check_missed_alloc(ctx, rule, m):
    """The missed store is created from the given values, unmodified, with the histogram's dtype."""
    for cname, want in (("Histogram1D", "missed"), ("HistogramND", "[missed]")):
        cls = m.cls(cname)
        init = cls.methods["__init__"]
        ctx.saw(init)
        stores = [st for st in ast.walk(init.node) if isinstance(st, ast.Assign) and U(st.targets[0]) == "self._missed"]
        ok = bool(stores)
        given = False
        for st in stores:
            v = st.value
            if not (isinstance(v, ast.Call) and call_is(v, "array", "zeros") and any(k.arg == "dtype" and U(k.value) == "self.dtype" for k in v.keywords)):
                ok = False
            elif call_is(v, "array"):
                if U(v.args[0]) == want:
                    given = True
                else:
                    ok = False
        ctx.check(ok and given, rule, f"{cname}.__init__:missed-dtype", f"_missed = np.array({want}, dtype=self.dtype) - the values given, unmodified",
                  "the missed store is not created from the given values (unmodified) with the histogram's dtype "
                  "(e.g. NaN 'unknown' markers are rewritten)", init.where)


def check_arrays_follow_dtype(ctx, rule, m):
    """Every non-raising path of set_dtype that stores _dtype converts all three content stores with that dtype."""
    HB = m.cls("HistogramBase")
    sd = HB.methods["set_dtype"]
    ctx.saw(sd)
    ok_paths = 0
    bad = []
    for path in function_paths(sd.node):
        if end_kind(path) == "raise":
            continue
        st_dtype = None
        conv = {}
        for step in path:
            if step[0] == "stmt" and isinstance(step[1], ast.Assign):
                for w in writes_of(step[1]):
                    if w.root == "self" and w.attr == "_dtype":
                        st_dtype = U(step[1].value)
                    if w.root == "self" and w.attr in ("_frequencies", "_errors2", "_missed"):
                        v = step[1].value
                        if isinstance(v, ast.Call) and isinstance(v.func, ast.Attribute) and v.func.attr == "astype" \
                                and U(v.func.value) == f"self.{w.attr}" and v.args:
                            conv[w.attr] = U(v.args[0])
                        else:
                            conv[w.attr] = "?" + U(v)
        if st_dtype is None:
            if conv:
                bad.append(f"path converts {sorted(conv)} without updating _dtype")
            continue
        ok_paths += 1
        for a in ("_frequencies", "_errors2", "_missed"):
            skipped = any(s[0] == "cond" and U(s[1]) == f"self.{a} is not None" and not s[2] for s in path)
            if skipped:
                continue
            if conv.get(a) != st_dtype:
                bad.append(f"_dtype = {st_dtype} but {a} converted with {conv.get(a)}")
    ctx.check(ok_paths >= 1 and not bad, rule, "HistogramBase.set_dtype:arrays-follow-dtype",
              "every path that stores _dtype converts _frequencies, _errors2 and _missed with astype(<same dtype>)",
              "; ".join(sorted(set(bad))) or "no path stores _dtype", sd.where)


def check_init_dtype(ctx, rule, m):
    """HistogramBase.__init__: the reported dtype is the element type of the frequencies array actually stored, and the
    squared errors are either derived from that array or converted to the reported dtype."""
    HB = m.cls("HistogramBase")
    init = HB.methods["__init__"]
    ctx.saw(init)
    n = 0
    probs = []
    for path in function_paths(init.node):
        if end_kind(path) == "raise" or not consistent(path):
            continue
        n += 1
        dsrc = None       # how the local `dtype` relates to the stored frequencies on this path
        stored = False
        n_dt = 0
        for s_ in path:
            if s_[0] != "stmt":
                continue
            st = s_[1]
            if isinstance(st, ast.Assign):
                tgt, val = U(st.targets[0]), st.value
                if tgt in ("self._frequencies", "self.frequencies"):
                    stored = True
                    if isinstance(val, ast.Call) and call_is(val, "zeros", "zeros_like", "empty") and \
                            any(k.arg == "dtype" and U(k.value) == "dtype" for k in val.keywords):
                        dsrc = "allocated-with"
                if tgt == "dtype" and U(val) in ("frequencies.dtype", "self._frequencies.dtype", "self.frequencies.dtype"):
                    dsrc = "read-from-array"
                elif tgt == "dtype" and dsrc == "read-from-array":
                    dsrc = None
                t0 = st.targets[0]
                if tgt == "self._dtype" or (isinstance(t0, ast.Tuple) and any(U(e_) == "self._dtype" for e_ in t0.elts)):
                    n_dt += 1
                    arg = val.args[0] if isinstance(val, ast.Call) and val.args else val
                    if not (stored and U(arg) == "dtype" and dsrc in ("allocated-with", "read-from-array")):
                        probs.append(f"`{U(st)[:60]}`: the dtype stored is not the element type of the frequencies array just stored")
                if tgt in ("self.errors2", "self._errors2"):
                    typed = _typed_with_own_dtype(val) or (isinstance(val, ast.Call) and any(
                        k.arg == "dtype" and U(k.value) in ("self.dtype", "self._dtype", "self._frequencies.dtype") for k in val.keywords))
                    names = {U(x) for x in ast.walk(val) if isinstance(x, ast.Attribute) and U(x.value) == "self"}
                    derived = bool(names) and names <= {"self._frequencies", "self.frequencies"} and not any(
                        isinstance(x, ast.Name) and x.id not in ("self", "abs", "np") for x in ast.walk(val))
                    if not (typed or derived):
                        probs.append(f"`{U(st)[:70]}` stores squared errors of whatever type the caller passed (reported dtype stays)")
        if n_dt != 1:
            probs.append(f"a constructing path stores _dtype {n_dt} times")
    ctx.check(n >= 2 and not probs, rule, "HistogramBase.__init__:dtype-is-the-arrays'", f"{n} constructing paths: _dtype = element type of the "
              "stored frequencies; errors2 derived from them or converted to that dtype", "; ".join(sorted(set(probs))[:2]), init.where)


def check_init_through_setter(ctx, rule, m):
    """HistogramBase.__init__: contents supplied by the caller reach the histogram through the validating `frequencies`
    setter on every path; only the all-zero allocation is stored directly."""
    HB = m.cls("HistogramBase")
    init = HB.methods["__init__"]
    ctx.saw(init)
    direct = []
    via = 0
    for st in ast.walk(init.node):
        if isinstance(st, ast.Assign):
            tgt = U(st.targets[0])
            if tgt == "self.frequencies":
                via += 1
            if tgt == "self._frequencies" and not (isinstance(st.value, ast.Call) and call_is(st.value, "zeros", "zeros_like")):
                direct.append(U(st)[:80])
    ctx.check(via >= 1 and not direct, rule, "HistogramBase.__init__:contents-through-setter",
              "given frequencies are stored with `self.frequencies = ...` (shape and sign validated)",
              (f"`{direct[0]}` stores caller-supplied contents directly: negative values are accepted without free arithmetics and the "
               "shape is not compared with the bins") if direct else "no store through the setter found", init.where)


def check_operator_coercion(ctx, rule, m, names=("__iadd__", "__isub__", "__imul__", "__itruediv__")):
    """Arithmetic operators coerce the histogram's dtype with the operand's / factor's dtype (float for division) first."""
    HB = m.cls("HistogramBase")

    def arg_is(*texts):
        return lambda a, env: U(a) in texts or U(env.expand(a)) in texts

    def dtype_of_asarray(param):
        def acc(a, env):
            e = env.expand(a)
            t = U(e)
            return t in (f"np.asarray({param}).dtype", f"type({param})", f"np.asarray({param}, dtype=None).dtype",
                         f"np.dtype(type({param}))", f"np.array({param}).dtype")
        return acc
    if "__iadd__" in names:
        pass
    ia = HB.methods["__iadd__"]
    o = [p for p in ia.params() if p != "self"][0]
    _site(ctx, rule, ia, "histogram-operand", lambda p, e: _cond(p, f"isinstance({o}, HistogramBase)"), arg_is(f"{o}.dtype"), floor=2, operands=True)
    _site(ctx, rule, ia, "array-operand", lambda p, e: _cond(p, f"isinstance({o}, HistogramBase)", False),
          dtype_of_asarray(o), floor=1)
    isub = HB.methods["__isub__"]
    o = [p for p in isub.params() if p != "self"][0]
    _site(ctx, rule, isub, "histogram-operand", lambda p, e: _cond(p, f"isinstance({o}, HistogramBase)"),
          lambda a, env: U(a).endswith(".dtype"), floor=1, operands=True)
    im = HB.methods["__imul__"]
    o = [p for p in im.params() if p != "self"][0]
    _site(ctx, rule, im, "factor", lambda p, e: True, dtype_of_asarray(o), floor=2)
    idv = HB.methods["__itruediv__"]
    _site(ctx, rule, idv, "division", lambda p, e: True, lambda a, env: U(a) in FLOAT_TYPES, floor=2)


def run(ctx):
    m = ctx.model
    H1, HN, HB, H2 = m.cls("Histogram1D"), m.cls("HistogramND"), m.cls("HistogramBase"), m.cls("Histogram2D")
    ctx.rule("C13.a", "a dtype coercion with the foreign value's dtype dominates every type-changing content store", 11)

    def arg_is(*texts):
        return lambda a, env: U(a) in texts or U(env.expand(a)) in texts

    def dtype_of_asarray(param):
        def acc(a, env):
            e = env.expand(a)
            t = U(e)
            return t in (f"np.asarray({param}).dtype", f"type({param})", f"np.asarray({param}, dtype=None).dtype",
                         f"np.result_type({param})", f"np.dtype(type({param}))", f"np.array({param}).dtype")
        return acc

    check_fill_coercion(ctx, "C13.a", m)
    check_operator_coercion(ctx, "C13.a", m)
    pn = H2.methods["partial_normalize"]
    _site(ctx, "C13.a", pn, "division", lambda p, e: True, lambda a, env: U(a) in FLOAT_TYPES, floor=1)
    HC = m.cls("HistogramCollection")
    nb = HC.methods["normalize_bins"]
    loopvar = None
    for n in ast.walk(nb.node):
        if isinstance(n, ast.For) and isinstance(n.target, ast.Name):
            loopvar = n.target.id
    if loopvar is None:
        raise AnalysisError("HistogramCollection.normalize_bins: member loop not found")
    _site(ctx, "C13.a", nb, "division", lambda p, e: True, lambda a, env: U(a) in FLOAT_TYPES, recv=loopvar, floor=1)
    # any other method of the hierarchy that divides / scales contents in place must coerce as well
    for c in m.classes.values():
        if not m.is_subclass(c, "HistogramBase"):
            continue
        for fi in c.methods.values():
            if (c.name, fi.name) in {("HistogramBase", "__itruediv__"), ("Histogram2D", "partial_normalize")}:
                continue
            for st in ast.walk(fi.node):
                if isinstance(st, ast.AugAssign) and isinstance(st.op, ast.Div):
                    for w in writes_of(st):
                        if w.root == "self" and w.attr in ("_frequencies", "_errors2"):
                            has = any(isinstance(cc.func, ast.Attribute) and cc.func.attr in ("_coerce_dtype", "set_dtype")
                                      for cc in calls_in(fi.node))
                            ctx.check(has, "C13.a", f"{fi.qualname}:division-other", "in-place division with a coercion in the method",
                                      f"`{U(st)}` divides integer-typed contents in place without any dtype coercion", fi.where)

    # ---- C13.b reported dtype == arrays' dtype -------------------------------------------------------
    ctx.rule("C13.b", "_dtype is written only by __init__ / set_dtype / copy, together with arrays of that dtype; "
             "_reshape_data allocates with the current arrays' dtype", 5)
    allowed = {("HistogramBase", "__init__"), ("HistogramBase", "set_dtype"), ("HistogramBase", "copy")}
    writers = []
    for c in m.classes.values():
        for fi in list(c.methods.values()) + list(c.setters.values()):
            for st in ast.walk(fi.node):
                if isinstance(st, ast.stmt):
                    for w in writes_of(st):
                        if w.attrs and w.attrs[0] == "_dtype":
                            writers.append((c.name, fi.name, fi))
    for cn, fn_, fi in writers:
        ctx.check((cn, fn_) in allowed, "C13.b", f"who-may-write:_dtype:{cn}.{fn_}", "allowed writer",
                  f"{cn}.{fn_} stores _dtype although only __init__, set_dtype and copy may (the reported dtype must "
                  "change together with the arrays)", fi.where)
    check_arrays_follow_dtype(ctx, "C13.b", m)
    check_init_dtype(ctx, "C13.b", m)
    rd = HB.methods["_reshape_data"]
    ctx.saw(rd)
    allocs = [c for c in calls_in(rd.node) if call_is(c, "zeros", "empty", "zeros_like")]
    good = [c for c in allocs if any(k.arg == "dtype" and U(k.value) in ("self._frequencies.dtype", "self._errors2.dtype") for k in c.keywords)]
    ctx.check(len(allocs) >= 2 and len(good) == len(allocs), "C13.b", "HistogramBase._reshape_data:alloc-dtype",
              f"{len(allocs)} allocations with the element type of the current arrays", "a reshaped array is not allocated with the element type of the array it replaces (the declared dtype may differ and would truncate)",
              rd.where)
    cp = HB.methods["copy"]
    ctx.saw(cp)
    okc = any(isinstance(st, ast.Assign) and U(st.targets[0]).endswith("._dtype") and U(st.value) in ("self.dtype", "self._dtype")
              for st in ast.walk(cp.node))
    ctx.check(okc, "C13.b", "HistogramBase.copy:dtype", "the copy's _dtype is the source's", "copy does not carry _dtype over", cp.where)
    check_missed_alloc(ctx, "C13.b", m)

    # ---- C13.c checks before conversion ----------------------------------------------------------------------
    ctx.rule("C13.c", "set_dtype: integrality (int target, float source) and range checks cover frequencies AND errors2 "
             "and every raise precedes the first store", 3)
    check_set_dtype_checks(ctx, "C13.c", m)

    # ---- C13.d integer dtype + float weights refused ---------------------------------------------------------------
    ctx.rule("C13.d", "both kernels raise when an integer dtype is requested with float weights, before allocating", 2)
    for kname in ("calculate_1d_frequencies", "calculate_nd_frequencies"):
        check_int_float_refusal(ctx, "C13.d", m, kname)

    # ---- C13.e the coercion primitive itself ---------------------------------------------------------------------------
    ctx.rule("C13.e", "_coerce_dtype promotes (np.promote_types of the current and the foreign dtype) and applies the result through "
             "set_dtype; _eval_dtype admits integer / float kinds only; the dtype setter is set_dtype with checks on", 5)
    cd = HB.methods["_coerce_dtype"]
    ctx.saw(cd)
    par = [p for p in cd.params() if p != "self"][0]
    n_ok = n_paths = 0
    why = []
    for path in function_paths(cd.node):
        if end_kind(path) == "raise":
            continue
        n_paths += 1
        env = Env()
        applied = None
        for s_ in path:
            if s_[0] == "stmt":
                for c in calls_in(s_[1]):
                    if U(c.func) == "self.set_dtype" and c.args:
                        applied = env.expand(c.args[0], keep={par})
            env.step(s_)
        cs = [(U(s_[1]), s_[2]) for s_ in path if s_[0] == "cond"]
        differs = [v for c, v in cs if "!=" in c and "dtype" in c] + [not v for c, v in cs if "==" in c and "dtype" in c]
        unset = any(c in ("self._dtype is None", "self.dtype is None") and v for c, v in cs)
        if differs and differs[-1]:
            t = U(applied) if applied is not None else None
            if unset:
                good = t is not None and "promote_types" not in t and par in t
            else:
                good = applied is not None and isinstance(applied, ast.Call) and call_is(applied, "promote_types") and len(applied.args) == 2 \
                    and {U(a) for a in applied.args} & {"self._dtype", "self.dtype"} and any(par in U(a) for a in applied.args)
            if good:
                n_ok += 1
            else:
                why.append(f"when the dtypes differ ({'no dtype yet' if unset else 'dtype set'}) set_dtype receives `{t}`")
    ctx.check(n_ok >= 2 and not why, "C13.e", "HistogramBase._coerce_dtype:promotes",
              "set_dtype(np.promote_types(self._dtype, <foreign>)) whenever that differs from the current dtype",
              "; ".join(sorted(set(why))) or f"only {n_ok} applying path(s) found", cd.where)
    ev_ = HB.methods["_eval_dtype"]
    ctx.saw(ev_)
    kinds = {}
    for path in function_paths(ev_.node):
        cs = [(U(s_[1]), s_[2]) for s_ in path if s_[0] == "cond" and s_[2]]
        k = cs[-1][0] if cs else "else"
        kinds[k] = end_kind(path)
    ok_kinds = any("kind in 'iu'" in k or "kind in 'ui'" in k for k, e in kinds.items() if e == "return") and \
        any("kind == 'f'" in k for k, e in kinds.items() if e == "return") and kinds.get("else") == "raise"
    ctx.check(ok_kinds and len(kinds) == 3, "C13.e", "HistogramBase._eval_dtype:kinds", "integer and float kinds accepted, anything else ValueError",
              f"_eval_dtype branches: {kinds}", ev_.where)
    ds = HB.setters.get("dtype")
    ctx.check(ds is not None and any(U(c) in ("self.set_dtype(value)", "self.set_dtype(value, check=True)") for c in calls_in(ds.node)),
              "C13.e", "HistogramBase.dtype.setter", "h.dtype = t is set_dtype(t) with the checks on", "the dtype setter does not delegate to set_dtype(value)",
              ds.where if ds else HB.where)
    sd = HB.methods["set_dtype"]
    d = sd.param_default("check")
    ctx.check(isinstance(d, ast.Constant) and d.value is True, "C13.e", "HistogramBase.set_dtype:check-default", "check defaults to True",
              "set_dtype no longer checks by default", sd.where)
    # can_cast decides whether the checks may be skipped: it must be asked about (current -> target), not the reverse
    cc = [c for c in calls_in(sd.node) if call_is(c, "can_cast")]
    okcc = len(cc) == 1 and len(cc[0].args) == 2 and U(cc[0].args[0]) in ("self.dtype", "self._dtype") and \
        U(cc[0].args[1]) == [p for p in sd.params() if p != "self"][0]
    ctx.check(okcc, "C13.e", "HistogramBase.set_dtype:can_cast-direction", "checks skipped only when np.can_cast(current, target)",
              f"can_cast call(s): {[U(c) for c in cc]}", sd.where)
