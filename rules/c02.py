"""C02 - ND construction: each row counted once, in the cell that contains it."""
from __future__ import annotations

import ast

from sa.model import AnalysisError, calls_in, kwarg
from sa.paths import function_paths, end_kind, consistent
from sa.util import U, Env, call_is, TupleItem, writes_of, IterItem
from rules import wiring

EXPLANATION = (
    "C02: every result of calculate_nd_frequencies is consumed at each of its call sites (frequencies, errors2 with "
    "the documented None fallback, and the missed weight into the missed store); missing is total weight (row count) "
    "minus the sum of the *masked* frequencies; an extra +inf edge is appended exactly when the binning does not "
    "include its right edge and the mask never selects that bin; the gap mask counts one index per edge interval, "
    "skipping an interval exactly where bins[i,1] != bins[i+1,0]; axes are coupled by one index (column i, bins[i], "
    "per-axis kwargs[i]; edges and masks built from one pass over the binnings); h2 / h3 stack their inputs in "
    "argument order; the NaN row mask of extract_nd_array is the one applied to the weights; h forwards dtype and "
    "keep_missed to the histogram."
)
NOT_DECIDED = "numerical equality of cell contents; np.histogramdd itself (closes the last edge of every axis)."
TRUSTED = ["np.histogramdd counts [e_i, e_i+1) and closes the last edge", "np.ix_ builds an open mesh from index lists"]


def check_mask_builder(ctx, rule, m):
    tm = m.func("_bin_utils", "to_numpy_bins_with_mask")
    ctx.saw(tm)
    loop = [n for n in ast.walk(tm.node) if isinstance(n, ast.For)]
    okinv = okgap = okmask = False
    why = "loop over the bins not found"
    if loop:
        lp = loop[0]
        iv = U(lp.target)
        counter = None
        for n in ast.walk(lp):
            if isinstance(n, ast.AugAssign) and isinstance(n.op, ast.Add) and U(n.value) == "1":
                counter = U(n.target)
        fake = ast.FunctionDef(name="_body", args=ast.arguments(posonlyargs=[], args=[], kwonlyargs=[], kw_defaults=[], defaults=[]),
                               body=lp.body, decorator_list=[])
        okinv = counter is not None
        okmask = True
        for p in function_paths(fake):
            e = sum(1 for s in p if s[0] == "stmt" for c in calls_in(s[1]) if U(c.func).endswith("edges_.append"))
            j = sum(1 for s in p if s[0] == "stmt" and isinstance(s[1], ast.AugAssign) and U(s[1].target) == counter)
            mk = [U(c.args[0]) for s in p if s[0] == "stmt" for c in calls_in(s[1]) if U(c.func).endswith("mask_.append")]
            if e != j:
                okinv = False
            if mk != [counter]:
                okmask = False
            # the mask index must be recorded before the counter moves in this iteration
            first_inc = next((i for i, s in enumerate(p) if s[0] == "stmt" and isinstance(s[1], ast.AugAssign) and U(s[1].target) == counter), None)
            first_mask = next((i for i, s in enumerate(p) if s[0] == "stmt" and any(U(c.func).endswith("mask_.append") for c in calls_in(s[1]))), None)
            if first_inc is not None and first_mask is not None and first_mask > first_inc:
                okmask = False
        conds = [n.test for n in ast.walk(lp) if isinstance(n, ast.If)]
        okgap = any(isinstance(t, ast.Compare) and len(t.ops) == 1 and isinstance(t.ops[0], ast.NotEq)
                    and {U(t.left), U(t.comparators[0])} == {f"bins[{iv}, 1]", f"bins[{iv} + 1, 0]"} for t in conds)
        after = [U(s) for s in ast.walk(tm.node) if isinstance(s, ast.Expr)]
        tail = any(t == f"mask_.append({counter})" for t in after)
        okmask = okmask and tail
        why = ""
    # the edges appended are, in order: bins[0,0]; per bin its right edge, then (gap only) the next bin's left edge; bins[-1,1]
    okseq = False
    whyseq = "loop not found"
    if loop:
        seqs = set()
        for p in function_paths(fake):
            seqs.add(tuple(U(c.args[0]) for s in p if s[0] == "stmt" for c in calls_in(s[1]) if U(c.func).endswith("edges_.append") and c.args))
        want = {(f"bins[{iv}, 1]",), (f"bins[{iv}, 1]", f"bins[{iv} + 1, 0]")}
        outer = [U(c.args[0]) for st in ast.walk(tm.node) if isinstance(st, ast.Expr) and not any(st is x for x in ast.walk(lp))
                 for c in calls_in(st) if U(c.func).endswith("edges_.append") and c.args]
        rng = U(lp.iter)
        okseq = seqs == want and outer == ["bins[0, 0]", "bins[-1, 1]"] and rng == "range(bins.shape[0] - 1)"
        whyseq = f"per-bin edge sequences {sorted(seqs)}, outside the loop {outer}, loop over {rng}"
    ctx.check(okseq, rule, "to_numpy_bins_with_mask:edge-sequence",
              "first left edge; per bin its right edge and, at a gap, the next left edge; last right edge; loop over all bins but the last",
              "the edge array is not built from the bins' own edges in order: " + whyseq, tm.where)
    got1 = {}
    for p in function_paths(tm.node, loops=0):
        cs = dict((U(s_[1]), s_[2]) for s_ in p if s_[0] == "cond")
        if cs.get("bins.ndim == 1") is True and "bins.shape[0] > 1" in cs:
            vals = [U(s_[1].value) for s_ in p if s_[0] == "stmt" and isinstance(s_[1], (ast.Assign, ast.AnnAssign)) and s_[1].value is not None
                    and U(s_[1].targets[0] if isinstance(s_[1], ast.Assign) else s_[1].target) == "mask_"]
            got1[cs["bins.shape[0] > 1"]] = vals[-1] if vals else None
    ok1 = got1.get(True) == "np.arange(bins.shape[0] - 1)" and got1.get(False) == "[]"
    ctx.check(ok1, rule, "to_numpy_bins_with_mask:edges-only", "plain edges: every interval 0 .. n-2 is a bin (when there is more than one edge)",
              "numpy-style edges no longer map to the intervals 0 .. len(edges) - 2", tm.where)
    ctx.check(okinv, rule, "to_numpy_bins_with_mask:counter-invariant", "the running index grows by one per appended edge on every path",
              "the running mask index does not advance once per appended edge (it no longer equals the edge-interval number)", tm.where)
    ctx.check(okmask, rule, "to_numpy_bins_with_mask:mask-index", "each bin records the running edge-interval index (and the last bin after the loop)",
              "a bin's mask entry is not the running edge-interval index (e.g. the loop index, which ignores inserted gap edges)", tm.where)
    ctx.check(okgap, rule, "to_numpy_bins_with_mask:gap-test", "an extra edge is inserted exactly when bins[i,1] != bins[i+1,0]",
              "the gap test is not the exact comparison bins[i,1] != bins[i+1,0] (a tolerance would merge a small gap into the next bin)", tm.where)



def run(ctx):
    m = ctx.model
    kern = m.func("_construction", "calculate_nd_frequencies")
    ctx.saw(kern)
    HN = m.cls("HistogramND")

    # ---- C02.a ------------------------------------------------------------------------------------------------
    ctx.rule("C02.a", "every result of calculate_nd_frequencies is consumed at every call site (missing -> missed store)", 3)
    sites = []
    for fi in m.all_funcs():
        if fi is kern:
            continue
        for c in calls_in(fi.node):
            if call_is(c, "calculate_nd_frequencies"):
                sites.append((fi, c))
    for fi, call in sites:
        ctx.saw(fi)
        verdict = []
        for path in function_paths(fi.node):
            if end_kind(path) == "raise" or not consistent(path):
                continue
            if not any(s[0] == "stmt" and any(n is call for n in ast.walk(s[1])) for s in path):
                continue
            env = Env()
            used = {0: [], 1: [], 2: []}
            for step in path:
                if step[0] == "stmt":
                    st = step[1]
                    for n in ast.walk(st):
                        if isinstance(n, ast.Name) and isinstance(n.ctx, ast.Load):
                            d = env.resolve(n)
                            if isinstance(d, TupleItem) and d.value is call:
                                # where is it used?
                                where = None
                                for c2 in calls_in(st):
                                    for k in c2.keywords:
                                        if k.arg and any(x is n for x in ast.walk(k.value)):
                                            where = f"{k.arg}="
                                if isinstance(st, ast.AugAssign) and any(x is n for x in ast.walk(st.value)):
                                    where = U(st.target)
                                used[d.index].append(where or "?")
                env.step(step)
            km_off = any(s[0] == "cond" and U(s[1]) == "self.keep_missed" and not s[2] for s in path)
            p = []
            if not any(w in ("frequencies=", "self._frequencies") for w in used[0]):
                p.append("frequencies (result #0) not stored")
            if not any(w in ("errors2=", "self._errors2") for w in used[1]):
                p.append("errors2 (result #1) not stored")
            if not any(w in ("missed=", "self._missed[0]", "self._missed") for w in used[2]) and not km_off:
                p.append("the missed weight (result #2) is bound but never reaches the missed store - total + missed no longer "
                         "equals the input weight")
            crossed = [(i, w) for i, ws in used.items() for w in ws
                       if w in ("frequencies=", "errors2=", "missed=", "self._frequencies", "self._errors2", "self._missed[0]")
                       and {"frequencies=": 0, "self._frequencies": 0, "errors2=": 1, "self._errors2": 1, "missed=": 2, "self._missed[0]": 2}[w] != i
                       and not (i == 0 and w in ("self._errors2",))]
            for i, w in crossed:
                p.append(f"kernel result #{i} is stored as {w}")
            verdict.append(p)
        key = f"{fi.qualname}:consumes-kernel-results"
        if not verdict:
            ctx.bad("C02.a", key, "call site not on any analysable path", fi.where)
        else:
            bad = sorted({x for p in verdict for x in p})
            ctx.check(not bad, "C02.a", key, f"{len(verdict)} path(s): frequencies, errors2 and missed all consumed", " ; ".join(bad), fi.where)
    ctx.check(len(sites) >= 3, "C02.a", "call-sites", f"{len(sites)} call sites", f"only {len(sites)} call sites of calculate_nd_frequencies found", kern.where)

    # ---- C02.b ------------------------------------------------------------------------------------------------------
    ctx.rule("C02.b", "missing = weights.sum() (or row count) - frequencies.sum() computed after the gap mask was applied", 2)
    res = {}
    for path in function_paths(kern.node):
        if end_kind(path) != "return" or not consistent(path):
            continue
        masked = False
        weighted = None
        for step in path:
            if step[0] == "cond" and U(step[1]) == "weights is not None":
                weighted = step[2]
            if step[0] == "stmt" and isinstance(step[1], ast.Assign):
                t, v = U(step[1].targets[0]), step[1].value
                if t == "frequencies" and isinstance(v, ast.Subscript) and U(v.value) == "frequencies":
                    masked = U(v.slice)
                elif t == "frequencies" and isinstance(v, ast.Tuple) is False and "histogramdd" in U(v):
                    masked = False
                if t == "missing":
                    tv = U(v)
                    want = "weights.sum() - frequencies.sum()" if weighted else "data.shape[0] - frequencies.sum()"
                    res[weighted] = (tv == want and bool(masked), tv, masked)
    for w in (True, False):
        r = res.get(w)
        ctx.check(bool(r and r[0]), "C02.b", f"kernelnd:missing:{'weighted' if w else 'unweighted'}",
                  f"missing = {r[1] if r else ''} with frequencies already masked by [{r[2] if r else ''}]",
                  f"missing is `{r[1] if r else None}` computed {'after' if r and r[2] else 'BEFORE'} the gap mask is applied "
                  "(weight in gaps would be counted neither in a cell nor as missed)", kern.where)
    # on every weighted path the squared errors come from a second histogramdd pass over weights ** 2 (no shortcut)
    e2 = {}
    for path in function_paths(kern.node):
        if end_kind(path) != "return" or not consistent(path):
            continue
        cs_ = dict((U(s_[1]), s_[2]) for s_ in path if s_[0] == "cond")
        if "weights is not None" not in cs_:
            continue
        sq = [U(s_[1].targets[0].elts[0]) for s_ in path if s_[0] == "stmt" and isinstance(s_[1], ast.Assign) and isinstance(s_[1].targets[0], ast.Tuple)
              and isinstance(s_[1].value, ast.Call) and call_is(s_[1].value, "histogramdd") and U(kwarg(s_[1].value, "weights")) == "weights ** 2"
              and [U(a) for a in s_[1].value.args[:2]] == ["data", "edges"]]
        defs_ = [U(s_[1].value) for s_ in path if s_[0] == "stmt" and isinstance(s_[1], ast.Assign) and U(s_[1].targets[0]) == "errors2"]
        ret = path[-1][2].value
        ok_here = (U(ret.elts[1]) == "errors2") if isinstance(ret, ast.Tuple) and len(ret.elts) == 3 else False
        if cs_["weights is not None"]:
            ev_ = "squares" if ok_here and sq and defs_ and defs_[-1].startswith(f"{sq[-1]}[ixgrid]") else f"errors2 = {defs_[-1] if defs_ else None}"
        else:
            ev_ = "None" if ok_here and defs_ and defs_[-1] == "None" else f"errors2 = {defs_[-1] if defs_ else None}"
        e2.setdefault(cs_["weights is not None"], set()).add(ev_)
    ok_e2 = e2.get(True) == {"squares"} and e2.get(False) == {"None"}
    ctx.check(ok_e2, "C02.b", "kernelnd:errors2-source", "weighted: histogramdd over weights ** 2, masked; unweighted: None (the caller uses the contents)",
              f"errors2 returned per `weights is not None`: { {k: sorted(v)[:2] for k, v in e2.items()} }", kern.where)
    txt = U(kern.node)
    ctx.check("ixgrid = np.ix_(*masks)" in txt and "err_freq[ixgrid]" in txt, "C02.b", "kernelnd:errors-masked",
              "squared-weight histogram is masked with the same index grid", "errors2 is not masked with the same grid as the frequencies", kern.where)

    # ---- C02.c --------------------------------------------------------------------------------------------------------
    ctx.rule("C02.c", "+inf edge appended iff not includes_right_edge; gap mask = one index per edge interval, skipping real gaps only", 4)
    BB = m.cls("BinningBase")
    nbm = BB.getters.get("numpy_bins_with_mask")
    if nbm is None:
        raise AnalysisError("BinningBase.numpy_bins_with_mask not found")
    ctx.saw(nbm)
    ok = {True: None, False: None}
    for path in function_paths(nbm.node):
        cs = [(U(s[1]), s[2]) for s in path if s[0] == "cond"]
        sts = [U(s[1]) for s in path if s[0] == "stmt"]
        appended = any("np.concatenate([edges" in t and "np.inf" in t for t in sts)
        mask_touched = any(t.startswith("mask =") or t.startswith("mask[") for t in sts[1:])
        if ("not self.includes_right_edge", True) in cs:
            ok[False] = appended and not mask_touched
        elif ("not self.includes_right_edge", False) in cs:
            ok[True] = (not appended) and not mask_touched
        elif ("self.includes_right_edge", True) in cs:
            ok[True] = (not appended) and not mask_touched
        elif ("self.includes_right_edge", False) in cs:
            ok[False] = appended and not mask_touched
    ctx.check(ok[False] is True and ok[True] is True, "C02.c", "numpy_bins_with_mask:inf-edge",
              "edges + [inf] exactly when the binning does not include its right edge; mask unchanged",
              "the extra +inf edge (which keeps histogramdd from closing the last real bin) is not appended exactly on the "
              "not-includes_right_edge branch", nbm.where)
    # on every way through the getter: the mask comes from the bin pairs themselves (is_consecutive() is a tolerance test,
    # a gap narrower than that tolerance is still a gap), and nothing else binds `mask`
    src_ok = True
    for path in function_paths(nbm.node):
        if end_kind(path) == "raise":
            continue
        binds = [s[1] for s in path if s[0] == "stmt" and isinstance(s[1], ast.Assign)
                 and any(isinstance(x, ast.Name) and x.id == "mask" for t in s[1].targets for x in ast.walk(t))]
        if not binds or any(U(b.value) != "to_numpy_bins_with_mask(self.bins)" for b in binds):
            src_ok = False
    ctx.check(src_ok, "C02.c", "numpy_bins_with_mask:source", "edges, mask come from to_numpy_bins_with_mask(self.bins)",
              "edges / mask are not derived from the binning's own bins", nbm.where)
    check_mask_builder(ctx, "C02.c", m)
    # the right-edge flag a histogram declares is the one its cells were counted with: binning copies keep it (shared with C07.d)
    from rules import c07
    c07.check_copy_forwards(ctx, "C02.c", m)
    hn_init = HN.methods["__init__"]
    stb = [U(n.value) for n in ast.walk(hn_init.node) if isinstance(n, ast.Assign) and U(n.targets[0]) in ("binnings", "self._binnings")]
    ctx.check(all("copy" not in t for t in stb) and bool(stb), "C02.c", "HistogramND.__init__:binnings-as-given",
              "the constructor keeps the binning objects the cells were counted with", f"binnings stored as {stb}: a copy can differ in its flags", hn_init.where)

    # ---- C02.d axis coupling ------------------------------------------------------------------------------------------
    ctx.rule("C02.d", "column i, bins[i] and per-axis kwargs[i] share one index; edges and masks from one pass over the binnings; "
             "h2 / h3 stack inputs in argument order", 5)
    nb = m.func("_construction", "calculate_nd_bins")
    ctx.saw(nb)
    comps = [n for n in ast.walk(nb.node) if isinstance(n, ast.ListComp) and any(call_is(c, "calculate_1d_bins") for c in calls_in(n))]
    okc = False
    if comps:
        lc = comps[0]
        iv = U(lc.generators[0].target)
        call = [c for c in calls_in(lc) if call_is(c, "calculate_1d_bins")][0]
        a0, a1 = call.args[0], call.args[1]
        kw = [k for k in call.keywords if k.arg is None]
        okc = (U(lc.generators[0].iter) == "range(dim)" and f"array[:, {iv}]" in U(a0) and U(a1) == f"bins[{iv}]"
               and kw and f"kwarg[{iv}]" in U(kw[0].value) and not lc.generators[0].ifs)
    ctx.check(okc, "C02.d", "calculate_nd_bins:one-index", "calculate_1d_bins(array[:, i], bins[i], **{k: kwarg[i]}) for i in range(dim)",
              "the per-axis fan-out does not use one index for the column, the bins and the per-axis arguments", nb.where)
    t = U(kern.node)
    okk = ("edges_and_mask = [binning.numpy_bins_with_mask for binning in binnings]" in t and "edges = [em[0] for em in edges_and_mask]" in t
           and "masks = [em[1] for em in edges_and_mask]" in t and "np.histogramdd(data, edges, weights=weights)" in t)
    ctx.check(okk, "C02.d", "kernelnd:edges-masks-order", "edges and masks are taken in the order of the binnings and passed positionally",
              "edges / masks are not both derived from one pass over the binnings in order", kern.where)
    h2 = m.func("_facade", "h2")
    ctx.saw(h2)
    c2 = [c for c in calls_in(h2.node) if call_is(c, "extract_and_concat_arrays")]
    p2 = [p for p in h2.params()][:2]
    ctx.check(len(c2) == 1 and [U(a) for a in c2[0].args] == p2, "C02.d", "h2:argument-order", f"columns stacked as ({', '.join(p2)})",
              "h2 does not stack its two data arguments in their order", h2.where)
    eca = m.func("_construction", "extract_and_concat_arrays")
    ctx.saw(eca)
    te = U(eca.node)
    ctx.check("for item in data]" in te and "np.concatenate([arr[:, np.newaxis] for arr in array_list], axis=1)" in te, "C02.d",
              "extract_and_concat_arrays:order", "arrays become columns in argument order", "the arrays are not concatenated column-wise in argument order", eca.where)
    h3 = m.func("_facade", "h3")
    ctx.saw(h3)
    ctx.check("np.concatenate([item[:, np.newaxis] for item in data], axis=1)" in U(h3.node), "C02.d", "h3:list-order",
              "list items become columns in list order", "h3 does not stack list items as columns in order", h3.where)

    # ---- C02.e shared mask -----------------------------------------------------------------------------------------------
    ctx.rule("C02.e", "one NaN row mask for data and weights in h(); mask = ~isnan(array).any(axis=1) of the filtered array", 2)
    h = m.func("_facade", "h")
    wiring.shared_mask(ctx, "C02.e", h, "extract_nd_array", 2, 1, ("from_calculate_frequencies",), "h:shared-mask")
    wiring.mask_definition(ctx, "C02.e", m.func("_construction", "extract_nd_array"), "extract_nd_array:mask", rowwise=True)
    wiring.params_used(ctx, "C02.e", wiring.funcs_of(m, "_facade", "_construction", only={"h", "h2", "h3", "calculate_nd_frequencies", "calculate_nd_bins",
                       "extract_nd_array", "extract_and_concat_arrays", "extract_weights"})
                       + [m.cls("HistogramND").methods[x] for x in ("__init__", "from_calculate_frequencies")], "h-chain:options-read")
    wiring.same_name_forwarding(ctx, "C02.e", m, wiring.funcs_of(m, "_facade", "_construction", only={"h", "h2", "h3", "calculate_nd_frequencies", "calculate_nd_bins",
                       "extract_nd_array", "extract_and_concat_arrays", "extract_weights"})
                       + [m.cls("HistogramND").methods[x] for x in ("__init__", "from_calculate_frequencies")], "h-chain:options-forwarded")
    wiring.nan_gate(ctx, "C02.e", h, "calculate_nd_bins", "h:nan-gate")
    wiring.discarded_mask(ctx, "C02.e", m, only=("_facade.h2", "_facade.h3", "_construction.extract_and_concat_arrays"), floor=1)

    # ---- C02.f forwarding ---------------------------------------------------------------------------------------------------
    ctx.rule("C02.f", "h forwards dtype / keep_missed to the histogram; from_calculate_frequencies forwards dtype to the kernel and **kwargs to the class", 3)
    fc = [c for c in calls_in(h.node) if call_is(c, "from_calculate_frequencies")]
    named = [p for p in h.params() if not p.startswith("*")]
    for opt in ("dtype", "keep_missed"):
        okf = opt in named and fc and kwarg(fc[0], opt) is not None and U(kwarg(fc[0], opt)) == opt
        nbc = [c for c in calls_in(h.node) if call_is(c, "calculate_nd_bins")]
        swallowed = opt not in named
        ctx.check(bool(okf), "C02.f", f"h:{opt}", f"`{opt}` is a named option forwarded to the histogram",
                  f"`{opt}` is {'swallowed by **kwargs and only reaches the binning factories' if swallowed else 'not forwarded to from_calculate_frequencies'}"
                  " - the histogram ignores it", h.where)
    fcf = HN.methods.get("from_calculate_frequencies")
    ctx.saw(fcf)
    kc = [c for c in calls_in(fcf.node) if call_is(c, "calculate_nd_frequencies")]
    cc = [c for c in calls_in(fcf.node) if U(c.func) == "cls"]
    okf = kc and cc and U(kwarg(kc[0], "dtype")) == "dtype" and any(k.arg is None for k in cc[0].keywords) \
        and U(kwarg(kc[0], "binnings")) == U(kwarg(cc[0], "binnings")) and U(kwarg(kc[0], "weights")) == "weights"
    ctx.check(bool(okf), "C02.f", "HistogramND.from_calculate_frequencies:forwarding",
              "dtype and weights go to the kernel, the same binnings and **kwargs to the class",
              "from_calculate_frequencies does not forward dtype / weights / binnings / **kwargs consistently", fcf.where)

    # an integer dtype with float weights would truncate the weights: refused by the kernel (shared with C13.d)
    from rules import c13
    ctx.rule("C02.g", "the kernel refuses an integer dtype together with float weights before allocating", 1)
    c13.check_int_float_refusal(ctx, "C02.g", m, "calculate_nd_frequencies")

    ctx.rule("C02.h", "HistogramND.__init__ stores the given missed weight unmodified", 1)
    c13.check_missed_alloc(ctx, "C02.h", m)

    # shared with C17.b: values and weights are flattened in the same, layout independent order
    wiring.flatten_order(ctx, "C02.e", m, "flattening:C-order")
