"""C18 - histograms stay well-formed; failed operations change nothing."""
from __future__ import annotations

import ast

from sa.effects import Effects, SETTER_STATE
from sa.model import AnalysisError, calls_in, walk_no_nested
from sa.paths import function_paths, end_kind, consistent, must_raise
from sa.util import U, writes_of, Env, TupleItem

EXPLANATION = (
    "C18: for every public mutator all (value-changing write W, reachable refusal R) pairs with W before R on a "
    "structural path are enumerated (refusals: explicit raises reached transitively through MRO-resolved callees "
    "and validating setters, plus numpy casting hazards of array augmented assignments without a dominating "
    "dtype coercion); each pair must be discharged by a stated principle or a confirmed table entry, otherwise it "
    "is a violation. Validating setters raise before their single store and compare shape with shape; contents "
    "are stored through them; _frequencies and _errors2 are replaced together; collections refuse foreign binnings "
    "before appending."
)
NOT_DECIDED = ("failures inside numpy itself (memory, exotic dtypes); negative contents caused by negative weights; "
               "bin growth of adaptive histograms before a later refusal is content-preserving by the statement and "
               "is not counted as a change.")
TRUSTED = ["numpy augmented assignment raises a casting error before modifying the target array"]

CONTENT = {"_frequencies", "_errors2", "_missed", "_stats"}

# (function, W, R) -> reason.  W / R are the normalised texts printed in a violation report.
DISCHARGED = {
    ("HistogramCollection.normalize_bins", "h._frequencies /= sums", "call:HistogramBase.set_dtype"):
        "set_dtype(float) on the next member: int->float and float->float64 widening satisfy np.can_cast, so the "
        "integrality / range refusals of set_dtype are not reached (float128 members excepted, not produced by physt)",
    ("HistogramCollection.normalize_bins", "h._errors2 /= sums ** 2", "call:HistogramBase.set_dtype"): "same as above",
    ("HistogramCollection.normalize_bins", "h._stats = INVALID_STATISTICS", "call:HistogramBase.set_dtype"): "same as above",
    ("HistogramCollection.normalize_all", "call:HistogramBase.normalize", "call:HistogramBase.normalize"):
        "normalising the next member: division by the member's own positive total cannot be refused "
        "(scalar operand, non-negative result); a zero total yields inf/nan, not a refusal",
}


def _nonneg(expr, env, depth=4) -> bool:
    """Expression is elementwise non-negative given that every `.errors2` is."""
    e = env.resolve(expr) if isinstance(expr, ast.Name) else expr
    if isinstance(e, ast.Attribute) and e.attr in ("errors2", "_errors2"):
        return True
    if isinstance(e, ast.Call) and U(e.func) in ("abs", "np.abs", "np.square"):
        return True
    if isinstance(e, ast.BinOp):
        if isinstance(e.op, ast.Pow) and isinstance(e.right, ast.Constant) and e.right.value in (2, 4):
            return True
        if isinstance(e.op, ast.Mult) and U(e.left) == U(e.right):
            return True
        if isinstance(e.op, (ast.Add, ast.Mult, ast.Div)):
            return _nonneg(e.left, env, depth - 1) and _nonneg(e.right, env, depth - 1)
    return False


class Events:
    def __init__(self, ctx, eff: Effects, fi, cls, self_names=("self",)):
        self.ctx, self.eff, self.fi, self.cls = ctx, eff, fi, cls
        self.self_names = set(self_names)
        self.members = set()  # loop variables ranging over a collection's member histograms

    def _cls_of(self, name):
        return self.eff.m.cls("Histogram1D") if name in self.members else self.cls

    def path_events(self, path):
        """List of (kind 'W'|'R', key, detail) in execution order for one path."""
        ev = []
        env = Env()
        coerced = False
        growth_maps = set()
        freq_setter_seen = False
        for step in path:
            if step[0] == "cond":
                for c in calls_in(step[1]):
                    self._call_R(c, ev)
            if step[0] == "for" and step[2]:
                n = step[1]
                if isinstance(n, ast.For) and U(n.iter) in ("col.histograms", "self.histograms", "self") and isinstance(n.target, ast.Name):
                    self.self_names.add(n.target.id)
                    self.members.add(n.target.id)
            if step[0] == "stmt":
                st = step[1]
                if isinstance(st, ast.Raise):
                    ev.append(("R", f"raise:{U(st)[:70]}", "explicit raise"))
                    env.step(step)
                    continue
                # --- calls: refusals first
                for c in calls_in(st):
                    name = c.func.attr if isinstance(c.func, ast.Attribute) else U(c.func)
                    if name in ("_coerce_dtype", "set_dtype"):
                        coerced = True
                    if name in ("force_bin_existence", "adapt", "_force_bin_existence"):
                        pass
                    self._call_R(c, ev)
                # growth maps: x = <binning>.force_bin_existence(..) / map1, map2 = new_bins.adapt(..)
                if isinstance(st, ast.Assign) and isinstance(st.value, ast.Call) and isinstance(st.value.func, ast.Attribute) \
                        and st.value.func.attr in ("force_bin_existence", "adapt"):
                    for t in st.targets:
                        for n in ast.walk(t):
                            if isinstance(n, ast.Name):
                                growth_maps.add(n.id)
                # --- setter refusals
                if isinstance(st, (ast.Assign, ast.AugAssign)):
                    targets = st.targets if isinstance(st, ast.Assign) else [st.target]
                    for t in targets:
                        if isinstance(t, ast.Attribute) and isinstance(t.value, ast.Name) and t.value.id in self.self_names:
                            s = self.eff.setter_for(ast.Attribute(value=ast.Name(id="self"), attr=t.attr), self.cls)
                            if s is not None:
                                rs = self.eff.raises(s, self.cls)
                                if rs:
                                    if t.attr == "errors2" and freq_setter_seen and isinstance(st, ast.Assign) \
                                            and _nonneg(st.value, env):
                                        pass  # D1: see DESIGN / rule text
                                    else:
                                        ev.append(("R", f"setter:{s.qualname}", "; ".join(rs)[:200]))
                            if t.attr == "frequencies":
                                freq_setter_seen = True
                # --- casting hazard of array augmented assignment with a foreign operand
                if isinstance(st, ast.AugAssign):
                    base = st.target
                    while isinstance(base, ast.Subscript):
                        base = base.value
                    if isinstance(base, ast.Attribute) and isinstance(base.value, ast.Name) and base.value.id in self.self_names \
                            and base.attr in ("_frequencies", "_errors2", "_missed"):
                        foreign = [n for n in ast.walk(st.value) if isinstance(n, ast.Attribute)
                                   and isinstance(n.value, ast.Name) and n.value.id not in self.self_names
                                   and n.attr in ("_missed", "_frequencies", "_errors2", "frequencies", "errors2")]
                        if foreign and not coerced:
                            ev.append(("R", f"hazard:{U(st)[:70]}", "numpy same-kind casting error when the operand's dtype "
                                       "is wider than the target's (no _coerce_dtype before it on this path)"))
                # --- writes
                for w in writes_of(st):
                    if w.root in self.self_names and w.attrs:
                        a = SETTER_STATE.get(w.attrs[0], w.attrs[0])
                        if a in CONTENT:
                            ev.append(("W", U(st)[:80], f"writes {a}"))
                    if w.root in self.self_names and w.attrs and w.attrs[0] == "histograms":
                        ev.append(("W", U(st)[:80], "changes the collection's members"))
                for c in calls_in(st):
                    f = c.func
                    if isinstance(f, ast.Attribute) and isinstance(f.value, ast.Name) and f.value.id in self.self_names:
                        r = self.eff.resolve_call(ast.Call(func=ast.Attribute(value=ast.Name(id="self"), attr=f.attr), args=c.args, keywords=c.keywords), self.fi, self._cls_of(f.value.id))
                        if r is None:
                            continue
                        ws = self.eff.writes(r[0], r[1]) & CONTENT
                        if not ws:
                            continue
                        if f.attr in ("_reshape_data", "_change_binning"):
                            mp = c.args[1] if len(c.args) > 1 else next((k.value for k in c.keywords if k.arg == "bin_map"), None)
                            if mp is not None and isinstance(mp, ast.Name) and mp.id in growth_maps:
                                continue  # content-preserving growth (injective map into zeros)
                        if f.attr in ("_coerce_dtype", "set_dtype"):
                            continue  # lossless promotion (allowed by the statement)
                        ev.append(("W", f"call:{r[0].qualname}", f"writes {sorted(ws)}"))
                if isinstance(st, ast.AugAssign) and isinstance(st.target, ast.Name) and st.target.id in self.self_names:
                    op = {ast.Add: "__iadd__", ast.Sub: "__isub__", ast.Mult: "__imul__", ast.Div: "__itruediv__"}.get(type(st.op))
                    r = self.eff.m.resolve_method(self.cls, op) if op and self.cls else None
                    if r:
                        rs = self.eff.raises(r[1], self.cls)
                        if rs:
                            ev.append(("R", f"call:{r[1].qualname}", "; ".join(rs)[:200]))
                        ev.append(("W", f"call:{r[1].qualname}", "in-place operator"))
            env.step(step)
        return ev

    def _call_R(self, c, ev):
        f = c.func
        cc = c
        k = self.cls
        if isinstance(f, ast.Attribute) and isinstance(f.value, ast.Name) and f.value.id in self.self_names and f.value.id != "self":
            cc = ast.Call(func=ast.Attribute(value=ast.Name(id="self"), attr=f.attr), args=c.args, keywords=c.keywords)
            k = self._cls_of(f.value.id)
        r = self.eff.resolve_call(cc, self.fi, k)
        if r is None:
            return
        rs = self.eff.raises(r[0], r[1])
        if rs:
            ev.append(("R", f"call:{r[0].qualname}", "; ".join(rs)[:200]))


MUTATORS = [
    ("Histogram1D", "Histogram1D", "fill", {}), ("Histogram1D", "Histogram1D", "fill_n", {}),
    ("HistogramND", "HistogramND", "fill", {}), ("HistogramND", "HistogramND", "fill_n", {}),
    ("PolarHistogram", "TransformedHistogramMixin", "fill", {}), ("PolarHistogram", "TransformedHistogramMixin", "fill_n", {}),
    ("Histogram1D", "HistogramBase", "__iadd__", {}), ("HistogramND", "HistogramBase", "__iadd__", {}),
    ("Histogram1D", "HistogramBase", "__isub__", {}), ("Histogram1D", "HistogramBase", "__imul__", {}),
    ("Histogram1D", "HistogramBase", "__itruediv__", {}), ("Histogram1D", "HistogramBase", "set_dtype", {}),
    ("HistogramND", "HistogramBase", "merge_bins", {"inplace": True}), ("Histogram1D", "HistogramBase", "normalize", {"inplace": True}),
    ("Histogram2D", "Histogram2D", "partial_normalize", {"inplace": True}), ("Histogram1D", "HistogramBase", "set_adaptive", {}),
    ("Histogram1D", "HistogramBase", "_change_binning", {}),
    ("HistogramCollection", "HistogramCollection", "add", {}), ("HistogramCollection", "HistogramCollection", "create", {}),
    ("HistogramCollection", "HistogramCollection", "normalize_bins", {"inplace": True}),
    ("HistogramCollection", "HistogramCollection", "normalize_all", {"inplace": True}),
]


def _assume_ok(path, assume):
    for s in path:
        if s[0] == "cond":
            t = U(s[1])
            if t in assume and assume[t] != s[2]:
                return False
            if t.startswith("not ") and t[4:] in assume and (not assume[t[4:]]) != s[2]:
                return False
    return True


def run(ctx):
    m = ctx.model
    eff = Effects(m)
    ctx.rule("C18.a", "no value-changing write precedes a reachable refusal on any path of a public mutator "
             "(pairs discharged only by a stated principle / confirmed table entry)", 20)
    used = set()
    for rescls, defcls, name, assume in MUTATORS:
        cls = m.cls(rescls)
        d = m.cls(defcls)
        fi = d.methods.get(name)
        if fi is None:
            raise AnalysisError(f"{defcls}.{name} not found (anchor vanished)")
        ctx.saw(fi)
        self_names = ("self",)
        extra_self = []
        # `col = self if inplace else self.copy()`: under inplace=True the local is self
        for n in ast.walk(fi.node):
            if isinstance(n, ast.Assign) and isinstance(n.value, ast.IfExp) and U(n.value.test) in assume \
                    and isinstance(n.targets[0], ast.Name):
                chosen = n.value.body if assume[U(n.value.test)] else n.value.orelse
                if U(chosen) == "self":
                    extra_self.append(n.targets[0].id)
        pairs = {}
        npaths = 0
        for path in function_paths(fi.node, loops=2 if name in ("merge_bins", "normalize_bins", "normalize_all") else 1):
            if not _assume_ok(path, assume) or not consistent(path):
                continue
            npaths += 1
            E = Events(ctx, eff, fi, cls, ("self",) + tuple(extra_self))
            evs = E.path_events(path)
            last_w = []
            for kind, key, detail in evs:
                if kind == "W":
                    last_w.append((key, detail))
                else:
                    for wk, wd in last_w:
                        pairs.setdefault((wk, key), (wd, detail))
        fkey = f"{defcls}.{name}"
        if not pairs:
            ctx.ok("C18.a", f"{rescls}:{fkey}", f"{npaths} paths: every refusal precedes the first value-changing write", fi.where)
            continue
        clean = True
        for (wk, rk), (wd, rd) in sorted(pairs.items()):
            tkey = (fkey, wk, rk)
            ikey = f"{rescls}:{fkey}: W `{wk}` then R `{rk}`"
            if tkey in DISCHARGED:
                used.add(tkey)
                ctx.ok("C18.a", ikey, "discharged: " + DISCHARGED[tkey], fi.where)
            else:
                clean = False
                ctx.bad("C18.a", ikey,
                        f"`{wk}` ({wd}) can be followed on the same path by a refusal {rk} [{rd}] - a failed "
                        "operation would leave the histogram changed", fi.where)
        if clean:
            ctx.ok("C18.a", f"{rescls}:{fkey}", f"{npaths} paths, {len(pairs)} (write, refusal) pairs, all discharged", fi.where)
    stale = [k for k in DISCHARGED if k not in used]
    ctx.ok("C18.a", "discharge-table", f"{len(DISCHARGED)} entries, {len(DISCHARGED) - len(stale)} matched a pair on this tree"
           + (f"; unmatched (code moved, entry inert): {stale}" if stale else ""), "rules/c18.py")

    # ---- setters: refusals precede the single store, shape compared with shape -----------------------
    ctx.rule("C18.b", "validating setters: `asarray(values).shape != self.shape` and negative tests raise before the "
             "single store; _frequencies / _errors2 are replaced together", 6)
    HB = m.cls("HistogramBase")
    for sname, attr in (("frequencies", "_frequencies"), ("errors2", "_errors2")):
        fs = HB.setters.get(sname)
        if fs is None:
            raise AnalysisError(f"HistogramBase.{sname} setter not found")
        ctx.saw(fs)
        shape_ok = neg_ok = False
        order_ok = True
        stores = 0
        for path in function_paths(fs.node):
            env = Env()
            stored = False
            for step in path:
                if step[0] == "cond":
                    e = env.expand(step[1])
                    t = U(e)
                    if isinstance(e, ast.Compare) and len(e.ops) == 1 and isinstance(e.ops[0], ast.NotEq):
                        sides = {U(e.left), U(e.comparators[0])}
                        if "self.shape" in sides and any(s.endswith(".shape") and "asarray" in s for s in sides - {"self.shape"}):
                            if step[2] and end_kind(path) == "raise":
                                shape_ok = True
                    if "< 0" in t and step[2]:
                        neg_ok = True
                    if stored:
                        order_ok = False
                if step[0] == "stmt":
                    if any(w.root == "self" and w.attr == attr for w in writes_of(step[1])):
                        stored = True
                        stores += 1
                        e = env.resolve(step[1].value) if isinstance(step[1], ast.Assign) else None
                env.step(step)
            if end_kind(path) == "raise" and stored:
                order_ok = False
        ctx.check(shape_ok, "C18.b", f"{fs.qualname}.setter:shape-test",
                  "refuses when asarray(values).shape != self.shape",
                  "the setter does not refuse exactly when the array's shape differs from the bins' shape "
                  "(e.g. compares sizes, or no comparison at all)", fs.where)
        ctx.check(neg_ok, "C18.b", f"{fs.qualname}.setter:sign-test", "tests for negative values",
                  "no negative-value test in the setter", fs.where)
        ctx.check(order_ok and stores >= 1, "C18.b", f"{fs.qualname}.setter:order", "all tests and raises precede the single store",
                  "a test / raise follows the store (or the store vanished)", fs.where)
    # the arithmetic operators take values from outside: their results reach the arrays only through these setters
    for op in ("__iadd__", "__isub__", "__imul__", "__itruediv__"):
        fi = HB.methods[op]
        ctx.saw(fi)
        direct = [w for st in ast.walk(fi.node) if isinstance(st, ast.stmt) for w in writes_of(st)
                  if w.root == "self" and w.attr in ("_frequencies", "_errors2")]
        via = [w for st in ast.walk(fi.node) if isinstance(st, ast.stmt) for w in writes_of(st)
               if w.root == "self" and w.attr in ("frequencies", "errors2")]
        # a local that is just another name for the live arrays must not be changed in place: the setter would then validate
        # an array that has already been modified
        CONT = ("frequencies", "errors2", "_frequencies", "_errors2")
        aliases = set()
        for st in ast.walk(fi.node):
            if isinstance(st, ast.Assign) and len(st.targets) == 1:
                pairs = list(zip(st.targets[0].elts, st.value.elts)) if isinstance(st.targets[0], ast.Tuple) and isinstance(st.value, ast.Tuple) \
                    and len(st.targets[0].elts) == len(st.value.elts) else [(st.targets[0], st.value)]
                for t_, v_ in pairs:
                    if isinstance(t_, ast.Name) and isinstance(v_, ast.Attribute) and isinstance(v_.value, ast.Name) and v_.value.id == "self" and v_.attr in CONT:
                        aliases.add(t_.id)
        live = [U(st)[:60] for st in ast.walk(fi.node)
                if (isinstance(st, ast.AugAssign) and ((isinstance(st.target, ast.Name) and st.target.id in aliases)
                                                       or (isinstance(st.target, ast.Subscript) and isinstance(st.target.value, ast.Name) and st.target.value.id in aliases)))
                or (isinstance(st, ast.Assign) and any(isinstance(t_, ast.Subscript) and isinstance(t_.value, ast.Name) and t_.value.id in aliases for t_ in st.targets))]
        ctx.check(not direct and not live and len(via) >= 2, "C18.b", f"{fi.qualname}:through-setters",
                  f"{len(via)} content stores, all through the validating setters",
                  (f"`{U(direct[0].stmt)[:70]}` bypasses the validating setter: a negative or wrongly shaped result is stored "
                   "instead of refused") if direct else (f"`{live[0]}` changes the live contents in place through a local alias before the setter validates them"
                                                         if live else "content stores not found"), fi.where)
    from rules import c13 as _c13
    _c13.check_init_through_setter(ctx, "C18.b", m)
    from rules import c12 as _c12
    _c12.check_copy_contents(ctx, "C18.b", m)    # temporaries of a refused operation never share a store with the original
    # co-update of the two arrays outside the setters
    for c in m.classes.values():
        if not m.is_subclass(c, "HistogramBase"):
            continue
        for fi in list(c.methods.values()):
            if fi.name in ("__init__",):
                continue
            for path in function_paths(fi.node):
                if end_kind(path) == "raise":
                    continue
                repl = {"_frequencies": None, "_errors2": None}
                for step in path:
                    if step[0] == "stmt" and isinstance(step[1], ast.Assign):
                        for w in writes_of(step[1]):
                            if w.how == "store" and w.attr in repl and w.root not in ("cls",):
                                v = step[1].value
                                shape_preserving = isinstance(v, ast.BinOp) or (
                                    isinstance(v, ast.Call) and isinstance(v.func, ast.Attribute) and v.func.attr in ("astype", "copy"))
                                if isinstance(v, ast.Call) and U(v.func) in ("np.cumsum",):
                                    shape_preserving = True
                                if not shape_preserving:
                                    repl[w.attr] = (w.root, U(step[1])[:70])
                if (repl["_frequencies"] is None) != (repl["_errors2"] is None):
                    which = repl["_frequencies"] or repl["_errors2"]
                    ctx.bad("C18.b", f"{fi.qualname}:co-update",
                            f"`{which[1]}` replaces one of _frequencies/_errors2 with a possibly differently shaped array "
                            "without replacing the other on the same path", fi.where)
    if not any(r["key"].endswith(":co-update") for r in ctx.results):
        ctx.ok("C18.b", "co-update:all-methods", "every path that re-shapes one array re-shapes the other")

    # ---- collections refuse foreign binnings ------------------------------------------------------------
    ctx.rule("C18.d", "HistogramCollection refuses a histogram with a different binning before taking it", 2)
    HC = m.cls("HistogramCollection")
    add = HC.methods.get("add")
    if add is None:
        raise AnalysisError("HistogramCollection.add not found")
    okadd = True
    n_app = 0
    for path in function_paths(add.node):
        for i, step in enumerate(path):
            if step[0] == "stmt" and any(isinstance(c.func, ast.Attribute) and c.func.attr == "append" for c in calls_in(step[1])):
                n_app += 1
                tested = any(s[0] == "cond" and "binning" in U(s[1]) and not s[2] for s in path[:i])
                if not tested:
                    okadd = False
    ctx.check(okadd and n_app >= 1, "C18.d", "HistogramCollection.add", "append only after the binning-equality refusal was passed",
              "a path appends the histogram without having tested its binning", add.where)
    init = HC.methods.get("__init__")
    okinit = False
    for path in function_paths(init.node):
        for s in path:
            if s[0] == "cond" and "binning" in U(s[1]) and "all(" in U(s[1]) and end_kind(path) == "raise":
                okinit = True
    n_mr, off_mr = must_raise(init.node, lambda e: "binning" in U(e) and "all(" in U(e), when=False)
    n_mr2, off_mr2 = must_raise(init.node, lambda e: "binning" in U(e) and "all(" in U(e), when=True)
    okinit = okinit and (n_mr + n_mr2 >= 1) and (not off_mr or not off_mr2)
    ctx.check(okinit, "C18.d", "HistogramCollection.__init__", "raises when members' binnings differ",
              "the constructor no longer refuses members with differing binnings", init.where)

    # an invalid dtype change is refused as a whole: checks cover both arrays and precede every store (shared with C13.c)
    ctx.rule("C18.e", "set_dtype validates frequencies and errors2 before it converts anything", 3)
    from rules import c13
    c13.check_set_dtype_checks(ctx, "C18.e", m)

    # an in-place operator must not touch (re-bin, make adaptive, share binnings with) its operand: the operand would end
    # up with bins and contents of different shapes (ownership analysis shared with C12.d)
    ctx.rule("C18.f", "in-place operators never mutate or capture their operand", 8)
    from rules import c12
    for name in ("__iadd__", "__isub__", "__imul__", "__itruediv__"):
        c12.check_inplace(ctx, m, "C18.f", "HistogramBase", name)

    # bins and contents keep matching shapes: a grown binning always reports its growth (shared with C04.c),
    # and the growth is followed by the reshape (C04.b)
    ctx.rule("C18.g", "adaptive growth is always reported to the histogram, so arrays are reshaped with the binning", 1)
    from rules import c04
    c04.check_growth_reported(ctx, "C18.g", m)
    c04.check_batch_growth(ctx, "C18.g", m)

    # shared with C10.a / C09.c: merge_bins validates (apply_bin_map) before it reshapes; T transposes both arrays
    ctx.borrow("C10", ("HistogramBase.merge_bins:same-map-and-axis", "HistogramBase.merge_bins:no-other-writes"), "C18.a", floor=2)
    ctx.borrow("C09", ("Histogram2D.T",), "C18.b")
    ctx.borrow("C04", ("HistogramND.fill:grow-then-reshape", "HistogramND.fill_n:grow-then-reshape"), "C18.g", floor=2)
