"""C12 - derived histograms are independent of their sources."""
from __future__ import annotations

import ast

from sa.model import AnalysisError, calls_in
from sa.ownership import AV, Interp, MUTABLE_COMPS, describe, E
from sa.paths import function_paths, end_kind
from sa.util import U, writes_of

EXPLANATION = (
    "C12: ownership analysis. For every public operation that returns a histogram (copy, + - * /, normalize, "
    "merge_bins, projection, [] / select, T, partial_normalize, accumulate, collection copy / normalize_*) each "
    "mutable component of the returned object (binning list and binning objects, frequencies, errors2, missed, "
    "meta data) is fresh or a view of a fresh value on every path that is not the documented in-place / identity "
    "case; copy() assigns every attribute that the constructors assign; non-in-place operations never write to "
    "or call mutators on their operands; in-place operators never store a reference to their operand; no method "
    "writes into class-level mutable attributes."
)
NOT_DECIDED = ("sharing of user-supplied mutable values inside meta_data (shallow copy by design); that a copy "
               "compares == (tolerance based).")
TRUSTED = ["numpy: basic slicing / .T / np.asarray return views; arithmetic, .copy(), .astype(), reductions return new arrays",
           "bin edge arrays cached inside binning objects are never mutated in place (checked by C07.e)"]

# (class used for resolution, defining class, method, assume, identity-exempt condition texts)
OPS = [
    ("Histogram1D", "HistogramBase", "copy", {}, ()),
    ("Histogram1D", "Histogram1D", "copy", {}, ()),
    ("HistogramND", "HistogramBase", "copy", {}, ()),
    ("Histogram1D", "HistogramBase", "__add__", {}, ()),
    ("Histogram1D", "HistogramBase", "__radd__", {}, ()),
    ("Histogram1D", "HistogramBase", "__sub__", {}, ()),
    ("Histogram1D", "HistogramBase", "__mul__", {}, ()),
    ("Histogram1D", "HistogramBase", "__rmul__", {}, ()),
    ("Histogram1D", "HistogramBase", "__truediv__", {}, ()),
    ("Histogram1D", "HistogramBase", "normalize", {"inplace": False}, ()),
    ("Histogram1D", "HistogramBase", "merge_bins", {"inplace": False}, ()),
    ("HistogramND", "HistogramBase", "merge_bins", {"inplace": False}, ()),
    ("HistogramND", "HistogramND", "projection", {}, ()),
    ("PolarHistogram", "TransformedHistogramMixin", "projection", {}, ()),
    ("CylindricalHistogram", "CylindricalHistogram", "projection", {}, ()),
    ("Histogram1D", "Histogram1D", "__getitem__", {}, ("isinstance(index, int)",)),
    ("Histogram1D", "Histogram1D", "select", {}, ("index == slice(None) and (not force_copy)",)),
    ("HistogramND", "HistogramND", "select", {}, ("index == slice(None) and (not force_copy)",)),
    ("HistogramND", "HistogramND", "__getitem__", {}, ("len(index) == self.ndim and all((isinstance(i, int) for i in index))",)),
    ("Histogram2D", "Histogram2D", "T", {}, ()),
    ("Histogram2D", "Histogram2D", "partial_normalize", {"inplace": False}, ()),
    ("HistogramND", "HistogramND", "accumulate", {}, ()),
    ("HistogramCollection", "HistogramCollection", "copy", {}, ()),
    ("HistogramCollection", "HistogramCollection", "normalize_bins", {"inplace": False}, ()),
    ("HistogramCollection", "HistogramCollection", "normalize_all", {"inplace": False}, ()),
]
INPLACE = [("HistogramBase", n) for n in ("__iadd__", "__isub__", "__imul__", "__itruediv__")]


def _get(m, cname, name):
    c = m.cls(cname)
    fi = c.methods.get(name) or c.getters.get(name)
    if fi is None:
        raise AnalysisError(f"{cname}.{name} not found (anchor vanished)")
    return fi


def check_op(ctx, m, rule_a, rule_d, rescls, defcls, name, assume, exempt):
    fi = _get(m, defcls, name)
    ctx.saw(fi)
    cls = m.cls(rescls)
    it = Interp(m)
    params = [p.lstrip("*") for p in fi.params() if p not in ("self", "cls")]
    args = {"self": AV({"self"})}
    for p in params:
        args[p] = AV() if p in assume else AV({p})
    for p in fi.params():
        if p.startswith("**"):
            args[p[2:]] = AV()
        elif p.startswith("*"):
            args[p[1:]] = AV()
    problems = []
    writes = []
    n_ret = [0]

    def on_return(path, ret, val, env, _ex=exempt, _problems=problems, _n=n_ret, _fi=fi):
        conds = {(U(s[1]), s[2]) for s in path if s[0] == "cond"}
        if any((t, True) in conds for t in _ex):
            return
        _n[0] += 1
        foreign = lambda toks: {t for t in toks if t}  # every token is an alias of a source
        if val.comps is not None and val.kind == "hist":
            if val.aliases:
                _problems.append(f"`{U(ret)}` may return the source object itself ({describe(val.aliases)})")
            for comp in MUTABLE_COMPS + ["histograms[*]"]:
                toks = foreign(val.comps.get(comp, E))
                if toks:
                    _problems.append(f"component {comp} of the result returned by `{U(ret)}` aliases {describe(toks)}")
        else:
            toks = set(val.aliases)
            if val.comps is not None and val.kind == "list":
                toks |= set(val.comps.get("[*]", E))
            if toks:
                _problems.append(f"`{U(ret)}` returns a value sharing storage/identity with {describe(toks)}")

    def on_store(st, target, val, env, how, _writes=writes):
        base = target
        while isinstance(base, (ast.Subscript, ast.Attribute)):
            base = base.value
        if isinstance(base, ast.Name):
            root = env.get(base.id)
            if root is not None and any("." not in t and "[" not in t for t in root.aliases) and root.comps is None:
                _writes.append(f"`{U(st)[:80]}` writes to operand {describe(root.aliases)}")
            elif root is not None and not isinstance(target, ast.Name) and root.comps is None and root.aliases:
                _writes.append(f"`{U(st)[:80]}` writes into storage shared with {describe(root.aliases)}")

    def on_mutate(call, recv, mname, cur, _writes=writes):
        ident = {t for t in recv.aliases if "." not in t and "[" not in t}
        if ident and recv.comps is None:
            _writes.append(f"`{U(call)[:80]}` mutates operand {describe(ident)} ({mname})")
        elif recv.comps is None and recv.aliases:
            _writes.append(f"`{U(call)[:80]}` mutates an object shared with {describe(recv.aliases)} ({mname})")

    it.on_mutate = on_mutate
    it.run_function(fi, cls, args, dict(assume), 0, on_return, on_store)
    key = f"{rescls}:{defcls}.{name}" + ("" if not assume else "(" + ",".join(f"{k}={v}" for k, v in assume.items()) + ")")
    if n_ret[0] == 0:
        ctx.bad(rule_a, key, "no (non-exempt) return path could be analysed", fi.where)
    else:
        ctx.check(not problems, rule_a, key, f"{n_ret[0]} return path(s): all components fresh",
                  " ; ".join(sorted(set(problems))[:4]), fi.where)
    ctx.check(not writes, rule_d, key, "no write to / mutation of an operand",
              " ; ".join(sorted(set(writes))[:4]), fi.where)



def check_inplace(ctx, m, rule_d, defcls, name):
    fi = _get(m, defcls, name)
    ctx.saw(fi)
    for rescls in ("Histogram1D", "HistogramND"):
        cls = m.cls(rescls)
        it = Interp(m)
        p = [x for x in fi.params() if x != "self"][0]
        captured, mutated = [], []

        def on_store(st, target, val, env, how, _c=captured, _p=p):
            base = target
            while isinstance(base, (ast.Subscript,)):
                base = base.value
            if isinstance(base, ast.Attribute) and U(base.value) == "self":
                toks = set(val.aliases)
                if val.comps is not None and val.kind == "list":
                    toks |= set(val.comps.get("[*]", E))
                bad = {t for t in toks if t == _p or t.startswith(_p + ".")}
                if bad and how == "store":
                    _c.append(f"`{U(st)[:80]}` stores a reference to the operand ({describe(bad)}) in self")
            root = base
            while isinstance(root, (ast.Attribute, ast.Subscript)):
                root = root.value
            if isinstance(root, ast.Name) and root.id in env and not isinstance(target, ast.Name):
                r = env[root.id]
                if r.comps is None and (_p in r.aliases):
                    mutated.append(f"`{U(st)[:80]}` writes to the operand `{_p}`")

        def on_mutate(call, recv, mname, cur, _m=mutated, _p=p):
            if recv.comps is None and _p in recv.aliases:
                _m.append(f"`{U(call)[:80]}` mutates the operand `{_p}` ({mname})")
            elif recv.comps is None and any(t.startswith(_p + ".") for t in recv.aliases):
                _m.append(f"`{U(call)[:80]}` mutates a component of the operand ({describe(recv.aliases)})")

        it.on_mutate = on_mutate
        it.run_function(fi, cls, {"self": AV({"self"}), p: AV({p})}, {}, 0, None, on_store)
        key = f"{rescls}:{defcls}.{name}"
        ctx.check(not captured and not mutated, rule_d, key,
                  "stores only fresh values in self and never touches the operand",
                  " ; ".join(sorted(set(captured + mutated))[:4]), fi.where)



def check_copy_contents(ctx, rule, m):
    """HistogramBase.copy(): with frequencies, the three content stores are copies of the source's own stores on every path
    (no further condition decides whether something is carried over); without, each is zeros_like its source store;
    dtype, keep_missed and meta data are taken over in both cases."""
    from sa.util import Env
    HB = m.cls("HistogramBase")
    cp = HB.methods["copy"]
    ctx.saw(cp)
    src = {"_frequencies": ("frequencies", "_frequencies"), "_errors2": ("errors2", "_errors2"), "_missed": ("_missed",)}
    probs = {True: [], False: []}
    npaths = {True: 0, False: 0}
    for path in function_paths(cp.node):
        if end_kind(path) != "return":
            continue
        inc = None
        for s_ in path:
            if s_[0] == "cond" and U(s_[1]) == "include_frequencies":
                inc = s_[2]
        if inc is None:
            probs[True].append("a returning path does not branch on include_frequencies")
            continue
        npaths[inc] += 1
        env = Env()
        got = {}
        for s_ in path:
            if s_[0] == "stmt":
                for w in writes_of(s_[1]):
                    if w.root not in ("self",) and w.attr in ("_frequencies", "_errors2", "_missed", "_dtype", "keep_missed", "_meta_data") \
                            and isinstance(s_[1], ast.Assign):
                        got[w.attr] = U(env.expand(s_[1].value))
            env.step(s_)
        for attr, names in src.items():
            if inc:
                want = {f for n in names for f in (f"np.copy(self.{n})", f"self.{n}.copy()", f"np.array(self.{n})", f"np.array(self.{n}, copy=True)")}
            else:
                want = {f"np.zeros_like(self.{n})" for n in names}
            if got.get(attr) not in want:
                conds = [f"{U(s_[1])}={s_[2]}" for s_ in path if s_[0] == "cond" and U(s_[1]) != "include_frequencies"]
                probs[inc].append(f"{attr} <- `{got.get(attr)}`" + (f" when {conds}" if conds else ""))
        for attr, want in (("_dtype", ("self.dtype", "self._dtype")), ("keep_missed", ("self.keep_missed",)),
                           ("_meta_data", ("self._meta_data.copy()", "dict(self._meta_data)"))):
            if got.get(attr) not in want:
                probs[inc].append(f"{attr} <- `{got.get(attr)}`")
    ctx.check(npaths[True] >= 1 and not probs[True], rule, "HistogramBase.copy:with-contents",
              "frequencies, errors2 and missed are copies of the source's stores on every path; dtype, keep_missed, meta data taken over",
              "copy() does not carry over: " + "; ".join(sorted(set(probs[True]))[:3]), cp.where)
    ctx.check(npaths[False] >= 1 and not probs[False], rule, "HistogramBase.copy:emptied",
              "frequencies, errors2 and missed are zeros of the source's shapes; dtype, keep_missed, meta data taken over",
              "copy(include_frequencies=False): " + "; ".join(sorted(set(probs[False]))[:3]), cp.where)


def check_default_init_values(ctx, rule, m):
    """HistogramBase.__init__: class-level defaults are copied, then the caller's keyword arguments are laid over them."""
    # __init__ copies default_init_values before updating
    init = _get(m, "HistogramBase", "__init__")
    ok = False
    for p in function_paths(init.node):
        from sa.util import Env
        env = Env()
        for step in p:
            if step[0] == "stmt":
                for cc in calls_in(step[1]):
                    if isinstance(cc.func, ast.Attribute) and cc.func.attr == "update":
                        d = env.resolve(cc.func.value)
                        if isinstance(d, ast.Call) and U(d.func) == "self.default_init_values.copy":
                            ok = True
            env.step(step)
    uses = [n for n in ast.walk(init.node) if isinstance(n, ast.Attribute) and n.attr == "default_init_values"]
    ctx.check(ok or not uses, rule, "HistogramBase.__init__:default_init_values",
              "updated on a copy only", "default_init_values is updated without copying it first", init.where)


def run(ctx):
    m = ctx.model
    ctx.rule("C12.a", "every mutable component of the histogram returned by a public non-in-place operation is FRESH", 25)
    ctx.rule("C12.d", "non-in-place operations never write to / mutate their operands; in-place operators never "
             "store a reference to their operand", 25)
    from rules import wiring as _w
    _w.same_name_forwarding(ctx, "C12.d", m, _w.funcs_of(m, "histogram_base", "histogram1d", "histogram_nd", "histogram_collection"),
                            "histogram-classes:options-forwarded")
    _w.params_used(ctx, "C12.d", _w.funcs_of(m, "histogram_base", "histogram1d", "histogram_nd", "histogram_collection"),
                   "histogram-classes:options-read")
    for rescls, defcls, name, assume, exempt in OPS:
        check_op(ctx, m, "C12.a", "C12.d", rescls, defcls, name, assume, exempt)
    for defcls, name in INPLACE:
        check_inplace(ctx, m, "C12.d", defcls, name)

    # summary assumed by the ownership interpreter: the merged meta data of a + b / a - b is a new dict on every path
    mm = m.cls("HistogramBase").methods.get("_merge_meta_data")
    if mm is None:
        raise AnalysisError("HistogramBase._merge_meta_data not found (summary of the ownership interpreter)")
    ctx.saw(mm)
    rets = [n.value for n in ast.walk(mm.node) if isinstance(n, ast.Return)]
    def _fresh_dict(v):
        return isinstance(v, (ast.Dict, ast.DictComp)) or (isinstance(v, ast.Call) and (
            U(v.func) in ("dict", "copy.copy", "copy.deepcopy") or (isinstance(v.func, ast.Attribute) and v.func.attr == "copy")))
    shared = [U(v)[:60] for v in rets if v is None or not _fresh_dict(v)]
    ctx.check(bool(rets) and not shared, "C12.a", "HistogramBase._merge_meta_data:fresh", f"{len(rets)} return(s), each a newly built dict",
              f"_merge_meta_data returns `{shared[0] if shared else None}` - an operand's own meta-data dict becomes the result's "
              "(renaming the sum renames the operand)", mm.where)

    # ---- C12.b copy completeness ----------------------------------------------------------------
    ctx.rule("C12.b", "copy() definitely assigns, on every path, every instance attribute the __init__ chain assigns", 4)
    check_copy_contents(ctx, "C12.b", m)
    _copy_completeness(ctx, m)

    # ---- C12.c class-level mutables ------------------------------------------------------------------
    ctx.rule("C12.c", "no method writes into a class-level mutable attribute (dict / list shared by all instances)", 3)
    for c in m.classes.values():
        if not (m.is_subclass(c, "HistogramBase") or m.is_subclass(c, "BinningBase") or c.name in
                ("TransformedHistogramMixin", "HistogramCollection")):
            continue
        for aname, val in c.attrs.items():
            if not isinstance(val, (ast.Dict, ast.List, ast.Set)):
                continue
            bad = []
            for k in m.classes.values():
                if c not in m.mro(k):
                    continue
                for fi in list(k.methods.values()) + list(k.getters.values()) + list(k.setters.values()):
                    for st in ast.walk(fi.node):
                        if isinstance(st, ast.stmt):
                            for w in writes_of(st):
                                if w.attrs and w.attrs[0] == aname and w.root in ("self", "cls", c.name, k.name) \
                                        and (w.how != "store" or w.root != "self"):
                                    bad.append(f"{fi.qualname}: `{U(st)[:60]}`")
            ctx.check(not bad, "C12.c", f"{c.name}.{aname}", "never written through an instance or the class",
                      "class-level mutable is modified in place: " + "; ".join(bad[:3]), c.where)
    check_default_init_values(ctx, "C12.c", m)


def _assigned_attrs(fn: ast.FunctionDef, obj: str):
    """For every normal path: set of attributes of `obj` definitely assigned (plain or through a property)."""
    out = []
    for p in function_paths(fn):
        if end_kind(p) == "raise":
            continue
        s = set()
        for step in p:
            if step[0] == "stmt":
                for w in writes_of(step[1]):
                    if w.root == obj and w.attrs and w.how in ("store", "setattr"):
                        s.add(w.attrs[0])
        out.append(s)
    return out


def _copy_completeness(ctx, m):
    SETTER_MAP = {"frequencies": "_frequencies", "errors2": "_errors2", "axis_names": "_meta_data",
                  "_binning": "_binnings", "dtype": "_dtype"}
    for cname in ("Histogram1D", "HistogramND", "Histogram2D", "PolarHistogram", "RadialHistogram"):
        cls = m.cls(cname)
        # attributes assigned by the __init__ chain (union over MRO __init__ bodies reached through explicit calls)
        need = set()
        for k in m.mro(cls):
            init = k.methods.get("__init__")
            if init is None:
                continue
            per_path = _assigned_attrs(init.node, "self")
            if per_path:
                common = set.intersection(*per_path) if per_path else set()
                need |= {SETTER_MAP.get(a, a) for a in common}
        # attributes assigned by the copy chain
        have = None
        chain = []
        k, fi = m.resolve_method(cls, "copy")
        while fi is not None:
            chain.append(fi)
            ctx.saw(fi)
            var = None
            for n in ast.walk(fi.node):
                if isinstance(n, ast.Assign) and isinstance(n.targets[0], ast.Name) and isinstance(n.value, ast.Call):
                    t = U(n.value.func)
                    if t in ("self.__class__.__new__", "super().copy", "object.__new__", "type(self).__new__"):
                        var = n.targets[0].id
            if var is None:
                ctx.bad("C12.b", f"{cname}.copy", f"{fi.qualname} does not build its result with __new__/super().copy()", fi.where)
                break
            per_path = _assigned_attrs(fi.node, var)
            common = set.intersection(*per_path) if per_path else set()
            common = {SETTER_MAP.get(a, a) for a in common}
            have = common if have is None else have | common
            calls_super = any(isinstance(n, ast.Call) and U(n.func) == "super().copy" for n in ast.walk(fi.node))
            if not calls_super:
                break
            nxt = m.resolve_method(cls, "copy", after=fi.cls)
            fi = nxt[1] if nxt else None
        if have is None:
            continue
        missing = sorted(a for a in need - have if a.startswith("_") or a in ("keep_missed",))
        ctx.check(not missing, "C12.b", f"{cname}.copy",
                  f"copy chain {[f.qualname for f in chain]} assigns {sorted(have)} on every path",
                  f"attributes assigned by the constructors but not on every path of copy(): {missing}",
                  chain[0].where)

    # shared with C09.a: every path of projection() returns freshly summed arrays
    ctx.borrow("C09", ("projection:every-path-sums",), "C12.a")
    ctx.borrow("C14", ("Histogram1D.copy:statistics",), "C12.a")
    ctx.borrow("C06", ("Histogram2D.partial_normalize:",), "C12.d", floor=2)
