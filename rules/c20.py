"""C20 - plots show exactly the histogram's data and never modify it."""
from __future__ import annotations

import ast

from sa.model import AnalysisError, calls_in, kwarg, FuncInfo
from sa.paths import function_paths, end_kind, consistent, must_raise
from sa.util import U, Env, call_is, const_value, writes_of

EXPLANATION = (
    "C20: what a backend finally draws is matplotlib's / plotly's behaviour and is not decided. Decided: no plot "
    "function or helper of the matplotlib, plotly and ASCII backends writes to, augments or calls a mutator on its "
    "histogram argument (only read-only properties and copying operations are applied); every 1-D plot function takes "
    "its heights from get_data(h, density=<its flag>, cumulative=<its flag>) and hands exactly that value to the "
    "drawing primitive together with the x-geometry the statement names (bar: left edges + widths, align='edge'; "
    "scatter / line / fill: centres; step: numpy_bins with the first height repeated), error bars from get_err_data "
    "with the same flags; get_data / get_err_data select densities / cumulative / frequencies and errors(/bin_sizes) on "
    "the right branches; map draws one rectangle per bin at (left edges, widths) coloured by the same flat index and "
    "skips a bin only when its value == 0 and show_zero is off; image's extent is the first/last edges of both axes; "
    "every registered plot function is wrapped in the dimension check it is registered under, unknown kinds / backends "
    "raise; the listed rectangular kinds call _add_labels whose defaults are the histogram's title and axis names; the "
    "time-tick helper spans ceil(min/unit)..floor(max/unit)."
)
NOT_DECIDED = "artist positions, colours, tick placement as rendered by the backend; the label formatting of TimeTickHandler."
TRUSTED = ["matplotlib Axes.bar/scatter/plot/step/fill_between/errorbar/imshow argument semantics", "plotly go.Bar / go.Scatter"]

MUTATORS = {"fill", "fill_n", "set_dtype", "set_adaptive", "_coerce_dtype", "_change_binning", "_reshape_data", "__iadd__", "__imul__",
            "__isub__", "__itruediv__", "add", "create"}
INPLACE_FLAG = {"normalize", "merge_bins", "partial_normalize", "normalize_bins", "normalize_all"}
HIST_PARAMS = {"h1", "h2", "hist", "h", "histogram", "first", "second"}


def _plot_functions(m):
    out = []
    mp = m.module("plotting.matplotlib")
    for fi in mp.all_functions:
        out.append(fi)
    for mod in ("plotting.plotly", "plotting.ascii", "plotting.common"):
        out += m.module(mod).all_functions
    return out


def run(ctx):
    m = ctx.model
    mp = m.module("plotting.matplotlib")
    pl = m.module("plotting.plotly")
    asc = m.module("plotting.ascii")
    com = m.module("plotting.common")
    init = m.module("plotting")

    # ---- C20.a read-only ------------------------------------------------------------------------------------------------
    ctx.rule("C20.a", "no plot function / helper writes to or mutates its histogram argument", 25)
    for fi in _plot_functions(m):
        params = [p for p in fi.params() if p in HIST_PARAMS]
        if not params:
            continue
        ctx.saw(fi)
        bad = []
        aliases = set(params)
        # loop variables over a collection parameter are histograms as well
        for n in ast.walk(fi.node):
            if isinstance(n, ast.For) and isinstance(n.target, ast.Name) and U(n.iter) in aliases:
                aliases.add(n.target.id)
            if isinstance(n, ast.comprehension) and isinstance(n.target, ast.Name) and U(n.iter) in aliases:
                aliases.add(n.target.id)
        for st in ast.walk(fi.node):
            if isinstance(st, ast.stmt):
                for w in writes_of(st):
                    if w.root in aliases:
                        bad.append(f"`{U(st)[:60]}` writes to the histogram")
                if isinstance(st, ast.AugAssign) and isinstance(st.target, ast.Name) and st.target.id in aliases:
                    bad.append(f"`{U(st)[:60]}` is an in-place operator on the histogram")
            if isinstance(st, ast.Call) and isinstance(st.func, ast.Attribute) and isinstance(st.func.value, ast.Name) and st.func.value.id in aliases:
                name = st.func.attr
                if name in MUTATORS:
                    bad.append(f"`{U(st)[:60]}` calls a mutating method")
                if name in INPLACE_FLAG:
                    k = kwarg(st, "inplace")
                    pos = st.args[0] if name == "normalize" and st.args else None
                    flag = k if k is not None else pos
                    if flag is not None and not (isinstance(flag, ast.Constant) and flag.value is False):
                        bad.append(f"`{U(st)[:60]}` may run in place")
        ctx.check(not bad, "C20.a", f"{fi.module.short}.{fi.name}", f"histogram parameter(s) {sorted(params)} only read", " ; ".join(sorted(set(bad))[:3]), fi.where)

    # ---- C20.b the plotted series -------------------------------------------------------------------------------------------------
    ctx.rule("C20.b", "heights = get_data(h, density, cumulative) handed to the primitive with the named x-geometry; errors from get_err_data; get_data branches", 14)
    gd = com.functions["get_data"]
    ctx.saw(gd)
    sel = {}
    for path in function_paths(gd.node):
        if end_kind(path) != "return" or not consistent(path):
            continue
        cs = dict((U(s[1]), s[2]) for s in path if s[0] == "cond")
        for s in path:
            if s[0] == "stmt" and isinstance(s[1], ast.Assign) and U(s[1].targets[0]) == "data" and "flatten" not in U(s[1].value):
                sel[(cs.get("density"), cs.get("cumulative"))] = U(s[1].value)
    h = [p for p in gd.params()][0]
    want = {(True, True): f"({h} / {h}.total).cumulative_frequencies", (True, False): f"{h}.densities",
            (False, True): f"{h}.cumulative_frequencies", (False, False): f"{h}.frequencies"}
    ctx.check(sel == want, "C20.b", "get_data:branches", "density -> densities, cumulative -> cumulative sums (normalised copy for both), else frequencies",
              f"get_data selects {sel}; expected {want}", gd.where)
    ge = com.functions["get_err_data"]
    ctx.saw(ge)
    sele = {}
    refuses = False
    for path in function_paths(ge.node):
        cs = dict((U(s[1]), s[2]) for s in path if s[0] == "cond")
        if cs.get("cumulative") and end_kind(path) == "raise":
            refuses = True
        for s in path:
            if s[0] == "stmt" and isinstance(s[1], ast.Assign) and U(s[1].targets[0]) == "data" and "flatten" not in U(s[1].value):
                sele[cs.get("density")] = U(s[1].value)
    he = [p for p in ge.params()][0]
    ctx.check(refuses and sele == {True: f"{he}.errors / {he}.bin_sizes", False: f"{he}.errors"}, "C20.b", "get_err_data:branches",
              "errors (/ bin_sizes for densities); cumulative refused", f"get_err_data selects {sele}, cumulative refused: {refuses}", ge.where)

    GEOM = {
        "bar": ("bar", ["{h}.bin_left_edges", "DATA", "{h}.bin_widths"], {"align": "'edge'"}),
        "scatter": ("scatter", ["{h}.bin_centers", "DATA"], {}),
        "line": ("plot", ["{h}.bin_centers", "DATA"], {}),
        "fill": ("fill_between", ["{h}.bin_centers", "0", "DATA"], {}),
        "step": ("step", ["{h}.numpy_bins", "np.concatenate([DATA[:1], DATA])"], {}),
    }
    for kind, (prim, args, kws) in GEOM.items():
        fi = mp.functions.get(kind)
        if fi is None:
            ctx.bad("C20.b", f"matplotlib.{kind}", "plot function vanished", mp.relpath)
            continue
        ctx.saw(fi)
        hp = fi.params()[0]
        datas = [n for n in ast.walk(fi.node) if isinstance(n, ast.Assign) and isinstance(n.value, ast.Call) and call_is(n.value, "get_data")]
        probs = []
        if len(datas) != 1:
            probs.append(f"{len(datas)} get_data calls")
        else:
            dv = U(datas[0].targets[0])
            gc = datas[0].value
            if U(gc.args[0]) != hp or U(kwarg(gc, "cumulative")) != "cumulative" or U(kwarg(gc, "density")) != "density":
                probs.append(f"heights come from `{U(gc)}`, not get_data({hp}, cumulative=cumulative, density=density)")
            prims = [c for c in calls_in(fi.node) if isinstance(c.func, ast.Attribute) and U(c.func.value) == "ax" and c.func.attr == prim]
            if not prims:
                probs.append(f"ax.{prim}(...) not called")
            for c in prims:
                got = [U(a) for a in c.args[: len(args)]]
                wantargs = [a.replace("{h}", hp).replace("DATA", dv) for a in args]
                if got != wantargs:
                    probs.append(f"ax.{prim} receives {got}, expected {wantargs}")
                for k, v in kws.items():
                    if U(kwarg(c, k)) != v:
                        probs.append(f"ax.{prim} lacks {k}={v}")
            errs = [n for n in ast.walk(fi.node) if isinstance(n, ast.Assign) and isinstance(n.value, ast.Call) and call_is(n.value, "get_err_data")]
            for e in errs:
                ec = e.value
                if U(ec.args[0]) != hp or U(kwarg(ec, "cumulative")) != "cumulative" or U(kwarg(ec, "density")) != "density":
                    probs.append(f"error bars come from `{U(ec)}` - flags differ from the heights'")
            for c in [c for c in calls_in(fi.node) if isinstance(c.func, ast.Attribute) and c.func.attr == "errorbar"]:
                if [U(a) for a in c.args[:2]] != [f"{hp}.bin_centers", dv] or (errs and U(kwarg(c, "yerr")) != U(errs[0].targets[0])):
                    probs.append(f"errorbar receives {[U(a) for a in c.args[:2]]} / yerr={U(kwarg(c, 'yerr'))}")
        ctx.check(not probs, "C20.b", f"matplotlib.{kind}", f"ax.{prim}({', '.join(args).replace('{h}', hp)})", " ; ".join(probs[:3]), fi.where)
    mapf = mp.functions.get("map")
    ctx.saw(mapf)
    # the two coordinate transforms of a transformed map are functions of the same untransformed pair: along every path, what is
    # handed to y(...) must not already have gone through x(...) (and vice versa)
    tprobs, ncalls = [], 0
    for p_ in function_paths(mapf.node):
        env = Env()
        for st_ in p_:
            if st_[0] == "stmt":
                for c_ in calls_in(st_[1]):
                    if isinstance(c_.func, ast.Name) and c_.func.id in ("x", "y") and len(c_.args) == 2:
                        ncalls += 1
                        other_ = "y" if c_.func.id == "x" else "x"
                        for a_ in c_.args:
                            e_ = env.resolve(a_) if isinstance(a_, ast.Name) else a_
                            if any(isinstance(n_, ast.Call) and isinstance(n_.func, ast.Name) and n_.func.id in ("x", "y") for n_ in ast.walk(e_)):
                                tprobs.append(f"`{U(c_)}` receives `{U(e_)[:40]}`, which is already a transformed coordinate")
            env.step(st_)
    ctx.check(not tprobs and ncalls >= 2, "C20.b", "matplotlib.map:transform-arguments", "x(...) and y(...) are applied to untransformed coordinates",
              " ; ".join(sorted(set(tprobs))[:2]) or "transform calls not found", mapf.where)
    tm = U(mapf.node)
    hp = mapf.params()[0]
    facts = {
        "origin = left edges": f"xpos, ypos = (arr.flatten() for arr in {hp}.get_bin_left_edges())" in tm,
        "size = widths": f"dx, dy = (arr.flatten() for arr in {hp}.get_bin_widths())" in tm,
        "text at centres": f"text_x, text_y = (arr.flatten() for arr in {hp}.get_bin_centers())" in tm,
        "rectangle (xpos[i], ypos[i]), dx[i], dy[i]": "patches.Rectangle((xpos[i], ypos[i]), dx[i], dy[i]" in tm,
        "colour from the same flat index": "bin_color = colors[i]" in tm and "facecolor=bin_color" in tm,
        "data = get_data(flatten, density)": any(
            isinstance(n_, ast.Assign) and U(n_.targets[0]) == "data" and isinstance(n_.value, ast.Call) and call_is(n_.value, "get_data")
            and U(n_.value.args[0]) == hp and U(kwarg(n_.value, "flatten")) == "True" and U(kwarg(n_.value, "density")) == "kwargs.pop('density', False)"
            for n_ in ast.walk(mapf.node)),
        "value text = data[i]": "text = value_format(data[i])" in tm,
    }
    facts["colour = cmap(norm(value)) of the values drawn"] = "(norm, cmap_data) = _get_cmap_data(data, kwargs)" in tm.replace("norm, cmap_data =", "(norm, cmap_data) =") \
        and "colors = cmap(cmap_data)" in tm
    gcd = mp.functions.get("_get_cmap_data")
    ctx.saw(gcd)
    dpar = gcd.params()[0]
    norms = [c for c in calls_in(gcd.node) if U(c.func) in ("colors.Normalize", "colors.LogNorm", "Normalize", "LogNorm")]
    ok_norm = len(norms) >= 2 and all([U(a) for a in c.args[:2]] == ["cmap_min", "cmap_max"] for c in norms)
    rets = [U(n.value) for n in ast.walk(gcd.node) if isinstance(n, ast.Return)]
    defs_max = {U(n.value) for n in ast.walk(gcd.node) if isinstance(n, ast.Assign) and U(n.targets[0]) == "cmap_max"}
    ctx.check(ok_norm and rets == [f"(norm, norm({dpar}))"] and defs_max == {f"kwargs.pop('cmap_max', {dpar}.max())"}, "C20.b",
              "matplotlib._get_cmap_data", "a matplotlib normaliser over (cmap_min, cmap_max = data.max() by default) applied to the data itself - "
              "monotone in the value", f"normalisers: {[U(c)[:50] for c in norms]}; returns {rets}; cmap_max from {sorted(defs_max)}", gcd.where)
    guards = [n.test for n in ast.walk(mapf.node) if isinstance(n, ast.If) and "show_zero" in U(n.test)]
    okg = any(isinstance(g, ast.BoolOp) and isinstance(g.op, ast.Or) and any(isinstance(v, ast.Compare) and U(v.left) == "data[i]" and isinstance(v.ops[0], ast.NotEq)
                                                                              and const_value(v.comparators[0]) == 0 for v in g.values) for g in guards)
    facts["a cell is skipped only when its value == 0 and show_zero is off"] = okg
    for k, v in facts.items():
        ctx.check(v, "C20.b", f"matplotlib.map:{k}", k, f"matplotlib.map: NOT({k})", mapf.where)
    img = mp.functions.get("image")
    ctx.saw(img)
    ti = U(img.node)
    hp = img.params()[0]
    ctx.check(f"extent=({hp}.bins[0][0, 0], {hp}.bins[0][-1, 1], {hp}.bins[1][0, 0], {hp}.bins[1][-1, 1])" in ti and "data.T[::-1, :]" in ti
              and f"data = get_data({hp}, density=density)" in ti, "C20.b", "matplotlib.image", "extent = first / last edges of both axes; data transposed and flipped for imshow",
              "image extent / orientation / data source changed", img.where)
    ok_reg = False
    for n in ast.walk(img.node):
        if isinstance(n, ast.For) and U(n.iter) in (f"{hp}._binnings", f"{hp}.binnings"):
            v = U(n.target)
            for st in n.body:
                if isinstance(st, ast.If) and U(st.test) == f"not {v}.is_regular()" and any(isinstance(b, ast.Raise) for b in st.body):
                    ok_reg = True
        if isinstance(n, ast.If) and any(isinstance(b, ast.Raise) for b in n.body):
            t = U(n.test)
            if t.startswith("not all(") and "is_regular()" in t and "_binnings" in t:
                ok_reg = True
            if t.startswith("any(not ") and "is_regular()" in t and "_binnings" in t:
                ok_reg = True
    ctx.check(ok_reg, "C20.b", "matplotlib.image:regular-bins-only", "refused as soon as any axis has irregular bins (pixels are equally spaced)",
              "image() no longer refuses a histogram when at least one axis is irregular (`any` where `all` is needed?) - cells would be drawn off the bin edges", img.where)
    for name, x in (("bar", "bin_centers"), ("_line_or_scatter", "bin_centers")):
        fi = pl.functions.get(name)
        ctx.saw(fi)
        tp = U(fi.node)
        ok = f"x=histogram.{x}" in tp and "y=get_data(histogram, **get_data_kwargs)" in tp and "pop_many(kwargs, 'density', 'cumulative', 'flatten')" in tp
        if name == "bar":
            ok = ok and "width=histogram.bin_widths" in tp
        ctx.check(ok, "C20.b", f"plotly.{name}", f"x = {x}, y = get_data(histogram, density/cumulative)" + (", width = bin widths" if name == "bar" else ""),
                  f"plotly {name} wiring changed", fi.where)
    hb = asc.functions.get("hbar")
    ctx.saw(hb)
    th = U(hb.node)
    ctx.check("(h1.normalize().frequencies * width).round().astype(int)" in th and "range(h1.bin_count)" in th and "'#' * data[i]" in th, "C20.b", "ascii.hbar",
              "bar length ~ normalised frequency (a copy), one line per bin", "ascii hbar wiring changed", hb.where)

    # ---- C20.c refusals -------------------------------------------------------------------------------------------------------------
    ctx.rule("C20.c", "registered plot functions are wrapped in check_ndim with their registered dimensions; unknown kinds / backends raise", 8)
    reg = mp.functions.get("register")
    ctx.saw(reg)
    tr = U(reg.node)
    ctx.check("types.append(f.__name__)" in tr and "dims[f.__name__] = dim" in tr and "@check_ndim(dim)" in tr, "C20.c", "matplotlib.register",
              "register(*dim): records the kind and wraps it in check_ndim(dim)", "matplotlib.register no longer wraps functions in check_ndim(dim)", reg.where)
    nreg = 0
    for fi in mp.all_functions:
        decos = [d for d in fi.node.decorator_list if isinstance(d, ast.Call) and U(d.func) == "register"]
        if decos:
            nreg += 1
            dims = [const_value(a) for a in decos[0].args]
            ctx.check(bool(dims) and all(isinstance(x, int) for x in dims), "C20.c", f"matplotlib.{fi.name}:registered", f"registered for dimension(s) {dims}",
                      f"{fi.name} is registered without dimensions", fi.where)
    ctx.check(nreg >= 12, "C20.c", "matplotlib:registered-count", f"{nreg} registered plot functions", f"only {nreg} registered matplotlib plot functions", mp.relpath)
    cn = com.functions.get("check_ndim")
    ctx.saw(cn)
    tc = U(cn.node)
    ctx.check("if h.ndim not in expected_dim:" in tc and "raise TypeError" in tc and "return f(h, *args, **kwargs)" in tc, "C20.c", "check_ndim",
              "h.ndim not in expected -> TypeError before the plot function runs", "check_ndim no longer raises TypeError for a wrong dimension", cn.where)
    pdims = pl.assigns.get("dims")
    ptypes = pl.assigns.get("types")
    listed = [const_value(e) for e in ptypes.elts] if isinstance(ptypes, ast.List) else []
    extra = [const_value(c.args[0]) for c in ast.walk(pl.tree) if isinstance(c, ast.Call) and U(c.func) == "types.append" and c.args]
    for kind in listed + extra:
        fi = pl.functions.get(kind)
        want = 2 if kind == "map" else 1
        deco = [const_value(d.args[0]) for d in fi.node.decorator_list if isinstance(d, ast.Call) and U(d.func) == "check_ndim"] if fi else []
        ctx.check(deco == [want], "C20.c", f"plotly.{kind}:check_ndim", f"wrapped in check_ndim({want})", f"plotly {kind} is not wrapped in check_ndim({want}) (found {deco})",
                  fi.where if fi else pl.relpath)
    pf = init.functions.get("plot")
    ctx.saw(pf)
    okp = any(end_kind(p) == "raise" and ("kind in backend_impl.types", False) in [(U(s[1]), s[2]) for s in p if s[0] == "cond"] for p in function_paths(pf.node))
    n_mr, off_mr = must_raise(pf.node, lambda e: U(e) == "kind in backend_impl.types", when=False)
    okp = okp and n_mr >= 1 and not off_mr
    ctx.check(okp, "C20.c", "plot:unknown-kind", "kind not in backend.types -> RuntimeError", "an unknown plot kind is no longer refused", pf.where)
    gb = init.functions.get("_get_backend")
    ctx.saw(gb)
    okb = any(end_kind(p) == "raise" and ("backend", False) in [(U(s[1]), s[2]) for s in p if s[0] == "cond"] for p in function_paths(gb.node))
    n_mr, off_mr = must_raise(gb.node, lambda e: U(e) == "backend", when=False)
    okb = okb and n_mr >= 1 and not off_mr
    ctx.check(okb, "C20.c", "_get_backend:unknown", "unknown backend -> RuntimeError", "an unknown backend is no longer refused", gb.where)

    # dispatch: the method looked up is the one named `kind`, called with the caller's histogram and keyword arguments
    tpf = U(pf.node)
    hpar = pf.params()[0]
    ctx.check("method = getattr(backend_impl, kind)" in tpf and f"return method({hpar}, **kwargs)" in tpf
              and f"if {hpar}.ndim in backend_impl.dims[t]" in tpf and "kind = kinds[0]" in tpf, "C20.c", "plot:dispatch",
              "getattr(backend, kind)(histogram, **kwargs); the default kind is the first one registered for the histogram's dimension",
              "plot() no longer dispatches to the backend function named `kind` with the histogram and kwargs", pf.where)
    PP = m.cls("PlottingProxy")
    pc, pg = PP.methods.get("__call__"), PP.methods.get("__getattr__")
    ctx.saw(pc)
    ctx.saw(pg)
    okpp = "return plot(self.histogram, kind=kind, **kwargs)" in U(pc.node) and \
        f"return plot(self.histogram, {[q for q in pg.params() if q != 'self'][0]}, **kwargs)" in U(pg.node)
    ctx.check(okpp, "C20.c", "PlottingProxy:forwards", "h.plot(kind, ...) and h.plot.<kind>(...) are plot(h, kind, ...)",
              "the plotting proxy no longer forwards its own histogram, the kind and the keyword arguments to plot()", pc.where)
    plt_ = m.cls("HistogramBase").getters.get("plot")
    ctx.check(plt_ is not None and "PlottingProxy(self)" in U(plt_.node), "C20.c", "HistogramBase.plot", "the proxy wraps the histogram itself",
              "HistogramBase.plot does not return PlottingProxy(self)", plt_.where if plt_ else "")

    from rules import wiring as _w
    _w.params_used(ctx, "C20.c", _w.funcs_of(m, "plotting", "plotting.common", "plotting.matplotlib", "plotting.plotly", "plotting.ascii"),
                   "plotting:options-read")
    _w.same_name_forwarding(ctx, "C20.c", m, _w.funcs_of(m, "plotting", "plotting.common", "plotting.matplotlib", "plotting.plotly", "plotting.ascii"),
                   "plotting:options-forwarded")

    # ---- C20.d labels ------------------------------------------------------------------------------------------------------------------
    ctx.rule("C20.d", "bar / scatter / line / fill / step / map / image / bar3d call _add_labels; defaults are the histogram's title and axis names", 9)
    for kind in ("bar", "scatter", "line", "fill", "step", "map", "image", "bar3d"):
        fi = mp.functions.get(kind)
        hp = fi.params()[0]
        ok = any(U(c.func) == "_add_labels" and [U(a) for a in c.args] == ["ax", hp, "kwargs"] for c in calls_in(fi.node))
        ctx.check(ok, "C20.d", f"matplotlib.{kind}:labels", "_add_labels(ax, h, kwargs)", f"{kind} no longer labels the plot from the histogram", fi.where)
    al = mp.functions.get("_add_labels")
    ctx.saw(al)
    ta = U(al.node)
    ok = "title = kwargs.pop('title', h.title)" in ta and "xlabel = kwargs.pop('xlabel', h.axis_names[0])" in ta and \
        "ylabel = kwargs.pop('ylabel', h.axis_names[1] if len(h.axis_names) == 2 else None)" in ta and "ax.set_title(title)" in ta and "ax.set_xlabel(xlabel)" in ta and "ax.set_ylabel(ylabel)" in ta
    ctx.check(ok, "C20.d", "_add_labels:defaults", "title / xlabel / ylabel default to h.title / axis_names[0] / axis_names[1] and can be overridden",
              "_add_labels defaults or setters changed", al.where)

    # ---- C20.e time ticks ----------------------------------------------------------------------------------------------------------------
    ctx.rule("C20.e", "time ticks are the multiples of the unit from ceil(min/unit) to floor(max/unit)", 1)
    TT = m.cls("TimeTickHandler")
    gt = TT.methods.get("get_time_ticks")
    ctx.saw(gt)
    tg = U(gt.node)
    ok = "min_factor = int(min_ // width)" in tg and "if min_ % width != 0:" in tg and "min_factor += 1" in tg and "max_factor = int(max_ // width)" in tg \
        and "np.arange(min_factor, max_factor + 1) * width" in tg
    ctx.check(ok, "C20.e", "TimeTickHandler.get_time_ticks", "first tick = ceil(min/unit) via floor division + remainder, last = floor(max/unit)",
              "the tick range is not ceil(min/unit) .. floor(max/unit) computed with floor division (truncation towards zero drops ticks for negative ranges)", gt.where)

    # the tick handler is given the axes' x-range: helpers that READ the limits run after the helper that SETS them
    mp = m.module("plotting.matplotlib")

    def _touches(fi, attrs):
        return any(isinstance(c.func, ast.Attribute) and c.func.attr in attrs for c in calls_in(fi.node))
    setters = {n for n, f in mp.functions.items() if n.startswith("_") and _touches(f, ("set_xlim", "set_ylim"))}
    readers = {n for n, f in mp.functions.items() if n.startswith("_") and _touches(f, ("get_xlim", "get_ylim"))}
    if not setters or not readers:
        raise AnalysisError(f"matplotlib backend: limit setters {setters} / readers {readers} not found")
    n_fun = 0
    for name, fi in mp.functions.items():
        if name.startswith("_"):
            continue
        names = [U(c.func) for c in calls_in(fi.node)]
        if not (set(names) & setters and set(names) & readers):
            continue
        n_fun += 1
        ctx.saw(fi)
        bad = []
        for path in function_paths(fi.node):
            seen_set = False
            for s_ in path:
                if s_[0] != "stmt":
                    continue
                for c in calls_in(s_[1]):
                    if U(c.func) in setters:
                        seen_set = True
                    if U(c.func) in readers and not seen_set:
                        bad.append(f"`{U(c.func)}` (reads the axis range) runs before `{sorted(setters)[0]}` has set it")
        ctx.check(not bad, "C20.e", f"{name}:limits-before-ticks", f"{sorted(setters)} precede {sorted(readers)} on every path",
                  "; ".join(sorted(set(bad))[:2]) + " - a tick handler sees the default range of a fresh axes, not the histogram's", fi.where)
    ctx.check(n_fun >= 5, "C20.e", "limits-before-ticks:functions", f"{n_fun} plot functions use both helpers",
              f"only {n_fun} plot functions call both a limit setter and a limit reader (anchor moved?)", mp.relpath)

    # one label per tick: the labels are an unfiltered element-wise image of the very tick list that is returned
    cl = TT.methods.get("__call__")
    ft = TT.methods.get("format_time_ticks")
    ctx.saw(cl)
    ctx.saw(ft)
    tc = U(cl.node)
    hp_, mn_, mx_ = [p for p in cl.params() if p != "self"][:3]
    okc = f"ticks = self.get_time_ticks({hp_}, level, {mn_}, {mx_})" in tc and "tick_labels = self.format_time_ticks(ticks, level=level)" in tc \
        and "return (ticks, tick_labels)" in tc and f"level = self.level or self.deduce_level({mn_}, {mx_})" in tc
    ctx.check(okc, "C20.e", "TimeTickHandler.__call__", "ticks for (min, max) at the chosen / deduced level; labels formatted from exactly those ticks",
              "__call__ no longer formats the labels from the tick list it returns (or swaps the range ends)", cl.where)
    tp_ = [p for p in ft.params() if p != "self"][0]
    per_tick = {tp_}
    changed = True
    assigns = [n for n in ast.walk(ft.node) if isinstance(n, ast.Assign) and isinstance(n.targets[0], ast.Name)]
    def _elementwise(v):
        return isinstance(v, ast.ListComp) and len(v.generators) == 1 and not v.generators[0].ifs and U(v.generators[0].iter) in per_tick
    bad_defs = []
    while changed:
        changed = False
        for a in assigns:
            if a.targets[0].id not in per_tick and _elementwise(a.value):
                per_tick.add(a.targets[0].id)
                changed = True
    for a in assigns:
        if a.targets[0].id in per_tick and a.targets[0].id != tp_ and not _elementwise(a.value):
            bad_defs.append(U(a)[:70])
    rets = [n.value for n in ast.walk(ft.node) if isinstance(n, ast.Return)]
    bad_rets = [U(r)[:70] for r in rets if not _elementwise(r)]
    ctx.check(len(rets) >= 2 and not bad_rets and not bad_defs, "C20.e", "TimeTickHandler.format_time_ticks:one-label-per-tick",
              f"{len(rets)} return(s), each an unfiltered comprehension over a per-tick list {sorted(per_tick)}",
              f"labels are not an element-wise image of the ticks: {(bad_rets + bad_defs)[:2]}", ft.where)

    # the level grammar of the tick handler (unit strings -> (unit, amount)) is a table: confirmed entry by entry
    plv = TT.methods.get("parse_level")
    ctx.saw(plv)
    mt = [n.value for n in ast.walk(plv.node) if isinstance(n, ast.Assign) and U(n.targets[0]) == "matchers" and isinstance(n.value, ast.Tuple)]
    table = [(const_value(e.elts[0]), U(e.elts[1].body)) for e in mt[0].elts if isinstance(e, ast.Tuple) and len(e.elts) == 2 and isinstance(e.elts[1], ast.Lambda)] if mt else []
    want_tbl = [("^(center|edge)s?$", "(m[1], 0)"), ("^([0-9\\.]+)?d(ay(s)?)?$", "('day', float(m[1] or 1))"),
                ("^([0-9]+)?h(our(s)?)?$", "('hour', int(m[1] or 1))"), ("^([0-9]+)?m(in(s)?)?$", "('min', int(m[1] or 1))"),
                ("^([0-9\\.]+)?(\\.[0-9]+)?s(ec(s)?)?$", "('sec', float(m[1] or 1) + float('0.' + (m[2] or '0')))")]
    ctx.check(table == want_tbl, "C20.e", "TimeTickHandler.parse_level:grammar", "5 unit patterns with their amount expressions as confirmed",
              f"the level grammar changed: {[t for t in table if t not in want_tbl][:2]} (e.g. '.5s' must mean half a second)", plv.where)

    # ---- C20.f sweep-driven: every 1-D kind sets limits and ticks, error bars are drawn iff asked, tick helpers, wrapper -------
    ctx.rule("C20.f", "1-D kinds: limits, ticks and (iff errors) error bars; tick helpers map 'center' / 'edge' / handler; the register wrapper "
             "draws every histogram; colour normalisation branches", 12)
    for kind in ("bar", "scatter", "line", "fill", "step"):
        fi = mp.functions[kind]
        hp = fi.params()[0]
        names_ = [(U(c.func), [U(a) for a in c.args]) for c in calls_in(fi.node)]
        ctx.check(("_apply_xy_lims", ["ax", hp, "data", "kwargs"]) in names_ and ("_add_ticks", ["ax", hp, "kwargs"]) in names_, "C20.f",
                  f"matplotlib.{kind}:limits-and-ticks", "_apply_xy_lims(ax, h, data, kwargs) and _add_ticks(ax, h, kwargs) are called",
                  f"{kind} no longer sets the axis range from the data and the ticks from the histogram", fi.where)
        if "errors" in fi.params():
            pol = {}
            for p_ in function_paths(fi.node):
                if end_kind(p_) == "raise":
                    continue
                cs_ = dict((U(s_[1]), s_[2]) for s_ in p_ if s_[0] == "cond")
                if "errors" in cs_:
                    drawn = any(s_[0] == "stmt" and ("kwargs['yerr'] = err_data" == U(s_[1]) or any(
                        isinstance(c.func, ast.Attribute) and c.func.attr == "errorbar" and U(kwarg(c, "yerr")) == "err_data" for c in calls_in(s_[1]))) for s_ in p_)
                    got_err = any(s_[0] == "stmt" and isinstance(s_[1], ast.Assign) and U(s_[1].targets[0]) == "err_data" for s_ in p_)
                    pol.setdefault(cs_["errors"], set()).add(drawn and got_err)
            ctx.check(pol.get(True) == {True} and pol.get(False) == {False}, "C20.f", f"matplotlib.{kind}:errors-iff-asked",
                      "error data are computed and drawn exactly when errors=True", f"error bars drawn per `errors` decision: {pol}", fi.where)
    for mod_, fname, centers, edges in ((mp, "_add_ticks", "ax.set_xticks(h1.bin_centers)", "ax.set_xticks(h1.bin_left_edges)"),
                                        (pl, "_add_ticks", "xaxis.tickvals = histogram.bin_centers", "xaxis.tickvals = histogram.bin_left_edges")):
        fi = mod_.functions[fname]
        ctx.saw(fi)
        res = {}
        for p_ in function_paths(fi.node):
            if end_kind(p_) == "raise":
                continue
            cs_ = dict((U(s_[1]), s_[2]) for s_ in p_ if s_[0] == "cond")
            sts_ = [U(s_[1]) for s_ in p_ if s_[0] == "stmt"]
            if cs_.get("tick_handler"):
                res.setdefault("handler", set()).add(any("tick_handler(" in t and t.startswith("(ticks, labels)") or t.startswith("ticks, labels = tick_handler(") for t in sts_)
                                                     and (("ax.set_xticks(ticks)" in sts_ and "ax.set_xticklabels(labels)" in sts_)
                                                          or ("xaxis.tickvals = ticks" in sts_ and "xaxis.ticktext = labels" in sts_)))
            for word, stmt in (("center", centers), ("edge", edges)):
                k_ = f"ticks == '{word}'"
                if k_ in cs_ and not cs_.get("tick_handler"):
                    res.setdefault((word, cs_[k_]), set()).add(stmt in sts_)
        okt = res.get("handler") == {True} and res.get(("center", True)) == {True} and res.get(("edge", True)) == {True} \
            and res.get(("center", False), {False}) == {False} and res.get(("edge", False), {False}) == {False}
        ctx.check(okt, "C20.f", f"{mod_.short}.{fname}", "handler: its ticks and labels are both applied; 'center' -> bin centres; 'edge' -> left edges; nothing else",
                  f"tick placement per decision: { {str(k): sorted(v) for k, v in res.items()} }", fi.where)
    gt_ = TT.methods["get_time_ticks"]
    res = {}
    for p_ in function_paths(gt_.node):
        if end_kind(p_) != "return":
            continue
        cs_ = dict((U(s_[1]), s_[2]) for s_ in p_ if s_[0] == "cond")
        key_ = "edge" if cs_.get("level[0] == 'edge'") else ("center" if cs_.get("level[0] == 'center'") else "unit")
        res.setdefault(key_, set()).add(U(p_[-1][2].value))
    wdef = [U(n.value) for n in ast.walk(gt_.node) if isinstance(n, ast.Assign) and U(n.targets[0]) == "width"]
    ctx.check(res.get("edge") == {"h1.numpy_bins.tolist()"} and res.get("center") == {"list(h1.bin_centers)"} and len(res.get("unit", ())) == 1
              and wdef in (["level[1] * self.LEVELS[level[0]]"], ["self.LEVELS[level[0]] * level[1]"]), "C20.f", "TimeTickHandler.get_time_ticks:levels",
              "'edge' -> all edges, 'center' -> bin centres, otherwise multiples of amount * unit seconds",
              f"ticks per level kind: { {k: sorted(v) for k, v in res.items()} }, width = {wdef}", gt_.where)
    ged = com.functions["get_err_data"]
    tge = {}
    for p_ in function_paths(ged.node):
        if end_kind(p_) != "return":
            continue
        cs_ = dict((U(s_[1]), s_[2]) for s_ in p_ if s_[0] == "cond")
        tge.setdefault(cs_.get("flatten"), set()).add(any(s_[0] == "stmt" and U(s_[1]) == "data = data.flatten()" for s_ in p_))
    ctx.check(tge.get(True) == {True} and tge.get(False) == {False}, "C20.f", "get_err_data:flatten", "flattened iff flatten=True",
              f"flattening per `flatten` decision: {tge}", ged.where)
    wr = [n for n in ast.walk(reg.node) if isinstance(n, ast.FunctionDef) and n.name == "wrapped"]
    tw = U(wr[0]) if wr else ""
    ctx.check("f(hist, ax=ax, **kwargs)" in tw and "f(h, ax=ax, **kwargs)" in tw and "for h in hist:" in tw and "return ax" in tw
              and any(U(c.func) == "_get_axes" and U(kwarg(c, "use_3d")) == "use_3d" and U(kwarg(c, "use_polar")) == "use_polar" for c in calls_in(wr[0])),
              "C20.f", "matplotlib.register:wrapped", "the wrapper draws the histogram (every member of a collection) on the axes it created and returns them",
              "the registered wrapper no longer calls the plot function for the histogram / each member with ax and kwargs", reg.where)
    gcd_ = mp.functions["_get_cmap_data"]
    br = {}
    for p_ in function_paths(gcd_.node):
        if end_kind(p_) != "return":
            continue
        cs_ = dict((U(s_[1]), s_[2]) for s_ in p_ if s_[0] == "cond")
        kinds_ = [U(c.func).split(".")[-1] for s_ in p_ if s_[0] == "stmt" for c in calls_in(s_[1]) if U(c.func).split(".")[-1] in ("LogNorm", "Normalize")]
        mins_ = [U(s_[1].value) for s_ in p_ if s_[0] == "stmt" and isinstance(s_[1], ast.Assign) and U(s_[1].targets[0]) == "cmap_min"]
        br[(cs_.get("norm == 'log'"), cs_.get("cmap_min == 'min'"))] = (kinds_, mins_)
    dpar_ = gcd_.params()[0]
    okbr = br.get((True, None), ([], []))[0] == ["LogNorm"] and br.get((False, True), ([], []))[0] == ["Normalize"] \
        and br.get((False, True))[1][-1:] == [f"{dpar_}.min()"] and br.get((False, False), ([], [None]))[1] == ["kwargs.pop('cmap_min', 0)"]
    ctx.check(okbr, "C20.f", "matplotlib._get_cmap_data:branches", "'log' -> LogNorm; otherwise Normalize from 0 (or the data minimum on request) to the maximum",
              f"normalisers / minima per (norm == 'log', cmap_min == 'min'): {br}", gcd_.where)
    imc = [c for c in calls_in(img.node) if isinstance(c.func, ast.Attribute) and c.func.attr == "imshow"]
    ctx.check(len(imc) == 1 and U(kwarg(imc[0], "cmap")) == "cmap" and U(kwarg(imc[0], "norm")) == "norm", "C20.f", "matplotlib.image:colours",
              "imshow receives the colour map and the normaliser of the data", "image() no longer passes cmap / norm to imshow", img.where)
    for fname in ("bar", "_line_or_scatter"):
        fi = pl.functions[fname]
        tfi = U(fi.node)
        ctx.check("go.Figure(data=data, layout=layout)" in tfi.replace("layout=layout, data=data", "data=data, layout=layout") and "_add_ticks(layout.xaxis, h[0], kwargs)" in tfi,
                  "C20.f", f"plotly.{fname}:figure", "Figure(data=<traces>, layout=<layout with ticks>)", f"plotly {fname} no longer builds the figure from its traces and layout",
                  fi.where)

    pol_l = {}
    for p_ in function_paths(al.node):
        cs_ = dict((U(s_[1]), s_[2]) for s_ in p_ if s_[0] == "cond")
        sts_ = [U(s_[1]) for s_ in p_ if s_[0] == "stmt"]
        for name_, call_ in (("title", "ax.set_title(title)"), ("xlabel", "ax.set_xlabel(xlabel)"), ("ylabel", "ax.set_ylabel(ylabel)")):
            if name_ in cs_:
                pol_l.setdefault((name_, cs_[name_]), set()).add(call_ in sts_)
    ctx.check(all(pol_l.get((n_, True)) == {True} and pol_l.get((n_, False)) == {False} for n_ in ("title", "xlabel", "ylabel")), "C20.f",
              "_add_labels:applied-iff-present", "each of title / xlabel / ylabel is set exactly when there is one",
              f"label setters per decision: { {str(k): sorted(v) for k, v in pol_l.items()} }", al.where)

    # shared with C16.c: the per-axis / mesh forms of edges, widths and centres agree (map cells are drawn from them)
    ctx.borrow("C16", ("HistogramND.get_bin_", "ObjectWithBinning.get_bin_"), "C20.b", floor=3)
