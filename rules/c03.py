"""C03 - incremental filling (fill / fill_n) equals batch construction."""
from __future__ import annotations

import ast

from sa.absval import eval3
from sa.model import AnalysisError, calls_in, kwarg, arg_or_kw
from sa.paths import function_paths, end_kind
from sa.util import U, writes_of, envs_along, call_is, TupleItem, Env, names_in
from rules import conventions as conv
from rules import wiring

EXPLANATION = (
    "C03: exhaustive case table lookup-sentinel x keep_missed for Histogram1D.fill / HistogramND.fill "
    "(out-of-range writes only the matching missed slot and only when keep_missed, in-range writes "
    "frequencies[ix] and errors2[ix] with weight / weight**2 at the returned index), every write of the missed "
    "store in fill / fill_n lies under a true test of keep_missed, find_bin uses the same interval convention as "
    "the construction kernels, fill_n accumulates every result of the shared kernel into the matching store "
    "with one NaN mask for values and weights, find_bin writes nothing and << is fill."
)
NOT_DECIDED = ("equality of accumulated floating-point sums across different chunkings (float addition is not "
               "associative); numpy's own NaN handling.")
TRUSTED = ["np.searchsorted(a, v, side='left') == #{a < v}, side='right' == #{a <= v}"]

MISSED_ATTRS = {"_missed", "underflow", "overflow", "inner_missed"}
CONTENT_ATTRS = {"_frequencies", "_errors2"}


def _lookup(path, method="find_bin"):
    """(index, varname) of `X = self.find_bin(...)` on the path."""
    for i, step in enumerate(path):
        if step[0] == "stmt" and isinstance(step[1], ast.Assign) and len(step[1].targets) == 1 \
                and isinstance(step[1].targets[0], ast.Name) and isinstance(step[1].value, ast.Call) \
                and U(step[1].value.func) == f"self.{method}":
            return i, step[1].targets[0].id
    return None, None


def _case_table(ctx, cls, fi, dim):
    rule = "C03.a"
    paths = function_paths(fi.node)
    ctx.saw(fi)
    domain = [None, -1, "N", "in"] if dim == 1 else [None, "in"]
    count = ("self.bin_count",)
    weight = [p for p in fi.params() if p not in ("self",)][1] if len(fi.params()) > 2 else "weight"
    any_lookup = False
    for s in domain:
        for km in (True, False):
            key = f"{cls}.fill:case(lookup={s},keep_missed={km})"
            matching = []
            for p in paths:
                i0, var = _lookup(p)
                if i0 is None:
                    continue
                any_lookup = True
                okp = True
                for step in p[i0 + 1:]:
                    if step[0] == "cond":
                        v = eval3(step[1], var, s, {"self.keep_missed": km}, count)
                        if v is not None and v != step[2]:
                            okp = False
                            break
                if okp:
                    matching.append((p, i0, var))
            if not matching:
                ctx.bad(rule, key, "no path of fill handles this case (every path contradicts it)", fi.where)
                continue
            problems = []
            seen_effects = set()
            for p, i0, var in matching:
                if end_kind(p) == "raise" :
                    # an explicit raise after the lookup is a refusal, allowed only if nothing was written
                    pass
                ws = []
                for step in p[i0 + 1:]:
                    if step[0] == "stmt":
                        ws += [w for w in writes_of(step[1]) if w.root == "self"]
                missed_w = [w for w in ws if w.attr in MISSED_ATTRS]
                cont_w = [w for w in ws if w.attr in CONTENT_ATTRS]
                stats_w = [w for w in ws if w.attr == "_stats"]
                other_w = [w for w in ws if w.attr not in MISSED_ATTRS | CONTENT_ATTRS | {"_stats"}]
                seen_effects.add(tuple(sorted(U(w.stmt) for w in ws)))
                if other_w:
                    problems.append(f"unexpected write `{U(other_w[0].stmt)}` after the lookup")
                in_range = s == "in"
                if in_range:
                    if missed_w:
                        problems.append(f"in-range value writes the missed store: `{U(missed_w[0].stmt)}`")
                    f = [w for w in cont_w if w.attr == "_frequencies"]
                    e = [w for w in cont_w if w.attr == "_errors2"]
                    if len(f) != 1 or len(e) != 1:
                        problems.append("in-range value must add once to _frequencies and once to _errors2 "
                                        f"(found {len(f)} / {len(e)})")
                    else:
                        for w, want in ((f[0], [weight]), (e[0], [f"{weight} ** 2", f"{weight} * {weight}"])):
                            if not (isinstance(w.stmt, ast.AugAssign) and isinstance(w.stmt.op, ast.Add)):
                                problems.append(f"`{U(w.stmt)}` is not an accumulation (+=)")
                            elif U(w.stmt.value) not in want:
                                problems.append(f"`{U(w.stmt)}` adds `{U(w.stmt.value)}`, expected {want[0]}")
                            idx = w.target.slice if isinstance(w.target, ast.Subscript) else None
                            if idx is None or U(idx) != var:
                                problems.append(f"`{U(w.stmt)}` is not indexed by the looked-up bin `{var}`")
                    if dim == 1 and not stats_w:
                        problems.append("in-range value does not update the statistics")
                else:
                    if cont_w:
                        problems.append(
                            f"value outside the bins (lookup={s}) reaches `{U(cont_w[0].stmt)}` - the sentinel is "
                            "used as an array index")
                    if stats_w:
                        problems.append(f"value outside the bins updates the statistics: `{U(stats_w[0].stmt)}`")
                    if not km:
                        if missed_w:
                            problems.append(f"keep_missed is off but `{U(missed_w[0].stmt)}` executes")
                    else:
                        slots = sorted({w.attr for w in missed_w})
                        if dim == 1:
                            want = {-1: ["underflow"], "N": ["overflow"], None: ["overflow", "underflow"]}[s]
                            if slots != want:
                                problems.append(f"lookup={s} with keep_missed must write exactly {want}, writes {slots}")
                            for w in missed_w:
                                if s is None:
                                    if not (isinstance(w.stmt, ast.Assign) and U(w.stmt.value) in ("np.nan", "numpy.nan", "float('nan')", "math.nan")):
                                        problems.append(f"gap value must mark `{w.attr}` unknown (NaN): `{U(w.stmt)}`")
                                elif not (isinstance(w.stmt, ast.AugAssign) and isinstance(w.stmt.op, ast.Add)
                                          and U(w.stmt.value) == weight):
                                    problems.append(f"`{U(w.stmt)}` must add the weight")
                        else:
                            if slots != ["_missed"]:
                                problems.append(f"missed point with keep_missed must add to _missed, writes {slots}")
                            for w in missed_w:
                                if not (isinstance(w.stmt, ast.AugAssign) and isinstance(w.stmt.op, ast.Add)
                                        and U(w.stmt.value) == weight):
                                    problems.append(f"`{U(w.stmt)}` must add the weight")
                # return value
                if end_kind(p) == "return":
                    r = p[-1][2].value
                    if r is None or U(r) != var:
                        problems.append(f"fill returns `{U(r) if r is not None else None}` instead of the looked-up bin `{var}`")
                elif end_kind(p) == "fall":
                    problems.append("fill falls off the end without returning the bin index")
            if problems:
                ctx.bad(rule, key, "; ".join(sorted(set(problems))), fi.where)
            else:
                ctx.ok(rule, key, f"{len(matching)} feasible path(s); effects: "
                       + " | ".join(", ".join(e) or "none" for e in sorted(seen_effects)), fi.where)
    if not any_lookup:
        raise AnalysisError(f"{cls}.fill has no `x = self.find_bin(...)` lookup")


def _find_bin_returns(ctx, cls, fi, dim):
    """The set of sentinels find_bin can return must be the one fill's table covers."""
    rule = "C03.a"
    ctx.saw(fi)
    kinds = set()
    unknown = []
    for node in ast.walk(fi.node):
        if isinstance(node, ast.Return):
            v = node.value
            t = U(v) if v is not None else "None"
            if v is None or t == "None":
                kinds.add("None")
            elif t == "-1":
                kinds.add("-1")
            elif t in ("self.bin_count", "self.shape[axis]"):
                kinds.add("N")
            elif t in ("ixbin - 1", "int(ixbin - 1)"):
                kinds.add("in")
            elif t in ("ixbins",) or t.startswith("tuple("):
                kinds.add("tuple")
            else:
                unknown.append(t)
    want = {"None", "-1", "N", "in"} if dim == 1 else {"None", "in", "tuple"}
    ctx.check(not unknown and kinds == want, rule, f"{cls}.find_bin:return-kinds",
              f"find_bin returns exactly the sentinels {sorted(want)} that fill's case table covers",
              f"find_bin returns {sorted(kinds)} + unclassified {unknown}; fill's case table covers {sorted(want)}",
              fi.where)


def _guarded_missed(ctx, cls, fi):
    rule = "C03.b"
    ctx.saw(fi)
    n = 0
    for p in function_paths(fi.node):
        km = False
        for step in p:
            if step[0] == "cond":
                v = eval3(step[1], "__none__", "in", {"self.keep_missed": True})
                # condition is true only if keep_missed is true:
                vt = eval3(step[1], "__none__", "in", {"self.keep_missed": False})
                if "self.keep_missed" in U(step[1]):
                    if step[2] and vt is False:
                        km = True
                    if (not step[2]) and eval3(step[1], "__none__", "in", {"self.keep_missed": False}) is True:
                        km = True
            elif step[0] == "stmt":
                for w in writes_of(step[1]):
                    if w.root == "self" and w.attr in MISSED_ATTRS:
                        n += 1
                        if not km:
                            ctx.bad(rule, f"{cls}.{fi.name}:{U(w.stmt)}",
                                    f"`{U(w.stmt)}` changes the missed store on a path where keep_missed was not "
                                    "tested true", fi.where)
                            km = km  # keep scanning
    key = f"{cls}.{fi.name}:missed-writes-guarded"
    if not any(r["rule"] == rule and r["key"].startswith(f"{cls}.{fi.name}:") for r in ctx.results):
        ctx.check(n > 0, rule, key, f"{n} (path, write) pairs, all under keep_missed",
                  "no write of the missed store found (the method no longer records missed values)", fi.where)


def run(ctx):
    m = ctx.model
    H1, HN, HB = m.cls("Histogram1D"), m.cls("HistogramND"), m.cls("HistogramBase")

    ctx.rule("C03.a", "finite case analysis lookup-sentinel x keep_missed of fill: writes per case", 14, exhaustive=True)
    for cls, dim in ((H1, 1), (HN, 2)):
        fill = cls.methods.get("fill")
        fb = cls.methods.get("find_bin")
        if fill is None or fb is None:
            raise AnalysisError(f"{cls.name}.fill / find_bin not found")
        _case_table(ctx, cls.name, fill, dim)
        _find_bin_returns(ctx, cls.name, fb, dim)

    ctx.rule("C03.b", "every write of the missed store in fill / fill_n is dominated by keep_missed == True", 4)
    for cls in (H1, HN):
        for name in ("fill", "fill_n"):
            _guarded_missed(ctx, cls.name, cls.methods[name])
    # the missed store a fill writes is the histogram's own: a copy (an emptied template filled later, the temporary of
    # an operator) never shares it with its source (shared with C12.b)
    from rules import c12
    c12.check_copy_contents(ctx, "C03.b", m)

    # ---- C03.c one convention -----------------------------------------------------------
    ctx.rule("C03.c", "find_bin derives the same interval convention as the construction kernel "
             "(interior [L,R), last bin closed: always in 1D, iff includes_right_edge in ND)", 8)
    conv.check_find_bin_1d(ctx, "C03.c", H1.methods["find_bin"])
    conv.check_find_bin_nd(ctx, "C03.c", HN.methods["find_bin"])
    conv.check_kernel_1d(ctx, "C03.c", m.func("_construction", "calculate_1d_frequencies"), prefix="kernel1d")

    # ---- C03.d shared kernel, accumulation ---------------------------------------------------
    ctx.rule("C03.d", "fill_n += every result of the construction kernel called on the histogram's own binning; "
             "find_bin has no write effect; << is fill", 10)
    fn1 = H1.methods["fill_n"]
    ctx.saw(fn1)
    roles1 = {0: ("_frequencies", "frequencies"), 1: ("_errors2", "errors2"), 2: ("underflow", "underflow"),
              3: ("overflow", "overflow"), 4: ("_stats", "statistics")}
    _accumulation(ctx, m, "Histogram1D", fn1, "calculate_1d_frequencies", roles1, binning_arg=("binning", 1),
                  binning_expr=("self._binning", "self.binning", "self._binnings[0]"))
    fnn = HN.methods["fill_n"]
    ctx.saw(fnn)
    rolesn = {0: ("_frequencies", "frequencies"), 1: ("_errors2", "errors2"), 2: ("_missed", "missed")}
    _accumulation(ctx, m, "HistogramND", fnn, "calculate_nd_frequencies", rolesn, binning_arg=("binnings", 1),
                  binning_expr=("self._binnings", "self.binnings"))
    # find_bin: no writes
    for cls in (H1, HN, m.cls("TransformedHistogramMixin")):
        fb = cls.methods["find_bin"]
        ws = [w for st in ast.walk(fb.node) if isinstance(st, ast.stmt) for w in writes_of(st)
              if w.root == "self"] if True else []
        ctx.check(not ws, "C03.d", f"{cls.name}.find_bin:pure", "no store to self in find_bin",
                  f"find_bin modifies the histogram: {ws[:1]}", fb.where)
        callees = {U(c.func) for c in calls_in(fb.node) if U(c.func).startswith("self.")}
        impure = [c for c in callees if c.split(".")[1] in ("fill", "fill_n", "_reshape_data", "_change_binning",
                                                             "set_dtype", "_coerce_dtype", "merge_bins")]
        ctx.check(not impure, "C03.d", f"{cls.name}.find_bin:pure-callees", f"self-calls: {sorted(callees)}",
                  f"find_bin calls mutating methods {impure}", fb.where)
    ls = HB.methods.get("__lshift__")
    if ls is None:
        raise AnalysisError("HistogramBase.__lshift__ not found")
    cs = [c for c in calls_in(ls.node) if U(c.func) == "self.fill"]
    p = [x for x in ls.params() if x != "self"]
    ctx.check(len(cs) == 1 and len(cs[0].args) >= 1 and U(cs[0].args[0]) == p[0] and len(cs[0].args) + len(cs[0].keywords) == 1,
              "C03.d", "HistogramBase.__lshift__:alias", "h << v calls self.fill(v) with the default weight",
              "__lshift__ is not exactly self.fill(value)", ls.where)

    # ---- C03.f one NaN mask for values and weights --------------------------------------------
    ctx.rule("C03.f", "fill_n drops NaN entries and their weights with the same mask", 2)
    # 1D: weights via extract_weights(array_mask=<mask from extract_1d_array(values)>)
    ok1 = False
    why = "extract_weights is not called with the mask returned by extract_1d_array"
    for p in function_paths(fn1.node):
        env = Env()
        for step in p:
            if step[0] == "stmt":
                for c in calls_in(step[1]):
                    if call_is(c, "extract_weights"):
                        mk = kwarg(c, "array_mask")
                        if mk is not None:
                            d = env.resolve(mk)
                            if isinstance(d, TupleItem) and d.index == 1 and isinstance(d.value, ast.Call) \
                                    and call_is(d.value, "extract_1d_array"):
                                ok1 = True
            env.step(step)
    ctx.check(ok1, "C03.f", "Histogram1D.fill_n:mask", "weights filtered by the values' own NaN mask", why, fn1.where)
    # the 1-D batch path drops entries through the generic extractor: its mask and flattening order are part of the clause
    wiring.mask_definition(ctx, "C03.f", m.func("_construction", "extract_1d_array"), "extract_1d_array:mask", rowwise=False)
    wiring.flatten_order(ctx, "C03.f", m, "flattening:C-order")
    okn, whyn = _nd_mask(fnn)
    ctx.check(okn, "C03.f", "HistogramND.fill_n:mask", whyn, whyn, fnn.where)
    tn_ = U(fnn.node)
    polc = {}
    for p_ in function_paths(fnn.node, loops=0):
        cs_ = dict((U(s_[1]), s_[2]) for s_ in p_ if s_[0] == "cond")
        if "columns" in cs_:
            polc.setdefault(cs_["columns"], set()).add(any(s_[0] == "stmt" and U(s_[1]) == "values_array = values_array.T" for s_ in p_))
    ctx.check(polc.get(True) == {True} and polc.get(False) == {False}, "C03.f", "HistogramND.fill_n:columns", "the batch is transposed iff columns=True",
              f"transposition per `columns` decision: {polc}", fnn.where)
    ctx.check("self._errors2 += errors2 if errors2 is not None else frequencies" in tn_, "C03.d", "HistogramND.fill_n:errors2-fallback",
              "errors2 of the kernel, or the frequencies when the kernel returns none (unweighted)",
              "the squared-error increment is not `errors2 if errors2 is not None else frequencies`", fnn.where)
    okg, whyg = _nd_weight_filter_guard(fnn)
    ctx.check(okg, "C03.f", "HistogramND.fill_n:weight-filter-guard", whyg, whyg, fnn.where)
    # the rows are filtered exactly when dropna is on, before the kernel sees them
    pol = {}
    for p_ in function_paths(fnn.node, loops=0):
        cs_ = dict((U(s_[1]), s_[2]) for s_ in p_ if s_[0] == "cond")
        if "dropna" in cs_ and end_kind(p_) != "raise":
            filt = any(s_[0] == "stmt" and isinstance(s_[1], ast.Assign) and isinstance(s_[1].value, ast.Subscript)
                       and U(s_[1].targets[0]) == U(s_[1].value.value) == "values_array" for s_ in p_)
            pol.setdefault(cs_["dropna"], set()).add(filt)
    ctx.check(pol.get(True) == {True} and pol.get(False) == {False}, "C03.f", "HistogramND.fill_n:dropna-polarity",
              "rows with NaN are removed iff dropna", f"rows filtered per dropna decision: {pol}", fnn.where)

    wiring.params_used(ctx, "C03.f", [m.cls(c_).methods[x] for c_ in ("Histogram1D", "HistogramND") for x in ("fill", "fill_n", "find_bin")],
                       "fill-family:options-read")
    wiring.same_name_forwarding(ctx, "C03.f", m, [m.cls(c_).methods[x] for c_ in ("Histogram1D", "HistogramND") for x in ("fill", "fill_n", "find_bin")],
                       "fill-family:options-forwarded")

    # ---- C03.e coercion before any accumulation (shared with C13.a) -----------------------------------------------
    ctx.rule("C03.e", "fill / fill_n coerce the dtype for the weight(s) before the first store, so neither contents nor missed values are truncated", 4)
    from rules import c13
    c13.check_fill_coercion(ctx, "C03.e", m)
    c13.check_arrays_follow_dtype(ctx, "C03.e", m)    # the coercion converts each store from itself (errors2 stay the squared weights)
    # polarity / axis of the ND row mask
    pol = None
    for n in ast.walk(fnn.node):
        if isinstance(n, ast.Assign) and isinstance(n.value, ast.UnaryOp) and "isnan" in U(n.value):
            pol = (wiring.mask_polarity(n.value), U(n.value))
        if isinstance(n, ast.Subscript) and isinstance(n.slice, ast.UnaryOp) and "isnan" in U(n.slice):
            pol = (wiring.mask_polarity(n.slice), U(n.slice))
    ctx.check(pol is not None and pol[0] == ("KEEP", "rows"), "C03.f", "HistogramND.fill_n:mask-polarity",
              f"row mask `{pol[1] if pol else None}` keeps exactly the rows without any NaN",
              f"row mask `{pol[1] if pol else None}` has polarity/axis {pol[0] if pol else None}: rows with a NaN in some coordinate must be dropped "
              "(~isnan(...).any(axis=1))", fnn.where)


def _nd_mask(fi):
    """In every path where rows are filtered by a NaN mask and weights are present, weights are filtered by it too."""
    params = [p for p in fi.params() if p != "self"]
    wname = params[1] if len(params) > 1 else "weights"
    verdicts = []
    for p in function_paths(fi.node):
        env = Env()
        filtered_vals = None  # mask expr text applied to the values
        filtered_w = set()
        weights_present = None
        kernel_call = None
        for step in p:
            if step[0] == "cond":
                t = U(step[1])
                if f"{wname}.shape" in t and not step[2]:
                    weights_present = False  # wrongly shaped weights: left alone, the kernel refuses them
                if t == f"{wname} is not None":
                    weights_present = step[2] if weights_present is None else (weights_present and step[2])
                if t == f"{wname} is None":
                    weights_present = (not step[2]) if weights_present is None else weights_present
            if step[0] == "stmt" and isinstance(step[1], ast.Assign) and isinstance(step[1].value, ast.Subscript):
                tgt = U(step[1].targets[0])
                base = U(step[1].value.value)
                idx = env.expand(step[1].value.slice)
                if "isnan" in U(idx) and tgt == base:
                    if tgt == wname:
                        filtered_w.add(U(idx))
                    else:
                        filtered_vals = U(idx)
            if step[0] == "stmt":
                for c in calls_in(step[1]):
                    if call_is(c, "calculate_nd_frequencies"):
                        kernel_call = c
            env.step(step)
        if kernel_call is None or filtered_vals is None:
            continue
        if weights_present is False:
            continue
        verdicts.append(filtered_vals in filtered_w)
    if not verdicts:
        return False, "no path filters the rows by a NaN mask before calling the kernel"
    if all(verdicts):
        return True, f"on all {len(verdicts)} dropna paths with weights, weights[mask] uses the rows' mask"
    return False, ("rows containing NaN are dropped from the values but the weights are not filtered with the same "
                   "mask on some path (kernel then sees arrays of different length)")


def _nd_weight_filter_guard(fi):
    """The guard under which ND fill_n filters the weights with the rows' NaN mask, as a boolean function of
    A = `weights is not None` and B = `weights.shape == <mask>.shape`: it must be true for (A, B) = (True, True), false for
    A = False without touching `weights.shape` (short-circuit order), and false for (True, False) (wrongly shaped weights
    are left to the kernel's refusal)."""
    params = [p for p in fi.params() if p != "self"]
    w = params[1] if len(params) > 1 else "weights"
    guards = []
    for n in ast.walk(fi.node):
        if isinstance(n, ast.If) and any(isinstance(b, ast.Assign) and U(b.targets[0]) == w and isinstance(b.value, ast.Subscript)
                                         and U(b.value.value) == w for b in n.body):
            guards.append(n.test)
    if len(guards) != 1:
        return False, f"{len(guards)} guarded `weights = weights[mask]` statements found"

    class Poison(Exception):
        pass

    def ev(x, a, b):
        if isinstance(x, ast.BoolOp):
            if isinstance(x.op, ast.And):
                for v in x.values:
                    if not ev(v, a, b):
                        return False
                return True
            for v in x.values:
                if ev(v, a, b):
                    return True
            return False
        if isinstance(x, ast.UnaryOp) and isinstance(x.op, ast.Not):
            return not ev(x.operand, a, b)
        t = U(x)
        if t == f"{w} is not None":
            return a
        if t == f"{w} is None":
            return not a
        if isinstance(x, ast.Compare) and len(x.ops) == 1 and f"{w}.shape" in t and ".shape" in t.replace(f"{w}.shape", "", 1):
            if not a:
                raise Poison()
            return b if isinstance(x.ops[0], ast.Eq) else (not b if isinstance(x.ops[0], ast.NotEq) else None)
        raise ValueError(t)
    try:
        table = {}
        for a, b in ((True, True), (True, False), (False, False)):
            try:
                table[(a, b)] = ev(guards[0], a, b)
            except Poison:
                table[(a, b)] = "reads weights.shape although weights is None"
    except ValueError as exc:
        return False, f"guard `{U(guards[0])}` contains a condition the rule does not know: {exc}"
    ok = table == {(True, True): True, (True, False): False, (False, False): False}
    return ok, (f"weights are filtered under `{U(guards[0])}`: true iff weights are given and have one entry per row" if ok else
                f"weights are filtered under `{U(guards[0])}`, which evaluates to {table} for (weights given, shapes equal)")


def _accumulation(ctx, m, cls, fi, kernel, roles, binning_arg, binning_expr):
    """Aggregated over all paths of fill_n that reach the kernel call."""
    found_call = False
    verdict = {}  # key -> [ok?, detail]

    def note(key, ok, good, bad):
        cur = verdict.setdefault(key, [True, good, 0])
        cur[2] += 1
        if not ok and cur[0]:
            cur[0], cur[1] = False, bad

    for p in function_paths(fi.node):
        env = Env()
        call = None
        acc = {}
        for step in p:
            if step[0] == "stmt":
                st = step[1]
                for c in calls_in(st):
                    if call_is(c, kernel):
                        call = c
                if isinstance(st, ast.AugAssign) and isinstance(st.op, ast.Add):
                    base = st.target
                    while isinstance(base, ast.Subscript):
                        base = base.value
                    if isinstance(base, ast.Attribute) and U(base.value) == "self":
                        srcs = []
                        for n in ast.walk(st.value):
                            if isinstance(n, ast.Name):
                                d = env.resolve(n)
                                if isinstance(d, TupleItem) and isinstance(d.value, ast.Call) and call_is(d.value, kernel):
                                    srcs.append(d.index)
                        acc.setdefault(base.attr, []).append((srcs, U(st)))
            env.step(step)
        if call is None:
            continue
        found_call = True
        b = arg_or_kw(call, binning_arg[1], binning_arg[0])
        note(f"{cls}.fill_n:kernel-binning", b is not None and U(b) in binning_expr,
             f"{kernel} called with the histogram's own binning {U(b) if b is not None else None}",
             f"{kernel} is called with `{U(b) if b is not None else None}`, not the histogram's binning")
        wk = kwarg(call, "weights")
        wsrc = U(env.expand(wk, keep={"weights"})) if wk is not None else None
        note(f"{cls}.fill_n:kernel-weights", wk is not None and wsrc is not None and "weights" in wsrc,
             f"the kernel receives the batch's weights (`{U(wk) if wk is not None else None}`)",
             f"{kernel} is called with weights={U(wk) if wk is not None else 'nothing'}: the weights of the batch do not reach the kernel")
        srt = kwarg(call, "already_sorted")
        note(f"{cls}.fill_n:kernel-sorts", srt is None or (isinstance(srt, ast.Constant) and srt.value is False),
             "the kernel sorts the batch itself", f"{kernel} is told already_sorted={U(srt) if srt is not None else None} for arbitrary batches")
        km_false = any(s[0] == "cond" and U(s[1]) == "self.keep_missed" and not s[2] for s in p)
        for idx, (attr, role) in roles.items():
            key = f"{cls}.fill_n:accumulate-{role}"
            if role in ("underflow", "overflow", "missed") and km_false:
                continue
            got = acc.get(attr, [])
            good = [g for g in got if g[0] and g[0][0] == idx]
            crossed = [g for g in got if g[0] and g[0][0] != idx
                       and not (role == "errors2" and set(g[0]) <= {0, 1} and 1 in g[0])]
            if crossed:
                note(key, False, "", f"`{crossed[0][1]}` accumulates kernel result #{crossed[0][0][0]} into {attr} "
                                     f"(expected result #{idx}, the {role})")
            else:
                note(key, bool(good), f"`{good[0][1] if good else ''}` accumulates kernel result #{idx}",
                     f"kernel result #{idx} ({role}) is never added to self.{attr} on some path that reaches the kernel")
    if not found_call:
        raise AnalysisError(f"{cls}.fill_n does not call {kernel}")
    for key, (ok, detail, n) in verdict.items():
        ctx.check(ok, "C03.d", key, f"{detail} (all {n} paths)", detail, fi.where)

    # shared with C02.a: every kernel result is consumed (and only as what it is) where ND histograms are built / filled
    ctx.borrow("C02", ("HistogramND.from_calculate_frequencies:consumes-kernel-results", "HistogramND.fill_n:consumes-kernel-results"), "C03.d")
