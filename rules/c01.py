"""C01 - 1D construction: each value counted once, in the bin that contains it."""
from __future__ import annotations

import ast

from sa.model import AnalysisError, calls_in, kwarg
from sa.paths import function_paths, end_kind, consistent, must_raise
from sa.util import U, Env, call_is, TupleItem
from rules import conventions as conv
from rules import wiring

EXPLANATION = (
    "C01: the per-bin sweep of calculate_1d_frequencies is interpreted symbolically (searchsorted side -> strict / "
    "non-strict count): interior bins hold L <= v < R, the last bin L <= v <= R, underflow is the weight of v < L_first "
    "taken at the first bin, overflow the weight of v > R_last at the last bin, both reset to NaN when bins are not "
    "consecutive, errors2 reduces the squared weights over the same slice; data and weights are permuted by one "
    "argsort; the NaN mask of extract_1d_array is the one extract_weights applies and is ~isnan of the array it "
    "filters; each of the kernel's five results reaches the constructor parameter of the same role in every caller; "
    "dtype and keep_missed are forwarded; no call passes a local into the slot of a differently named parameter."
)
NOT_DECIDED = "the numerical values (summation order, float weights), np.searchsorted itself, the edges produced by the binning (C07)."
TRUSTED = ["np.searchsorted side semantics", "np.argsort returns a sorting permutation"]


def run(ctx):
    m = ctx.model
    kern = m.func("_construction", "calculate_1d_frequencies")
    ctx.rule("C01.a", "interval convention of the sweep: [L,R) interior, [L,R] last, under/overflow complements, NaN for gaps, errors2 over the same slice", 6)
    conv.check_kernel_1d(ctx, "C01.a", kern, prefix="kernel1d")

    ctx.rule("C01.b", "one NaN mask for data and weights (h1), mask = ~isnan(array) of the filtered array, weights indexed with it", 4)
    h1 = m.func("_facade", "h1")
    wiring.shared_mask(ctx, "C01.b", h1, "extract_1d_array", 1, 0, ("calculate_1d_frequencies",), "h1:shared-mask")
    e1 = m.func("_construction", "extract_1d_array")
    wiring.mask_definition(ctx, "C01.b", e1, "extract_1d_array:mask", rowwise=False)
    ew = m.func("_construction", "extract_weights")
    ctx.saw(ew)
    txt = U(ew.node)
    oki = "weights_array = weights_array[array_mask]" in txt and "array_mask.shape != weights_array.shape" in txt
    raises = any(s[0] == "cond" and "array_mask.shape != weights_array.shape" in U(s[1]) and s[2] and end_kind(p) == "raise"
                 for p in function_paths(ew.node) for s in p)
    n_mr, off_mr = must_raise(ew.node, lambda e: "array_mask.shape != weights_array.shape" in U(e), when=True)
    raises = raises and n_mr >= 1 and not off_mr
    ctx.check(oki and raises, "C01.b", "extract_weights:index", "weights[array_mask] after refusing a shape mismatch",
              "extract_weights no longer filters the weights with the mask (or no longer refuses wrongly shaped weights)", ew.where)
    wiring.flatten_order(ctx, "C01.b", m, "flattening:C-order")
    wiring.nan_gate(ctx, "C01.b", h1, "calculate_1d_bins", "h1:nan-gate")
    dn = [c for c in calls_in(h1.node) if call_is(c, "extract_1d_array")]
    ctx.check(len(dn) == 1 and U(kwarg(dn[0], "dropna")) == "dropna", "C01.b", "h1:dropna-forwarded", "dropna forwarded to the extractor",
              "h1 does not forward dropna to extract_1d_array", h1.where)

    wiring.params_used(ctx, "C01.b", wiring.funcs_of(m, "_facade", "_construction", only={"h1", "calculate_1d_frequencies", "calculate_1d_bins",
                       "extract_1d_array", "extract_weights"}) + [m.cls("Histogram1D").methods[x] for x in ("__init__", "from_calculate_frequencies")],
                       "h1-chain:options-read")
    wiring.same_name_forwarding(ctx, "C01.b", m, wiring.funcs_of(m, "_facade", "_construction", only={"h1", "calculate_1d_frequencies", "calculate_1d_bins",
                       "extract_1d_array", "extract_weights"}) + [m.cls("Histogram1D").methods[x] for x in ("__init__", "from_calculate_frequencies")],
                       "h1-chain:options-forwarded")
    ctx.rule("C01.c", "kernel results -> constructor parameters of the same role in every caller; dtype / keep_missed forwarded", 4)
    rets = [n for n in ast.walk(kern.node) if isinstance(n, ast.Return) and isinstance(n.value, ast.Tuple) and len(n.value.elts) == 5]
    order = [[U(e) for e in r.value.elts] for r in rets]
    ctx.check(["frequencies", "errors2", "underflow", "overflow", "stats"] in order, "C01.c", "kernel1d:return-order",
              "returns (frequencies, errors2, underflow, overflow, stats)", f"kernel returns {order}", kern.where)
    roles = {0: ["frequencies"], 1: ["errors2"], 2: ["underflow"], 3: ["overflow"], 4: ["stats"]}
    wiring.tuple_roles(ctx, "C01.c", h1, "calculate_1d_frequencies", roles, lambda c: U(c.func) == "Histogram1D", "h1:roles",
                       extra_forward=("dtype", "keep_missed"))
    H1 = m.cls("Histogram1D")
    fcf = H1.methods.get("from_calculate_frequencies")
    if fcf is None:
        raise AnalysisError("Histogram1D.from_calculate_frequencies not found")
    wiring.tuple_roles(ctx, "C01.c", fcf, "calculate_1d_frequencies", roles, lambda c: U(c.func) == "cls",
                       "Histogram1D.from_calculate_frequencies:roles", extra_forward=("dtype", "keep_missed"))
    # binning given to the kernel is the one given to the constructor
    for fi, key in ((h1, "h1"), (fcf, "from_calculate_frequencies")):
        kc = [c for c in calls_in(fi.node) if call_is(c, "calculate_1d_frequencies")]
        cc = [c for c in calls_in(fi.node) if U(c.func) in ("Histogram1D", "cls")]
        same = kc and cc and U(kwarg(kc[0], "binning")) == U(kwarg(cc[-1], "binning"))
        ctx.check(bool(same), "C01.c", f"{key}:same-binning", "kernel and constructor receive the same binning object",
                  "the histogram is built over a different binning than the one the contents were counted with", fi.where)

    ctx.rule("C01.d", "data and weights are permuted by the same argsort before the sweep (unless already_sorted)", 1)
    ok = False
    why = "sorting block not found"
    for path in function_paths(kern.node, loops=0):
        if not any(s[0] == "cond" and U(s[1]) == "already_sorted" and not s[2] for s in path):
            continue
        sts = [U(s[1]) for s in path if s[0] == "stmt"]
        order_var = [t.split(" = ")[0] for t in sts if t.endswith("= np.argsort(data_array)")]
        if not order_var:
            why = "no argsort of the data on the not-already-sorted path"
            continue
        o = order_var[0]
        if f"data_array = data_array[{o}]" in sts and f"weights_array = weights_array[{o}]" in sts:
            ok = True
        else:
            why = "data and weights are not both reordered with the argsort permutation"
    ctx.check(ok, "C01.d", "kernel1d:sorted-together", "sort_order = argsort(data); data = data[order]; weights = weights[order]", why, kern.where)

    ctx.rule("C01.e", "no call passes a local into the position of a differently named parameter (swapped arguments)", 1)
    funcs = [f for f in m.all_funcs() if f.module.short in ("_bin_utils", "_construction", "_facade", "histogram1d", "binnings")]
    n = wiring.swapped_arguments(ctx, "C01.e", funcs, m)
    if not any(r["rule"] == "C01.e" for r in ctx.results):
        ctx.ok("C01.e", "swapped-arguments:none", f"{n} calls with a known signature, no local passed in another parameter's slot")

    # an integer dtype with float weights would truncate the weights: refused by the kernel (shared with C13.d)
    from rules import c13
    ctx.rule("C01.g", "the kernel refuses an integer dtype together with float weights before allocating", 1)
    c13.check_int_float_refusal(ctx, "C01.g", m, "calculate_1d_frequencies")

    # the constructor keeps the NaN "unknown" markers: missed values are stored as given (shared with C13.b)
    ctx.rule("C01.h", "Histogram1D.__init__ stores [underflow, overflow, inner_missed] unmodified with the histogram dtype", 1)
    c13.check_missed_alloc(ctx, "C01.h", m)
